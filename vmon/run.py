"""Parent driver.

    python -m vmon.run C07 [--tier quick|thorough] [--seed N] [--replay FILE] [--procs N]

Spawns one fresh subprocess per (job, shard) (never multiprocessing.Pool), merges
their observation dumps, classifies raw violations against known_findings.json,
writes evidence/<id>.json and replays/, prints the verdict lines and exits
0 (held on observed) / 1 (VIOLATION) / 2 (INCONCLUSIVE).
"""

import argparse
import importlib
import json
import os
import re
import subprocess
import sys
import tempfile
import time
from concurrent.futures import ThreadPoolExecutor
from pathlib import Path

from . import env

VERIF = env.VERIF_DIR


def load_known():
    p = VERIF / "known_findings.json"
    if not p.exists():
        return []
    return json.loads(p.read_text()).get("findings", [])


def slug(s):
    return re.sub(r"[^A-Za-z0-9_.-]+", "_", s)[:80]


def worker_env():
    e = dict(os.environ)
    repo = str(env.repo_dir())
    e["PYTHONPATH"] = os.pathsep.join([repo, str(VERIF)])
    e["PYTHONHASHSEED"] = "0"
    e["VERIF_REPO"] = repo
    e["OMP_NUM_THREADS"] = "1"
    e["OPENBLAS_NUM_THREADS"] = "1"
    e["MKL_NUM_THREADS"] = "1"
    e["PYTHONDONTWRITEBYTECODE"] = "1"
    return e


def run_worker(prop, tier, seed, job, lo, hi, shard, outdir, timeout, only=None):
    out = os.path.join(outdir, f"{slug(job['name'])}-{shard}.json")
    cmd = [
        sys.executable, "-m", "vmon.worker", "--prop", prop, "--tier", tier, "--seed", str(seed),
        "--job", json.dumps(job), "--lo", str(lo), "--hi", str(hi), "--shard", str(shard), "--out", out,
    ]
    if only is not None:
        cmd += ["--only", str(only)]
    cov_dir = os.environ.get("VERIF_COVERAGE")
    if cov_dir:
        # reach measurement (tools/reach.py): which lines of the library the workloads execute; never part of a verdict
        cmd = [sys.executable, "-m", "coverage", "run", "--parallel-mode", f"--data-file={cov_dir}/.coverage", "--source=beyond"] + cmd[1:]
    t0 = time.time()
    try:
        p = subprocess.run(cmd, env=worker_env(), cwd=str(VERIF), capture_output=True, text=True, timeout=timeout)
    except subprocess.TimeoutExpired:
        return {"failed": f"watchdog: job={job['name']} shard={shard} exceeded {timeout}s", "job": job, "shard": shard}
    if p.returncode != 0 or not os.path.exists(out):
        return {
            "failed": f"worker crashed rc={p.returncode} job={job['name']} shard={shard}: {p.stderr[-1500:]}",
            "job": job, "shard": shard,
        }
    with open(out) as fp:
        res = json.load(fp)
    res["stderr_tail"] = p.stderr[-400:]
    res["elapsed"] = time.time() - t0
    return res


def split(n, k):
    k = max(1, min(k, n))
    base, rem = divmod(n, k)
    out, lo = [], 0
    for i in range(k):
        hi = lo + base + (1 if i < rem else 0)
        out.append((lo, hi))
        lo = hi
    return out


def merge(results):
    m = {
        "evaluations": 0, "cases": 0, "nontrivial": set(), "counters": {}, "residuals": {},
        "violations": {}, "samples": [], "inconclusive": [], "notes": {}, "extra": {}, "tree": None,
    }
    for r in results:
        if "failed" in r:
            m["inconclusive"].append(r["failed"])
            continue
        m["evaluations"] += r["evaluations"]
        m["cases"] += r["cases"]
        m["nontrivial"].update(r["nontrivial"])
        for k, v in r["counters"].items():
            m["counters"][k] = m["counters"].get(k, 0) + v
        for k, v in r["residuals"].items():
            d = m["residuals"].setdefault(k, {"max": 0.0, "tol_at_max": v["tol_at_max"], "max_ratio": 0.0, "n": 0, "breaches": 0})
            d["n"] += v["n"]
            d["breaches"] += v["breaches"]
            if v["max_ratio"] >= d["max_ratio"]:
                d["max_ratio"], d["max"], d["tol_at_max"] = v["max_ratio"], v["max"], v["tol_at_max"]
        for k, v in r["violations"].items():
            d = m["violations"].setdefault(k, {"count": 0, "witnesses": []})
            d["count"] += v["count"]
            if len(d["witnesses"]) < 3:
                d["witnesses"].extend(v["witnesses"][: 3 - len(d["witnesses"])])
        if len(m["samples"]) < 8:
            m["samples"].extend(r["samples"][:2])
        m["inconclusive"].extend(r["inconclusive"])
        jn = r["job"]["name"]
        for k, v in r["notes"].items():
            m["notes"].setdefault(jn, {})[k] = v
        for k, v in (r.get("extra") or {}).items():
            m["extra"].setdefault(k, v)
        m["tree"] = r.get("tree") or m["tree"]
    return m


def main(argv=None):
    ap = argparse.ArgumentParser()
    ap.add_argument("prop")
    ap.add_argument("--tier", default=os.environ.get("VERIF_TIER", "quick"), choices=["quick", "thorough"])
    ap.add_argument("--seed", type=int, default=int(os.environ.get("VERIF_SEED", "0") or 0))
    ap.add_argument("--replay")
    ap.add_argument("--procs", type=int, default=None)
    ap.add_argument("--jobs", default=None, help="comma separated job-name filter (debug)")
    ap.add_argument("--scale", type=float, default=1.0, help="scale the case counts (debug)")
    args = ap.parse_args(argv)

    prop = args.prop.upper()
    t0 = time.time()
    sys.path.insert(0, str(env.repo_dir()))
    os.environ.setdefault("PYTHONHASHSEED", "0")
    mod = importlib.import_module(f"vmon.checks.{prop.lower()}")
    known = [k for k in load_known() if k["property"] == prop]
    open_keys = {k["key"]: k for k in known if k.get("status") == "open"}

    tmp = tempfile.mkdtemp(prefix=f"vmon-{prop}-")
    try:
        if args.replay:
            w = json.loads(Path(args.replay).read_text())
            job = w["job_params"]
            res = run_worker(prop, w.get("tier", args.tier), w["seed"], job, 0, 0, 0, tmp, 3600, only=w["case_idx"])
            m = merge([res])
            for key, v in m["violations"].items():
                print(f"REPRODUCED property={prop} key={key} count={v['count']}")
                for wi in v["witnesses"][:1]:
                    print(json.dumps(wi, indent=1, ensure_ascii=False)[:4000])
            for inc in m["inconclusive"]:
                print("INCONCLUSIVE", inc[:2000])
            bad = [k for k in m["violations"] if k not in open_keys]
            return 1 if bad else (2 if m["inconclusive"] else 0)

        jobs = mod.jobs(args.tier)
        if args.jobs:
            want = set(args.jobs.split(","))
            jobs = [j for j in jobs if j["name"] in want]
        procs = args.procs or (16 if args.tier == "thorough" else int(os.environ.get("VERIF_QUICK_PROCS", "8")))
        tasks = []
        for job in jobs:
            n = max(1, int(job.get("n", 1) * args.scale)) if args.scale != 1.0 else job.get("n", 1)
            shards = job.get("shards", procs if n >= 4 * procs else 1)
            timeout = job.get("timeout", 1500 if args.tier == "quick" else 7200)
            for si, (lo, hi) in enumerate(split(n, shards)):
                tasks.append((job, lo, hi, si, timeout))
        with ThreadPoolExecutor(max_workers=procs) as ex:
            futs = [ex.submit(run_worker, prop, args.tier, args.seed, j, lo, hi, si, tmp, to) for (j, lo, hi, si, to) in tasks]
            results = [f.result() for f in futs]
    finally:
        import shutil

        shutil.rmtree(tmp, ignore_errors=True)

    m = merge(results)

    # coverage requirements (zero hits of a deciding monitor => inconclusive)
    reqs = mod.requirements(args.tier) if hasattr(mod, "requirements") else {}
    if args.jobs or args.scale != 1.0:
        reqs = {}
    for name, minimum in reqs.items():
        got = m["counters"].get(name, 0)
        if got < minimum:
            m["inconclusive"].append(f"coverage: counter '{name}' = {got} < required {minimum}")

    # classification
    scratch = str(env.repo_dir()) != "/repo"  # mutant / scratch tree: keep the committed evidence untouched
    replay_dir = VERIF / (".scratch-replays" if scratch else "replays")
    viol_lines, known_lines = [], []
    n_unlisted = 0
    for key, v in sorted(m["violations"].items()):
        if key in open_keys:
            known_lines.append(
                f"KNOWN-FINDING: property={prop} {key}: {open_keys[key].get('what', '')} (observed {v['count']}x this run)"
            )
            continue
        n_unlisted += v["count"]
        replay_dir.mkdir(exist_ok=True)
        path = replay_dir / f"{prop}-{slug(key)}.json"
        w = dict(v["witnesses"][0]) if v["witnesses"] else {}
        w.update({"property": prop, "key": key, "tier": args.tier, "count": v["count"], "tree": m["tree"]})
        path.write_text(json.dumps(w, indent=1, ensure_ascii=False))
        viol_lines.append(f"VIOLATION property={prop} replay={path}")
        viol_lines.append(f"  key={key} count={v['count']} msg={w.get('msg', '')[:300]}")

    wall = time.time() - t0
    rule = getattr(mod, "RULE", "see DESIGN.md")
    coverage = {
        "evaluations": int(m["evaluations"]),
        "distinct_nontrivial": len(m["nontrivial"]),
        "rule": rule,
        "samples": m["samples"][:8] or ["<none>"],
        "cases": m["cases"],
        "counters": dict(sorted(m["counters"].items())),
        "residuals": m["residuals"],
        "jobs": [{k: v for k, v in j.items()} for j in jobs],
        "notes": m["notes"],
        "extra": m["extra"],
        "known_findings_observed": {k: m["violations"][k]["count"] for k in m["violations"] if k in open_keys},
        "unlisted_violation_keys": {k: m["violations"][k]["count"] for k in m["violations"] if k not in open_keys},
        "inconclusive": m["inconclusive"][:20],
        "tree": m["tree"],
        "verdict": "violated" if n_unlisted else ("inconclusive" if m["inconclusive"] else "held-on-observed"),
    }
    if getattr(mod, "EXHAUSTIVE", None):
        coverage["exhaustive_subspaces"] = mod.EXHAUSTIVE
    evidence = {
        "property_id": prop,
        "tier": args.tier,
        "seed": args.seed,
        "level": "exploration",
        "coverage": coverage,
        "assumptions": getattr(mod, "ASSUMPTIONS", []),
        "wall_s": round(wall, 2),
        "violations": int(n_unlisted),
    }
    if not (args.jobs or args.scale != 1.0):
        evdir = VERIF / (".scratch-evidence" if scratch else "evidence")
        evdir.mkdir(exist_ok=True)
        (evdir / f"{prop}.json").write_text(json.dumps(evidence, indent=1, ensure_ascii=False, default=str))

    for line in known_lines:
        print(line)
    for line in viol_lines:
        print(line)
    print(
        f"[{prop}] tier={args.tier} seed={args.seed} cases={m['cases']} evaluations={m['evaluations']} "
        f"distinct_nontrivial={len(m['nontrivial'])} wall={wall:.1f}s verdict={coverage['verdict']}"
    )
    worst = sorted(m["residuals"].items(), key=lambda kv: -kv[1]["max_ratio"])[:6]
    for k, r in worst:
        print(f"   resid {k}: worst accepted {r['max']:.3g} / tol {r['tol_at_max']:.3g} (n={r['n']}, breaches={r['breaches']})")
    if n_unlisted:
        return 1
    if m["inconclusive"]:
        for inc in m["inconclusive"][:10]:
            print(f"INCONCLUSIVE property={prop} reason={inc[:1500]}")
        return 2
    return 0


if __name__ == "__main__":
    sys.exit(main())
