"""Binding of the harness to the tree under test and to a data configuration."""

import hashlib
import os
import subprocess
import sys
from pathlib import Path

VERIF_DIR = Path(__file__).resolve().parent.parent


def repo_dir():
    return Path(os.environ.get("VERIF_REPO", "/repo")).resolve()


class HarnessSkip(Exception):
    """Raised by a check to skip a generated case that is outside the quantifier."""


def bind_tree():
    """Make `import beyond` resolve to the tree under test (PYTHONPATH wins over
    the editable install; we put it first explicitly and assert)."""
    repo = str(repo_dir())
    if sys.path[0:1] != [repo]:
        sys.path.insert(0, repo)
    import beyond  # noqa

    got = Path(beyond.__file__).resolve()
    if not str(got).startswith(repo + os.sep):
        raise RuntimeError(f"beyond imported from {got}, expected under {repo}")


_tree_id = None


def tree_identity():
    global _tree_id
    if _tree_id is None:
        repo = repo_dir()
        try:
            head = subprocess.run(
                ["git", "-C", str(repo), "rev-parse", "HEAD"], capture_output=True, text=True, timeout=20
            ).stdout.strip()
            diff = subprocess.run(
                ["git", "-C", str(repo), "diff", "HEAD", "--", "beyond"], capture_output=True, timeout=20
            ).stdout
            dh = hashlib.sha1(diff).hexdigest()[:12] if diff else "clean"
        except Exception:  # not a git tree (scratch copy)
            head, dh = "nogit", "unknown"
        if head in ("", "nogit"):
            h = hashlib.sha1()
            for p in sorted((repo / "beyond").rglob("*.py")):
                h.update(p.read_bytes())
            head, dh = "nogit", h.hexdigest()[:12]
        _tree_id = {"repo": str(repo), "head": head, "diff": dh}
    return _tree_id


POLE = "tests/data/pole"
JPL = "tests/data/jpl"

# Coverage of the real IERS tables shipped with the repository's tests
EOP_MJD_MIN = 41684
EOP_MJD_MAX = 57802


def configure(job):
    """Apply the data configuration named by the job (one per subprocess)."""
    from beyond.config import config

    eop = job.get("eop", "real")
    policy = job.get("policy", "pass")
    repo = repo_dir()
    if eop == "real":
        config.update({"eop": {"folder": str(repo / POLE), "type": "all", "missing_policy": policy}})
    elif eop == "zero":
        # no tables at all: the database cannot be instantiated -> policy decides
        config.update({"eop": {"folder": "/nonexistent-eop-folder", "type": "all", "missing_policy": policy}})
    elif eop == "const":
        from beyond.dates.eop import EopDb, Eop

        class ConstDb:
            def __getitem__(self, mjd):
                return Eop(
                    x=-0.00951054166666622,
                    y=0.31093590624999734,
                    dpsi=-94.19544791666682,
                    deps=-10.295645833333051,
                    dy=-0.10067361111115315,
                    dx=-0.06829513888889051,
                    lod=1.6242802083331438,
                    ut1_utc=0.01756018472222477,
                    tai_utc=36.0,
                )

        if "vmon-const" not in EopDb._dbs:
            EopDb.register(ConstDb, "vmon-const")
        config.update({"eop": {"dbname": "vmon-const", "missing_policy": policy}})
    else:
        raise ValueError(eop)

    if job.get("jpl"):
        files = [str(repo / JPL / "de403_2000-2020.bsp")]
        if job["jpl"] == "pck":
            files += [str(repo / JPL / "pck00010.tpc"), str(repo / JPL / "gm_de431.tpc")]
        config.set("env", "jpl", "files", files)
