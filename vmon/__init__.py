"""vmon -- runtime monitors for galactics/beyond (see /verif/DESIGN.md)."""
