"""Worker: runs a slice of cases of one job of one property in a fresh process.

    python -m vmon.worker --prop C01 --tier quick --seed 0 --job '<json>' \
        --lo 0 --hi 100 --shard 0 --out /path/result.json [--only IDX]

Each case gets its own PRNG derived from (seed, job name, case index), so any
single case can be replayed alone.
"""

import argparse
import faulthandler
import importlib
import json
import os
import random
import sys
import time


def case_rng(seed, jobname, idx):
    return random.Random(f"{seed}:{jobname}:{idx}")


def main(argv=None):
    ap = argparse.ArgumentParser()
    ap.add_argument("--prop", required=True)
    ap.add_argument("--tier", default="quick")
    ap.add_argument("--seed", type=int, default=0)
    ap.add_argument("--job", required=True)
    ap.add_argument("--lo", type=int, default=0)
    ap.add_argument("--hi", type=int, default=0)
    ap.add_argument("--shard", type=int, default=0)
    ap.add_argument("--out", required=True)
    ap.add_argument("--only", type=int, default=None)
    ap.add_argument("--verbose", action="store_true")
    args = ap.parse_args(argv)

    faulthandler.enable()
    # die with the parent (a killed driver must not leave looping workers behind) and bound the memory
    try:
        import ctypes
        import resource
        import signal

        ctypes.CDLL("libc.so.6", use_errno=True).prctl(1, signal.SIGKILL)  # PR_SET_PDEATHSIG
        lim = int(os.environ.get("VERIF_WORKER_MEM_GB", "6")) << 30
        resource.setrlimit(resource.RLIMIT_AS, (lim, lim))
    except Exception:  # pragma: no cover
        pass
    job = json.loads(args.job)

    from . import env
    from .ctx import Ctx

    env.bind_tree()
    env.configure(job)

    ctx = Ctx(args.prop, args.tier, args.seed, job, args.shard)
    ctx.verbose = args.verbose
    t0 = time.time()
    mod = importlib.import_module(f"vmon.checks.{args.prop.lower()}")

    state = None
    if job["name"] == "repo-tests":
        # the repository's own test-suite as a workload for invariant hooks (vmon/repotests.py): no generated cases
        from . import repotests

        mod = type("RepoTests", (), {"run_case": staticmethod(lambda ctx, job, idx, rng, st: repotests.run(ctx, args.prop))})
        args.lo, args.hi = 0, 1
    try:
        if hasattr(mod, "setup"):
            state = mod.setup(ctx, job)
        indices = [args.only] if args.only is not None else range(args.lo, args.hi)
        for idx in indices:
            ctx.case_idx = idx
            rng = case_rng(args.seed, job["name"], idx)
            try:
                mod.run_case(ctx, job, idx, rng, state)
            except env.HarnessSkip:
                ctx.count("skipped-case")
            except Exception as e:  # a bug of the harness, not a verdict
                ctx.harness_error(e)
                if len(ctx.inconclusive) > 20:
                    break
        ctx.case_idx = None
        if hasattr(mod, "finish"):
            mod.finish(ctx, job, state)
    except Exception as e:
        ctx.harness_error(e)

    out = ctx.dump()
    out["wall_s"] = time.time() - t0
    out["tree"] = env.tree_identity()
    tmp = args.out + ".tmp"
    with open(tmp, "w") as fp:
        json.dump(out, fp)
    os.replace(tmp, args.out)
    return 0


if __name__ == "__main__":
    sys.exit(main())
