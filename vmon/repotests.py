"""The repository's own test-suite as a workload for the invariant hooks of vmon/repotests_plugin.py.

run(ctx, prop) starts pytest in a subprocess inside the tree under test (doctests of beyond/ included, the repository's
addopts dropped so that no coverage files are written), with the plugin loaded and only the monitors of `prop` installed,
then merges what the hooks counted and found into the check's context.  Test results are ignored: on the pinned tree 11
tests fail for reasons unrelated to the hooks; the workload is what matters.  A run in which the hooks were not reached is
inconclusive (requirements of the calling check)."""

import json
import os
import subprocess
import sys
import tempfile

from . import env

MIN = {"C15": {"repo-tests:C15:copy-calls": 50000, "repo-tests:C15:copy-with-cov": 200},
       "C08": {"repo-tests:C08:propagate-calls": 20, "repo-tests:C08:iter-calls": 50},
       "C02": {"repo-tests:C02:transform-calls": 5000},
       "C10": {"repo-tests:C10:listen-calls": 20000, "repo-tests:C10:listen-calls-with-events": 100}}


def job():
    return {"name": "repo-tests", "n": 1, "eop": "zero", "shards": 1, "timeout": 1800}


def run(ctx, prop):
    tree = str(env.repo_dir())
    verif = os.path.dirname(os.path.dirname(os.path.abspath(__file__)))
    fd, out = tempfile.mkstemp(suffix=".json", prefix="vmon-repotests-")
    os.close(fd)
    e = dict(os.environ, PYTHONPATH=verif + os.pathsep + tree, VMON_REPOTESTS_OUT=out, VMON_REPOTESTS_MONITORS=prop)
    cmd = [sys.executable, "-m", "pytest", "-q", "-p", "no:cacheprovider", "-p", "vmon.repotests_plugin", "-o", "addopts=",
           "--timeout=900", "--continue-on-collection-errors", "--doctest-modules", "beyond/", "tests/"]
    ctx.case({"workload": "repository test-suite + doctests", "monitors": prop})
    try:
        p = subprocess.run(cmd, cwd=tree, env=e, capture_output=True, text=True, timeout=1700)
        try:
            data = json.load(open(out))
        except Exception:
            ctx.inconclusive_if(True, f"repo-tests workload produced no monitor dump (pytest rc={p.returncode}): {p.stdout[-300:]}")
            return
    finally:
        if os.path.exists(out):
            os.unlink(out)
    ctx.count("repo-tests:tests-run", data.get("tests_run", 0))
    for k, v in data["counters"].items():
        ctx.count("repo-tests:" + k, v)
        if k.endswith("-calls"):
            ctx.evaluations += v
    for key, v in data["violations"].items():
        for _ in range(min(v["count"], 50)):
            ctx.violation(key, dict(v["witness"], workload="repository test-suite", occurrences=v["count"]), f"[repo tests: {v['witness'].get('test')}] {v['msg']}")
    if not data["violations"]:
        ctx.ok("repo-tests")
