"""Independent model of the NORAD two-line element set *text* format.

Written from the column table of the format (CelesTrak "NORAD Two-Line Element Set Format",
columns are 1-based and inclusive):

    line 1                                         line 2
    01     line number '1'                         01     line number '2'
    03-07  satellite catalogue number              03-07  satellite catalogue number
    08     classification (U, C, S)                09-16  inclination [deg]        ddd.dddd
    10-11  int. designator: launch year            18-25  right ascension of node  ddd.dddd
    12-14  int. designator: launch number          27-33  eccentricity, decimal point assumed
    15-17  int. designator: piece                  35-42  argument of perigee      ddd.dddd
    19-20  epoch year (57-99 -> 19xx, 00-56 -> 20xx) 44-51 mean anomaly            ddd.dddd
    21-32  epoch day of year + fraction ddd.dddddddd 53-63 mean motion [rev/day]   dd.dddddddd
    34-43  ndot/2   s.dddddddd                     64-68  revolution number at epoch
    45-52  nddot/6  sddddd[+-]d  (0.ddddd x 10^+-d) 69    checksum
    54-61  B*       sddddd[+-]d
    63     ephemeris type
    65-68  element set number
    69     checksum: sum of all digits of columns 1-68, each '-' counting 1, modulo 10

Nothing is imported from ``beyond``.  All numeric fields are kept as *scaled integers* (the digits
that are printed), so formatting and parsing are exact and never go through binary floating point:

    i_e4, raan_e4, argp_e4, M_e4   degrees x 1e4      ecc_e7   eccentricity x 1e7
    n_e8   rev/day x 1e8           day_e8  day of year x 1e8 (1.0 = 1 January 00:00)
    ndot   (negative?, |ndot/2| x 1e8)    nddot, bstar   (negative?, mantissa 0..99999, exponent -9..9)

Canonical spelling (the conventions used by the format's usual writers, and by the library's own
writer): blank for a positive sign, zero as ' 00000-0', non-zero implied-decimal fields with a
normalised mantissa (first digit non-zero) and '+0' for a zero exponent, zero padded catalogue
number, blank padded (right justified) element and revolution numbers.
"""

import datetime as _dt
from fractions import Fraction

LINE_LEN = 69

# (name, first column, last column) 1-based inclusive, straight from the table above
LINE1_COLS = [
    ("lineno", 1, 1), ("norad", 3, 7), ("classification", 8, 8), ("intl_year", 10, 11), ("intl_launch", 12, 14),
    ("intl_piece", 15, 17), ("epoch_year", 19, 20), ("epoch_day", 21, 32), ("ndot", 34, 43), ("nddot", 45, 52),
    ("bstar", 54, 61), ("ephtype", 63, 63), ("elnum", 65, 68), ("checksum", 69, 69),
]
LINE2_COLS = [
    ("lineno", 1, 1), ("norad", 3, 7), ("i", 9, 16), ("raan", 18, 25), ("ecc", 27, 33), ("argp", 35, 42),
    ("M", 44, 51), ("n", 53, 63), ("rev", 64, 68), ("checksum", 69, 69),
]
# columns that are always blank
LINE1_BLANK = [2, 9, 18, 33, 44, 53, 62, 64]
LINE2_BLANK = [2, 8, 17, 26, 34, 43, 52]


class TleFormatError(ValueError):
    pass


def _cols(line, first, last):
    return line[first - 1:last]


def checksum(line):
    """Checksum of columns 1..68 of a line (works on any string, only the first 68 chars count)."""
    total = 0
    for ch in line[:68]:
        if "0" <= ch <= "9":
            total += ord(ch) - 48
        elif ch == "-":
            total += 1
    return total % 10


def line_problems(line, number):
    """List of reasons why `line` is not a valid line `number` (1 or 2). Empty list = valid."""
    out = []
    if len(line) != LINE_LEN:
        out.append("length")
    if line[:2] != f"{number} ":
        out.append("lineno")
    if len(line) >= LINE_LEN and line[68] != str(checksum(line)):
        out.append("checksum")
    return out


def is_valid_pair(l1, l2):
    return not line_problems(l1, 1) and not line_problems(l2, 2)


# ------------------------------------------------------------------------------------------------
# parsing (exact)
def _int_field(text, what):
    t = text.strip()
    if t == "":
        return 0
    if not (t.isdigit() and t.isascii()):
        raise TleFormatError(f"{what}: {text!r}")
    return int(t)


def _fixed(text, ndec, what):
    """'ddd.dddd' -> integer number of 10^-ndec units (exact)."""
    t = text.strip()
    neg = t.startswith("-")
    if t[:1] in "+-":
        t = t[1:]
    ip, dot, fp = t.partition(".")
    if dot != "." or len(fp) != ndec or not (fp.isdigit() and (ip == "" or ip.isdigit())):
        raise TleFormatError(f"{what}: {text!r}")
    v = int(ip or "0") * 10 ** ndec + int(fp)
    return neg, v


def _implied(text, what):
    """'sddddd[+-]d' -> (negative?, mantissa, exponent)"""
    if len(text) != 8:
        raise TleFormatError(f"{what}: {text!r}")
    s, mant, es, ed = text[0], text[1:6], text[6], text[7]
    if s not in " +-" or not mant.isdigit() or es not in "+-" or not ed.isdigit():
        raise TleFormatError(f"{what}: {text!r}")
    return (s == "-", int(mant), int(ed) * (-1 if es == "-" else 1))


def full_year(yy):
    return 1900 + yy if yy >= 57 else 2000 + yy


def parse(l1, l2):
    """Parse two (already validated or not) 69-column lines into the exact field dictionary."""
    if len(l1) != LINE_LEN or len(l2) != LINE_LEN:
        raise TleFormatError("length")
    f = {}
    g = lambda line, table, name: _cols(line, *[(a, b) for (n, a, b) in table if n == name][0])  # noqa: E731
    f["norad"] = _int_field(g(l1, LINE1_COLS, "norad"), "norad")
    f["norad2"] = _int_field(g(l2, LINE2_COLS, "norad"), "norad2")
    f["classification"] = g(l1, LINE1_COLS, "classification")
    yy, launch, piece = g(l1, LINE1_COLS, "intl_year"), g(l1, LINE1_COLS, "intl_launch"), g(l1, LINE1_COLS, "intl_piece")
    if (yy + launch + piece).strip() == "":
        f["intl"] = None
    else:
        f["intl"] = (int(yy), launch, piece.rstrip())
    f["epoch_yy"] = _int_field(g(l1, LINE1_COLS, "epoch_year"), "epoch_year")
    _, f["day_e8"] = _fixed(g(l1, LINE1_COLS, "epoch_day"), 8, "epoch_day")
    nd = g(l1, LINE1_COLS, "ndot")
    if nd[0] not in " +-" or nd[1] != ".":
        raise TleFormatError(f"ndot: {nd!r}")
    f["ndot"] = (nd[0] == "-", int(nd[2:]))
    f["nddot"] = _implied(g(l1, LINE1_COLS, "nddot"), "nddot")
    f["bstar"] = _implied(g(l1, LINE1_COLS, "bstar"), "bstar")
    f["ephtype"] = _int_field(g(l1, LINE1_COLS, "ephtype"), "ephtype")
    f["elnum"] = _int_field(g(l1, LINE1_COLS, "elnum"), "elnum")
    _, f["i_e4"] = _fixed(g(l2, LINE2_COLS, "i"), 4, "i")
    _, f["raan_e4"] = _fixed(g(l2, LINE2_COLS, "raan"), 4, "raan")
    ecc = g(l2, LINE2_COLS, "ecc")
    if not ecc.isdigit():
        raise TleFormatError(f"ecc: {ecc!r}")
    f["ecc_e7"] = int(ecc)
    _, f["argp_e4"] = _fixed(g(l2, LINE2_COLS, "argp"), 4, "argp")
    _, f["M_e4"] = _fixed(g(l2, LINE2_COLS, "M"), 4, "M")
    _, f["n_e8"] = _fixed(g(l2, LINE2_COLS, "n"), 8, "n")
    f["rev"] = _int_field(g(l2, LINE2_COLS, "rev"), "rev")
    return f


# ------------------------------------------------------------------------------------------------
# exact values of the printed fields
def implied_value(t):
    neg, mant, exp = t
    v = Fraction(mant, 10 ** 5) * Fraction(10) ** exp
    return -v if neg else v


def implied_unit(t):
    """One unit of the last printed digit of an implied-decimal field."""
    return Fraction(1, 10 ** 5) * Fraction(10) ** t[2]


def ndot_half_value(t):
    v = Fraction(t[1], 10 ** 8)
    return -v if t[0] else v


def epoch_datetime(f):
    """Exact epoch: 1e-8 day is exactly 864 microseconds."""
    return _dt.datetime(full_year(f["epoch_yy"]), 1, 1) + _dt.timedelta(microseconds=(f["day_e8"] - 10 ** 8) * 864)


def cospar(f):
    """International designator in the 'YYYY-NNNPPP' spelling, '' when blank."""
    if f["intl"] is None:
        return ""
    yy, launch, piece = f["intl"]
    return f"{full_year(yy)}-{launch}{piece}"


def is_leap(y):
    return y % 4 == 0 and (y % 100 != 0 or y % 400 == 0)


# ------------------------------------------------------------------------------------------------
# formatting (exact, canonical unless a spelling option says otherwise)
def _implied_text(t, plus=False, zero_plus=False):
    neg, mant, exp = t
    if not 0 <= mant <= 99999 or not -9 <= exp <= 9:
        raise TleFormatError(f"implied-decimal field out of range: {t}")
    sign = "-" if neg else ("+" if plus else " ")
    if exp < 0:
        es = "-"
    elif exp > 0:
        es = "+"
    else:
        # zero exponent: '-0' for the value zero ('00000-0'), '+0' for a non-zero mantissa
        es = ("+" if zero_plus else "-") if mant == 0 else "+"
    return f"{sign}{mant:05d}{es}{abs(exp)}"


def is_canonical_implied(t):
    """Normalised mantissa (or exactly zero with exponent 0 and no sign)."""
    neg, mant, exp = t
    if mant == 0:
        return exp == 0 and not neg
    return mant >= 10000


def format_lines(f, spelling=None):
    """Return (line1, line2) with checksums.  `spelling` holds the non-canonical options:
    plus_ndot, plus_nddot, plus_bstar, zero_plus_nddot, zero_plus_bstar, norad_blank_pad, rev_zero_pad,
    elnum_zero_pad (all default False)."""
    sp = spelling or {}
    norad = f"{f['norad']:05d}"
    if sp.get("norad_blank_pad"):
        norad = f"{f['norad']:>5d}"
    if len(norad) != 5:
        raise TleFormatError("norad")
    if f["intl"] is None:
        intl = " " * 8
    else:
        yy, launch, piece = f["intl"]
        intl = f"{yy:02d}{launch}{piece:<3}"
    if len(intl) != 8:
        raise TleFormatError("intl")
    day = f["day_e8"]
    epoch = f"{f['epoch_yy']:02d}{day // 10 ** 8:03d}.{day % 10 ** 8:08d}"
    nneg, nval = f["ndot"]
    if not 0 <= nval < 10 ** 8:
        raise TleFormatError("ndot")
    ndot = ("-" if nneg else ("+" if sp.get("plus_ndot") else " ")) + f".{nval:08d}"
    nddot = _implied_text(f["nddot"], sp.get("plus_nddot"), sp.get("zero_plus_nddot"))
    bstar = _implied_text(f["bstar"], sp.get("plus_bstar"), sp.get("zero_plus_bstar"))
    elnum = f"{f['elnum']:04d}" if sp.get("elnum_zero_pad") else f"{f['elnum']:>4d}"
    l1 = f"1 {norad}{f['classification']} {intl} {epoch} {ndot} {nddot} {bstar} {f['ephtype']:1d} {elnum}"

    def ang(v):
        return f"{v // 10 ** 4:>3d}.{v % 10 ** 4:04d}"

    n = f["n_e8"]
    rev = f"{f['rev']:05d}" if sp.get("rev_zero_pad") else f"{f['rev']:>5d}"
    l2 = (
        f"2 {norad} {ang(f['i_e4'])} {ang(f['raan_e4'])} {f['ecc_e7']:07d} {ang(f['argp_e4'])} {ang(f['M_e4'])} "
        f"{n // 10 ** 8:>2d}.{n % 10 ** 8:08d}{rev}"
    )
    if len(l1) != 68 or len(l2) != 68:
        raise TleFormatError(f"field overflow: {l1!r} {l2!r}")
    return l1 + str(checksum(l1)), l2 + str(checksum(l2))


def with_checksum(line68):
    """Append the right checksum to the first 68 columns of a line."""
    return line68[:68] + str(checksum(line68))


# ------------------------------------------------------------------------------------------------
# generator of field sets over the *full printed ranges* of the format
def _loguniform_int(rng, lo, hi):
    import math

    return int(round(math.exp(rng.uniform(math.log(lo), math.log(hi)))))


def random_implied(rng, kind=None, exp_range=(-9, 9)):
    """(negative?, mantissa, exponent), canonical (normalised).  kind: zero|pos|neg|None(random)"""
    kind = kind or rng.choice(["zero", "pos", "neg", "pos", "neg"])
    if kind == "zero":
        return (False, 0, 0)
    mant = rng.choice([10000, 99999, rng.randint(10000, 99999), rng.randint(10000, 99999)])
    exp = rng.randint(*exp_range)
    return (kind == "neg", mant, exp)


def random_name(rng):
    alphabet = "ABCDEFGHIJKLMNOPQRSTUVWXYZ0123456789-()/ ."
    n = rng.randint(1, 24)
    name = "".join(rng.choice(alphabet) for _ in range(n)).strip()
    # a name line must not look like a data line, a comment or be blank
    if not name or name[:2] in ("1 ", "2 ", "0 ") or name[0] == "#" or name in ("1", "2", "0"):
        name = "SAT " + name
    return name.strip()


def random_fields(rng, year_range=(1957, 2056), n_range_e8=(0, 17 * 10 ** 8 - 1), ecc_range_e7=(0, 9999999),
                  i_range_e4=(0, 1800000), edge=0.25):
    """Random exact field set.  With probability `edge` each field takes an extreme of its printed range."""

    def pick(lo, hi):
        if rng.random() < edge:
            return rng.choice([lo, hi, lo + 1, hi - 1])
        return rng.randint(lo, hi)

    y = pick(*year_range)
    ndays = 366 if is_leap(y) else 365
    # day of year 1.00000000 ... ndays.99999999
    day_e8 = pick(10 ** 8, (ndays + 1) * 10 ** 8 - 1)
    if rng.random() < 0.15:
        intl = None
    else:
        ly = rng.randint(0, 99)
        piece = "".join(rng.choice("ABCDEFGHJKLMNPQRSTUVWXYZ") for _ in range(rng.choice([1, 1, 2, 3])))
        intl = (ly, f"{pick(1, 999):03d}", piece)
    f = {
        "norad": rng.choice([pick(0, 99999), pick(0, 99999), rng.randint(1, 9), rng.randint(10, 999)]),
        "classification": "U",
        "intl": intl,
        "epoch_yy": y % 100,
        "day_e8": day_e8,
        "ndot": (rng.random() < 0.5, rng.choice([0, pick(0, 10 ** 8 - 1), _loguniform_int(rng, 1, 10 ** 8 - 1)])),
        "nddot": random_implied(rng),
        "bstar": random_implied(rng),
        "ephtype": 0,
        "elnum": rng.choice([pick(0, 9999), pick(0, 999), pick(1000, 9999), rng.randint(0, 9)]),
        "i_e4": pick(*i_range_e4),
        "raan_e4": pick(0, 3599999),
        "ecc_e7": rng.choice([pick(*ecc_range_e7), _loguniform_int(rng, 1, max(2, ecc_range_e7[1]))]),
        "argp_e4": pick(0, 3599999),
        "M_e4": pick(0, 3599999),
        "n_e8": rng.choice([pick(*n_range_e8), pick(max(n_range_e8[0], 10 ** 8), n_range_e8[1])]),
        "rev": rng.choice([pick(0, 99999), pick(0, 9999), rng.randint(0, 9)]),
    }
    f["norad2"] = f["norad"]
    if f["ndot"][1] == 0 and rng.random() < 0.7:
        f["ndot"] = (False, 0)  # '-.00000000' is kept as a (rare) spelling of its own
    return f


def fields_equal(a, b, ignore=()):
    keys = [k for k in a if k not in ignore and k != "norad2"]
    return [k for k in keys if a[k] != b.get(k)]


# ------------------------------------------------------------------------------------------------
# multi-TLE texts: independent definition of "the valid entries of a text"
def scan_entries(text, comments="#"):
    """Entries of a multi-TLE text: after dropping blank and comment lines, every line starting with
    '1 ' that is immediately followed by a line starting with '2 ', both being valid lines (length 69,
    checksum).  The name is the line before the pair if it is neither a '1 ' nor a '2 ' line.
    Returns a list of (name or None, line1, line2, strict) where strict tells that the pair is also
    well-formed column by column (own parser accepts it) with the same catalogue number on both lines.
    Pairs that are not strict (e.g. a renumbered line, lines of two different objects) pass the three
    validity tests of the property but are not entries of any catalogue: a reader may take or leave them."""
    lines = [ln for ln in text.splitlines() if ln.strip() and not ln.startswith(comments)]
    out = []
    k = 0
    while k < len(lines) - 1:
        a, b = lines[k], lines[k + 1]
        if a.startswith("1 ") and b.startswith("2 "):
            if is_valid_pair(a.strip(), b.strip()):
                name = None
                if k > 0 and not lines[k - 1].startswith(("1 ", "2 ")):
                    name = lines[k - 1].strip()
                    if name.startswith("0 "):
                        name = name[2:]
                try:
                    f = parse(a.strip(), b.strip())
                    strict = f["norad"] == f["norad2"]
                except (TleFormatError, ValueError):
                    strict = False
                out.append((name, a.strip(), b.strip(), strict))
            k += 2
        else:
            k += 1
    return out
