"""Conical Earth-shadow geometry (umbra / penumbra) with *separate* half-angles.

Two independent formulations of the same textbook model (spherical Sun of radius Rs, spherical
occulting body of radius Rb, no atmosphere, no light-time), both written from the geometry and not
from beyond/propagators/listeners.py:

A. apparent-disk formulation (Montenbruck & Gill, Satellite Orbits, 3.4.2, eq. 3.85-3.87):
   seen from the satellite the Sun is a disk of angular radius  a = asin(Rs/|s - r|)  and the body a
   disk of angular radius  b = asin(Rb/|r|)  whose centres are  c = angle(-r, s - r)  apart.
       some part of the Sun hidden   <=>  c < a + b        (inside the penumbra cone)
       the whole Sun hidden          <=>  c < b - a        (inside the umbra cone, b > a)
   The cone surfaces are exactly the loci where the two disks are externally / internally tangent
   (a line through the satellite tangent to both spheres), so this is the cone geometry, not an
   approximation of it.  It gives *smooth signed* functions
       g_pen(r, s)   = c - (a + b)      > 0 : full sunlight
       g_umbra(r, s) = c - (b - a)      > 0 : not in total shadow
   which are what the checks bisect on.

B. explicit cones (Vallado 4th ed. 5.3.3 / Montenbruck & Gill eq. 3.79-3.84): with the unit vector
   e_sun = s/|s|, the satellite is at axial distance  x = -r.e_sun  behind the body centre and at
   distance  l = sqrt(|r|^2 - x^2)  from the shadow axis.
       penumbra half-angle  f1 = asin((Rs + Rb)/|s|),  apex on the sunward side at  Rb/sin f1
       umbra    half-angle  f2 = asin((Rs - Rb)/|s|),  apex on the night side    at  Rb/sin f2
       in penumbra cone  <=>  l < (x + Rb/sin f1) tan f1
       in umbra cone     <=>  l < (Rb/sin f2 - x) tan f2   (and x > 0)
   Used as a cross-check of A (``self_test``) and to express a boundary offset as a length.

r : satellite position, s : Sun position, both relative to the centre of the occulting body and in
the same (any) orientation, metres.  Nothing from `beyond` is imported.
"""

import math

import numpy as np


def _angle(u, v):
    """Angle between two vectors, accurate for small and near-pi angles (atan2 of |u x v|, u.v)."""
    cx = np.cross(u, v)
    return math.atan2(math.sqrt(float(cx @ cx)), float(u @ v))


def disks(r, s, r_sun, r_body):
    """(a, b, c): apparent radius of the Sun, of the body, and separation of their centres [rad]."""
    r = np.asarray(r, float)
    s = np.asarray(s, float)
    d = s - r  # satellite -> Sun
    dn = math.sqrt(float(d @ d))
    rn = math.sqrt(float(r @ r))
    a = math.asin(min(1.0, r_sun / dn))
    b = math.asin(min(1.0, r_body / rn))
    c = _angle(-r, d)
    return a, b, c


def g_penumbra(r, s, r_sun, r_body):
    """> 0 in full sunlight, < 0 as soon as a part of the Sun is hidden [rad]."""
    a, b, c = disks(r, s, r_sun, r_body)
    return c - (a + b)


def g_umbra(r, s, r_sun, r_body):
    """< 0 when the whole Sun is hidden (total shadow), > 0 otherwise [rad]."""
    a, b, c = disks(r, s, r_sun, r_body)
    return c - (b - a)


def g(kind, r, s, r_sun, r_body):
    if kind == "umbra":
        return g_umbra(r, s, r_sun, r_body)
    if kind == "penumbra":
        return g_penumbra(r, s, r_sun, r_body)
    raise ValueError(kind)


def half_angles(s, r_sun, r_body):
    """(penumbra half-angle f1, umbra half-angle f2) of the two cones for the Sun at s."""
    sn = float(np.linalg.norm(s))
    return math.asin((r_sun + r_body) / sn), math.asin((r_sun - r_body) / sn)


def cones(r, s, r_sun, r_body):
    """Formulation B. Returns dict(x, l, l_pen, l_umb, in_pen, in_umb): axial distance behind the
    body, distance from the axis, and the radii of the two cones at that axial distance."""
    r = np.asarray(r, float)
    s = np.asarray(s, float)
    sn = float(np.linalg.norm(s))
    e_sun = s / sn
    x = -float(r @ e_sun)
    perp = r + x * e_sun
    l = float(np.linalg.norm(perp))
    f1, f2 = half_angles(s, r_sun, r_body)
    l_pen = (x + r_body / math.sin(f1)) * math.tan(f1)
    l_umb = (r_body / math.sin(f2) - x) * math.tan(f2)
    # the cones are only shadow on the night side of the tangent circles; for any point outside
    # the body `x > 0` is implied by l < l_umb, and for the penumbra x > -r_body sin f1
    in_pen = (x > -r_body * math.sin(f1)) and l < l_pen
    in_umb = (x > 0) and l < l_umb
    return dict(x=x, l=l, l_pen=l_pen, l_umb=l_umb, in_pen=in_pen, in_umb=in_umb, f_pen=f1, f_umb=f2)


def state(r, s, r_sun, r_body):
    """'light' | 'penumbra' | 'umbra' by formulation A."""
    a, b, c = disks(r, s, r_sun, r_body)
    if c < b - a:
        return "umbra"
    if c < a + b:
        return "penumbra"
    return "light"


def self_test(rng, r_sun, r_body, au, n=2000):
    """Cross-check A against B on random points around the shadow boundaries.
    Returns the number of disagreements that are not within 1e-3 m of a cone surface."""
    bad = 0
    for _ in range(n):
        sdir = np.array([rng.gauss(0, 1) for _ in range(3)])
        sdir /= np.linalg.norm(sdir)
        s = sdir * au * rng.uniform(0.983, 1.017)
        # a point behind the body near one of the cone surfaces
        x = r_body * math.exp(rng.uniform(math.log(0.05), math.log(8.0)))
        f1, f2 = half_angles(s, r_sun, r_body)
        which = rng.random() < 0.5
        lb = (x + r_body / math.sin(f1)) * math.tan(f1) if which else (r_body / math.sin(f2) - x) * math.tan(f2)
        l = lb + rng.choice([-1, 1]) * math.exp(rng.uniform(math.log(1e-2), math.log(5e5)))
        if l <= 0 or math.hypot(x, l) <= r_body:
            continue
        t = np.cross(sdir, np.array([rng.gauss(0, 1) for _ in range(3)]))
        t /= np.linalg.norm(t)
        r = -x * sdir + l * t
        cb = cones(r, s, r_sun, r_body)
        st = state(r, s, r_sun, r_body)
        st_b = "umbra" if cb["in_umb"] else ("penumbra" if cb["in_pen"] else "light")
        if st != st_b and min(abs(cb["l"] - cb["l_pen"]), abs(cb["l"] - cb["l_umb"])) > 1e-3:
            bad += 1
    return bad
