"""Universal-variable two-body propagation (Curtis, Orbital Mechanics, alg. 3.3/3.4;
Stumpff functions), safeguarded Newton/bisection.  Independent of beyond's Kepler
propagator, forms and numerical propagator.  Nothing from `beyond` is imported.
"""

import math

import numpy as np


def stumpff_C(z):
    if z > 1e-6:
        s = math.sqrt(z)
        return (1 - math.cos(s)) / z
    if z < -1e-6:
        s = math.sqrt(-z)
        return (math.cosh(s) - 1) / (-z)
    return 1 / 2 - z / 24 + z * z / 720 - z ** 3 / 40320


def stumpff_S(z):
    if z > 1e-6:
        s = math.sqrt(z)
        return (s - math.sin(s)) / s ** 3
    if z < -1e-6:
        s = math.sqrt(-z)
        return (math.sinh(s) - s) / s ** 3
    return 1 / 6 - z / 120 + z * z / 5040 - z ** 3 / 362880


def propagate(r0, v0, dt, mu, reduce_period=True):
    """State (r, v) after dt seconds (any sign) of two-body motion."""
    r0 = np.asarray(r0, float)
    v0 = np.asarray(v0, float)
    if dt == 0:
        return r0.copy(), v0.copy()
    r0n = float(np.linalg.norm(r0))
    v0n2 = float(np.dot(v0, v0))
    vr0 = float(np.dot(r0, v0)) / r0n
    alpha = 2 / r0n - v0n2 / mu  # 1/a
    if alpha > 0 and reduce_period:
        T = 2 * math.pi / math.sqrt(mu * alpha ** 3)
        dt = math.fmod(dt, T)
        if dt == 0:
            return r0.copy(), v0.copy()
    sq = math.sqrt(mu)

    def F(x):
        # strictly increasing in x; overflow of cosh/sinh for hyperbolas far beyond the root => +-inf
        try:
            z = alpha * x * x
            val = r0n * vr0 / sq * x * x * stumpff_C(z) + (1 - alpha * r0n) * x ** 3 * stumpff_S(z) + r0n * x - sq * dt
        except OverflowError:
            return math.copysign(math.inf, x)
        if not math.isfinite(val):
            return math.copysign(math.inf, x)
        return val

    def dF(x):  # = r(x) > 0
        z = alpha * x * x
        return r0n * vr0 / sq * x * (1 - z * stumpff_S(z)) + (1 - alpha * r0n) * x * x * stumpff_C(z) + r0n

    # F is strictly increasing (dF = r > 0): bracket then safeguarded Newton
    sgn = 1.0 if dt > 0 else -1.0
    step = sq * abs(dt) / r0n if alpha <= 0 else sq * abs(alpha) * abs(dt)
    if alpha < 0:
        # hyperbola: chi grows like log(dt); start the bracket at sqrt(-a) (z = -1) instead of sqrt(mu)|dt|/r0
        step = min(step, 1.0 / math.sqrt(-alpha))
    step = max(step, 1e-3)
    lo, hi = (0.0, sgn * step) if sgn > 0 else (sgn * step, 0.0)
    for _ in range(200):
        if sgn > 0:
            if F(hi) >= 0:
                break
            lo, hi = hi, hi * 2
        else:
            if F(lo) <= 0:
                break
            hi, lo = lo, lo * 2
    x = 0.5 * (lo + hi)
    for _ in range(200):
        fx = F(x)
        if fx > 0:
            hi = x
        else:
            lo = x
        if math.isinf(fx):
            x = 0.5 * (lo + hi)
            continue
        d = dF(x)
        xn = x - fx / d if d != 0 else 0.5 * (lo + hi)
        if not (lo <= xn <= hi):
            xn = 0.5 * (lo + hi)
        if abs(xn - x) <= 4e-16 * max(1.0, abs(xn)):
            x = xn
            break
        x = xn
    z = alpha * x * x
    C, S = stumpff_C(z), stumpff_S(z)
    f = 1 - x * x / r0n * C
    g = dt - x ** 3 / sq * S
    r = f * r0 + g * v0
    rn = float(np.linalg.norm(r))
    fdot = sq / (rn * r0n) * (alpha * x ** 3 * S - x)
    gdot = 1 - x * x / rn * C
    v = fdot * r0 + gdot * v0
    return r, v
