"""Independent ellipsoidal geodesy and topocentric (east-north-up) geometry.

Written from the textbook definitions (Torge, Geodesy; Bowring 1976/1985; Vallado 4th ed.
sec. 3.2 and 4.4.3).  Nothing from `beyond` is imported here; the equatorial radius and the
flattening of the ellipsoid are *arguments* (the check passes the library's Earth.r / Earth.f
read as plain numbers: they are the data the property is relative to).

Deliberately different routes from beyond/frames/stations.py and orient.py:
  * geodetic -> ECEF through the reduced (parametric) latitude beta, tan(beta) = (1-f) tan(lat):
        p = a cos(beta) + h cos(lat),  z = b sin(beta) + h sin(lat)
    (no prime-vertical radius N, no e^2);  `geodetic_to_ecef_N` is the classical N-formula,
    used only by `selfcheck()` to cross-validate the oracle against itself;
  * the local basis is written down as explicit unit vectors (east, north, up), never as a
    product of elementary rotations;
  * ECEF -> geodetic by Bowring's iteration on the reduced latitude;
  * angles with atan2 only (no asin), compass azimuth clockwise from north in [0, 2 pi).
"""

import bisect
import math

TWO_PI = 2.0 * math.pi

# Conventional mean angular velocity of the Earth (IERS / WGS-84 value used by Vallado,
# eq. 3-40 context), rad/s.  A physical constant, typed here independently.
OMEGA_EARTH = 7.292115146706979e-5


# ---------------------------------------------------------------------------------------------
# small vector helpers (plain tuples of floats, no numpy needed)
def dot(a, b):
    return a[0] * b[0] + a[1] * b[1] + a[2] * b[2]


def cross(a, b):
    return (a[1] * b[2] - a[2] * b[1], a[2] * b[0] - a[0] * b[2], a[0] * b[1] - a[1] * b[0])


def sub(a, b):
    return (a[0] - b[0], a[1] - b[1], a[2] - b[2])


def add(a, b):
    return (a[0] + b[0], a[1] + b[1], a[2] + b[2])


def scale(a, k):
    return (a[0] * k, a[1] * k, a[2] * k)


def norm(a):
    return math.sqrt(dot(a, a))


def lincomb(ca, a, cb, b, cc, c):
    return (
        ca * a[0] + cb * b[0] + cc * c[0],
        ca * a[1] + cb * b[1] + cc * c[1],
        ca * a[2] + cb * b[2] + cc * c[2],
    )


def wrap_pi(a):
    """(-pi, pi]"""
    a = math.fmod(a, TWO_PI)
    if a > math.pi:
        a -= TWO_PI
    elif a <= -math.pi:
        a += TWO_PI
    return a


def angdiff(a, b):
    return abs(wrap_pi(a - b))


# ---------------------------------------------------------------------------------------------
def geodetic_to_ecef(lat, lon, h, a, f):
    """Geodetic latitude/longitude (rad) and ellipsoidal height (m) -> ECEF (m).

    Route through the reduced latitude: the foot point on the ellipse is
    (a cos beta, b sin beta) with tan beta = (b/a) tan lat, and the height is added along the
    ellipsoid normal (cos lat, sin lat)."""
    b = a * (1.0 - f)
    beta = math.atan2((1.0 - f) * math.sin(lat), math.cos(lat))
    p = a * math.cos(beta) + h * math.cos(lat)
    z = b * math.sin(beta) + h * math.sin(lat)
    return (p * math.cos(lon), p * math.sin(lon), z)


def geodetic_to_ecef_N(lat, lon, h, a, f):
    """Classical prime-vertical formula (used for the oracle's self check only)."""
    e2 = f * (2.0 - f)
    s = math.sin(lat)
    N = a / math.sqrt(1.0 - e2 * s * s)
    return ((N + h) * math.cos(lat) * math.cos(lon), (N + h) * math.cos(lat) * math.sin(lon), (N * (1.0 - e2) + h) * s)


def ecef_to_geodetic(x, y, z, a, f, itmax=20):
    """ECEF -> (lat, lon, h) by Bowring's iteration on the reduced latitude.

    lon in (-pi, pi].  Converges to < 1e-15 rad in <= 3 iterations for |h| << a."""
    b = a * (1.0 - f)
    e2 = f * (2.0 - f)
    ep2 = e2 / (1.0 - e2)
    p = math.hypot(x, y)
    lon = math.atan2(y, x)
    beta = math.atan2(a * z, b * p)
    lat = 0.0
    for _ in range(itmax):
        sb, cb = math.sin(beta), math.cos(beta)
        new = math.atan2(z + ep2 * b * sb ** 3, p - e2 * a * cb ** 3)
        beta = math.atan2((1.0 - f) * math.sin(new), math.cos(new))
        done = abs(new - lat) < 1e-16
        lat = new
        if done:
            break
    s, c = math.sin(lat), math.cos(lat)
    N = a / math.sqrt(1.0 - e2 * s * s)
    # height: projection on the normal (well conditioned at every latitude)
    h = p * c + z * s - a * a / N
    return lat, lon, h


def enu_basis(lat, lon):
    """Unit vectors east, north, up (ellipsoid normal) of the local horizon, in ECEF axes."""
    sl, cl = math.sin(lat), math.cos(lat)
    so, co = math.sin(lon), math.cos(lon)
    east = (-so, co, 0.0)
    north = (-sl * co, -sl * so, cl)
    up = (cl * co, cl * so, sl)
    return east, north, up


class Station:
    """A point fixed to the ellipsoid: ECEF position and local basis."""

    def __init__(self, lat, lon, h, a, f):
        self.lat, self.lon, self.h, self.a, self.f = lat, lon, h, a, f
        self.ecef = geodetic_to_ecef(lat, lon, h, a, f)
        self.east, self.north, self.up = enu_basis(lat, lon)

    # ---- ECEF state of a target -> topocentric quantities -------------------------------------
    def enu(self, r):
        d = sub(r, self.ecef)
        return (dot(d, self.east), dot(d, self.north), dot(d, self.up))

    def enu_vel(self, v):
        """Velocity relative to the (Earth-fixed) station, on the local axes."""
        return (dot(v, self.east), dot(v, self.north), dot(v, self.up))

    def look(self, r, v=None):
        """dict(range, az, el, range_rate, e, n, u [, ve, vn, vu]); az clockwise from north in
        [0, 2pi), el above the horizon plane; r, v are Earth-fixed position / velocity."""
        e, n, u = self.enu(r)
        rho = math.sqrt(e * e + n * n + u * u)
        out = {
            "e": e, "n": n, "u": u,
            "range": rho,
            "az": math.atan2(e, n) % TWO_PI,
            "el": math.atan2(u, math.hypot(e, n)),
        }
        if v is not None:
            ve, vn, vu = self.enu_vel(v)
            out.update(ve=ve, vn=vn, vu=vu, range_rate=(e * ve + n * vn + u * vu) / rho)
        return out

    # ---- topocentric specification -> ECEF state ----------------------------------------------
    def target(self, az, el, rho, vel_enu=(0.0, 0.0, 0.0)):
        ce = math.cos(el)
        d = lincomb(rho * ce * math.sin(az), self.east, rho * ce * math.cos(az), self.north, rho * math.sin(el), self.up)
        r = add(self.ecef, d)
        v = lincomb(vel_enu[0], self.east, vel_enu[1], self.north, vel_enu[2], self.up)
        return r, v


def xyz_north_west_up(e, n, u):
    """The station axes of the property statement: x north, y west, z up."""
    return (n, -e, u)


def corotation_velocity(axis, r, omega):
    """Velocity omega * axis x r of a point fixed to a body rotating about `axis` (unit)."""
    return scale(cross(axis, r), omega)


def earth_rate(lod_seconds=0.0):
    """Instantaneous rotation rate of the Earth for an excess length of day (s)."""
    return OMEGA_EARTH * (1.0 - lod_seconds / 86400.0)


# ---------------------------------------------------------------------------------------------
def reduce_azimuth(az):
    """az modulo 2 pi in [0, 2 pi)  (2 pi == 0)."""
    r = math.fmod(az, TWO_PI)
    if r < 0.0:
        r += TWO_PI
    if r >= TWO_PI:  # rounding of a tiny negative remainder
        r = 0.0
    return r


def mask_value(az_table, el_table, az):
    """Piecewise-linear interpolation of a horizon mask.

    az_table strictly increasing, last entry 2 pi; the elevation given at 2 pi also serves at
    azimuth 0 (so the mask is a continuous 2 pi-periodic function).  Returns (value, slope,
    segment) where slope is d el / d az on the segment used and segment is 'wrap' for the
    piece [0, az_table[0]) and the index of the right node otherwise."""
    n = len(az_table)
    if n != len(el_table) or n < 1:
        raise ValueError("mask table shape")
    a = reduce_azimuth(az)
    xs = list(az_table)
    ys = list(el_table)
    if xs[0] > 0.0:
        xs.insert(0, 0.0)
        ys.insert(0, ys[-1])
        shifted = 1
    else:
        shifted = 0
    i = bisect.bisect_right(xs, a)  # first node strictly greater than a
    if i >= len(xs):
        i = len(xs) - 1
    if i == 0:
        i = 1
    x0, x1, y0, y1 = xs[i - 1], xs[i], ys[i - 1], ys[i]
    slope = (y1 - y0) / (x1 - x0)
    # two-sided form: exact at both nodes
    t = (a - x0) / (x1 - x0)
    val = y0 * (1.0 - t) + y1 * t
    seg = "wrap" if (shifted and i == 1) else i - shifted
    return val, slope, seg


# ---------------------------------------------------------------------------------------------
def selfcheck():
    """Cross-validation of the oracle against itself (two geodetic formulas, inverse, basis from
    finite differences of the surface, ellipsoid-normal property).  Returns the worst residuals;
    the check refuses to run (harness error) if they are not at rounding level."""
    a, f = 6378137.0, 1 / 298.257223563
    worst = {"fwd": 0.0, "inv_lat": 0.0, "inv_h": 0.0, "basis": 0.0, "normal": 0.0, "look": 0.0}
    pts = []
    for lat_deg in (-89.9, -60.0, -33.3, -1e-3, 0.0, 12.5, 45.0, 71.0, 89.9, 89.999):
        for lon_deg in (-180.0, -97.0, 0.0, 33.0, 180.0, 271.0, 360.0):
            for h in (-400.0, 0.0, 812.5, 9000.0):
                pts.append((math.radians(lat_deg), math.radians(lon_deg), h))
    b = a * (1 - f)
    for lat, lon, h in pts:
        r1 = geodetic_to_ecef(lat, lon, h, a, f)
        r2 = geodetic_to_ecef_N(lat, lon, h, a, f)
        worst["fwd"] = max(worst["fwd"], norm(sub(r1, r2)))
        la, lo, hh = ecef_to_geodetic(r1[0], r1[1], r1[2], a, f)
        worst["inv_lat"] = max(worst["inv_lat"], abs(la - lat), angdiff(lo, lon) * math.cos(lat))
        worst["inv_h"] = max(worst["inv_h"], abs(hh - h))
        east, north, up = enu_basis(lat, lon)
        # basis from finite differences of the surface point
        d = 1e-6
        dn = sub(geodetic_to_ecef(lat + d, lon, h, a, f), geodetic_to_ecef(lat - d, lon, h, a, f))
        de = sub(geodetic_to_ecef(lat, lon + d, h, a, f), geodetic_to_ecef(lat, lon - d, h, a, f))
        dn = scale(dn, 1 / norm(dn))
        de = scale(de, 1 / norm(de))
        worst["basis"] = max(worst["basis"], norm(sub(dn, north)), norm(sub(de, east)), norm(sub(cross(east, north), up)))
        # up is the gradient of x^2/a^2 + y^2/a^2 + z^2/b^2 at the foot point
        foot = geodetic_to_ecef(lat, lon, 0.0, a, f)
        g = (foot[0] / a ** 2, foot[1] / a ** 2, foot[2] / b ** 2)
        g = scale(g, 1 / norm(g))
        worst["normal"] = max(worst["normal"], norm(sub(g, up)))
        st = Station(lat, lon, h, a, f)
        for az, el, rho in ((0.3, 0.2, 1e5), (2.0, -0.4, 3e6), (4.0, 1.2, 4e7), (5.9, 1.5707, 7e5)):
            r, v = st.target(az, el, rho, (10.0, -20.0, 30.0))
            lk = st.look(r, v)
            worst["look"] = max(worst["look"], angdiff(lk["az"], az) * math.cos(el), abs(lk["el"] - el), abs(lk["range"] - rho) / rho)
    ok = (
        worst["fwd"] < 1e-8 and worst["inv_lat"] < 1e-13 and worst["inv_h"] < 1e-8
        and worst["basis"] < 1e-8 and worst["normal"] < 1e-14 and worst["look"] < 1e-12
    )
    # mask: continuity, periodicity, exactness at nodes
    xs = [0.5, 1.0, 4.0, TWO_PI]
    ys = [0.1, 0.3, -0.05, 0.2]
    m_ok = True
    for x, y in zip(xs, ys):
        m_ok &= abs(mask_value(xs, ys, x)[0] - y) < 1e-15
        m_ok &= abs(mask_value(xs, ys, x - TWO_PI)[0] - y) < 1e-14
    m_ok &= abs(mask_value(xs, ys, 0.0)[0] - 0.2) < 1e-15
    m_ok &= abs(mask_value(xs, ys, 0.25)[0] - 0.15) < 1e-15
    m_ok &= abs(mask_value(xs, ys, 0.75)[0] - 0.2) < 1e-15
    m_ok &= abs(mask_value(xs, ys, 2.5 + 4 * TWO_PI)[0] - 0.125) < 1e-13
    m_ok &= abs(mask_value(xs, ys, -1e-20)[0] - 0.2) < 1e-15
    return ok and m_ok, worst
