"""Textbook explicit Runge-Kutta stepper + point-mass acceleration (reference model of C06).

Tableaux typed from the literature, NOT copied from beyond/propagators/keplernum.py:

* Euler, classical RK4        -- Hairer, Norsett, Wanner, "Solving ODEs I", II.1
* Fehlberg 4(5) "RKF45"       -- Fehlberg, NASA TR R-315 (1969), table III (HNW I, II.4 table 4.3...)
* Dormand-Prince 5(4) "DOPRI5"-- Dormand & Prince, J. Comp. Appl. Math. 6 (1980) (HNW I, II.5 table 5.2)

All coefficients are exact rationals (fractions.Fraction); `self_check()` verifies the
row-sum condition and the order conditions (all rooted trees up to the nominal order) in exact
rational arithmetic, so a typing error in this file cannot go unnoticed.

Convention for the embedded pairs (same as the property's): the solution is advanced with the
5th-order weights `b`; `b - b_star` gives the error estimate.

Nothing from `beyond` is imported.
"""

from fractions import Fraction as F

import numpy as np


def _rows(rows):
    return [[F(x) for x in row] for row in rows]


TABLEAUX = {
    "euler": {
        "order": 1,
        "c": [F(0)],
        "a": [[]],
        "b": [F(1)],
    },
    "rk4": {
        "order": 4,
        "c": [F(0), F(1, 2), F(1, 2), F(1)],
        "a": _rows([[], [F(1, 2)], [0, F(1, 2)], [0, 0, 1]]),
        "b": [F(1, 6), F(1, 3), F(1, 3), F(1, 6)],
    },
    # Fehlberg 4(5)
    "rkf54": {
        "order": 5,
        "order_star": 4,
        "c": [F(0), F(1, 4), F(3, 8), F(12, 13), F(1), F(1, 2)],
        "a": _rows(
            [
                [],
                [F(1, 4)],
                [F(3, 32), F(9, 32)],
                [F(1932, 2197), F(-7200, 2197), F(7296, 2197)],
                [F(439, 216), -8, F(3680, 513), F(-845, 4104)],
                [F(-8, 27), 2, F(-3544, 2565), F(1859, 4104), F(-11, 40)],
            ]
        ),
        "b": [F(16, 135), F(0), F(6656, 12825), F(28561, 56430), F(-9, 50), F(2, 55)],
        "b_star": [F(25, 216), F(0), F(1408, 2565), F(2197, 4104), F(-1, 5), F(0)],
    },
    # Dormand-Prince 5(4), 7 stages (FSAL)
    "dopri54": {
        "order": 5,
        "order_star": 4,
        "c": [F(0), F(1, 5), F(3, 10), F(4, 5), F(8, 9), F(1), F(1)],
        "a": _rows(
            [
                [],
                [F(1, 5)],
                [F(3, 40), F(9, 40)],
                [F(44, 45), F(-56, 15), F(32, 9)],
                [F(19372, 6561), F(-25360, 2187), F(64448, 6561), F(-212, 729)],
                [F(9017, 3168), F(-355, 33), F(46732, 5247), F(49, 176), F(-5103, 18656)],
                [F(35, 384), 0, F(500, 1113), F(125, 192), F(-2187, 6784), F(11, 84)],
            ]
        ),
        "b": [F(35, 384), F(0), F(500, 1113), F(125, 192), F(-2187, 6784), F(11, 84), F(0)],
        "b_star": [F(5179, 57600), F(0), F(7571, 16695), F(393, 640), F(-92097, 339200), F(187, 2100), F(1, 40)],
    },
}

ORDER = {k: v["order"] for k, v in TABLEAUX.items()}
ADAPTIVE = {k for k, v in TABLEAUX.items() if "b_star" in v}
STAGES = {k: len(v["b"]) for k, v in TABLEAUX.items()}


def _full_a(tab):
    s = len(tab["b"])
    A = [[F(0)] * s for _ in range(s)]
    for i, row in enumerate(tab["a"]):
        for j, x in enumerate(row):
            A[i][j] = F(x)
    return A


def _order_residuals(A, b, c, order):
    """Exact residuals of the order conditions for all rooted trees up to `order` (<= 5)."""
    s = len(b)
    rng = range(s)

    def dot(u, v):
        return sum(x * y for x, y in zip(u, v))

    def Av(v):
        return [sum(A[i][j] * v[j] for j in rng) for i in rng]

    def mul(u, v):
        return [x * y for x, y in zip(u, v)]

    one = [F(1)] * s
    c2, c3, c4 = mul(c, c), mul(mul(c, c), c), mul(mul(c, c), mul(c, c))
    Ac, Ac2, Ac3 = Av(c), Av(c2), Av(c3)
    AAc, AAc2 = Av(Ac), Av(Ac2)
    AAAc = Av(AAc)
    conds = [(1, dot(b, one) - 1)]
    conds += [(2, dot(b, c) - F(1, 2))]
    conds += [(3, dot(b, c2) - F(1, 3)), (3, dot(b, Ac) - F(1, 6))]
    conds += [
        (4, dot(b, c3) - F(1, 4)),
        (4, dot(b, mul(c, Ac)) - F(1, 8)),
        (4, dot(b, Ac2) - F(1, 12)),
        (4, dot(b, AAc) - F(1, 24)),
    ]
    conds += [
        (5, dot(b, c4) - F(1, 5)),
        (5, dot(b, mul(c2, Ac)) - F(1, 10)),
        (5, dot(b, mul(Ac, Ac)) - F(1, 20)),
        (5, dot(b, mul(c, Ac2)) - F(1, 15)),
        (5, dot(b, Ac3) - F(1, 20)),
        (5, dot(b, mul(c, AAc)) - F(1, 30)),
        (5, dot(b, Av(mul(c, Ac))) - F(1, 40)),
        (5, dot(b, AAc2) - F(1, 60)),
        (5, dot(b, AAAc) - F(1, 120)),
    ]
    return [(p, r) for p, r in conds if p <= order]


def self_check():
    """Raise AssertionError if a typed tableau violates the row-sum or order conditions."""
    for name, tab in TABLEAUX.items():
        A = _full_a(tab)
        c, b = tab["c"], tab["b"]
        assert len(c) == len(b) == len(tab["a"]), name
        for i, row in enumerate(A):
            assert all(A[i][j] == 0 for j in range(i, len(b))), f"{name}: not explicit"
            assert sum(row) == c[i], f"{name}: row sum {i} != c"
        for p, r in _order_residuals(A, b, c, tab["order"]):
            assert r == 0, f"{name}: order-{p} condition violated by b ({r})"
        if "b_star" in tab:
            for p, r in _order_residuals(A, tab["b_star"], c, tab["order_star"]):
                assert r == 0, f"{name}: order-{p} condition violated by b_star ({r})"
            # the embedded formula must NOT be of the higher order (else no error estimate)
            assert any(r != 0 for p, r in _order_residuals(A, tab["b_star"], c, tab["order"])), name
    return True


_FLOAT = {}


def _float_tab(method):
    if method not in _FLOAT:
        tab = TABLEAUX[method]
        _FLOAT[method] = {
            "a": [np.array([float(x) for x in row]) for row in tab["a"]],
            "b": np.array([float(x) for x in tab["b"]]),
            "c": np.array([float(x) for x in tab["c"]]),
            "b_star": np.array([float(x) for x in tab["b_star"]]) if "b_star" in tab else None,
        }
    return _FLOAT[method]


def accel_point_mass(mu):
    """dy/dt for y = (r, v) around a point mass `mu` fixed at the origin."""

    def f(t, y):
        r = y[:3]
        rn = float(np.sqrt(r[0] * r[0] + r[1] * r[1] + r[2] * r[2]))
        out = np.empty(6)
        out[:3] = y[3:]
        out[3:] = -mu * r / (rn * rn * rn)
        return out

    return f


def step(method, f, t, y, h):
    """One explicit RK step of size h (any sign).

    Returns (y_next, err) ; err = h * sum((b - b_star) k) for embedded pairs, else None.
    """
    tab = _float_tab(method)
    y = np.asarray(y, float)
    ks = []
    for a_row, c in zip(tab["a"], tab["c"]):
        yi = y.copy()
        for aij, k in zip(a_row, ks):
            if aij != 0.0:
                yi = yi + h * aij * k
        ks.append(f(t + c * h, yi))
    incr = np.zeros_like(y)
    for bi, k in zip(tab["b"], ks):
        incr = incr + bi * k
    y1 = y + h * incr
    err = None
    if tab["b_star"] is not None:
        e = np.zeros_like(y)
        for bi, bs, k in zip(tab["b"], tab["b_star"], ks):
            e = e + (bi - bs) * k
        err = h * e
    return y1, err


def integrate_fixed(method, f, y0, h, nsteps):
    y = np.asarray(y0, float)
    t = 0.0
    for _ in range(nsteps):
        y, _e = step(method, f, t, y, h)
        t += h
    return y
