"""Two-body / J2-secular reference models for C05 and C06 (new file; shared oracles untouched).

* `propagate_uv`  : universal-variable propagation.  Bound orbits: oracles/kepler_uv.py itself.
  Unbound orbits: same algorithm and the same Stumpff functions, but with an overflow-safe
  bracketing (kepler_uv's first trial step sqrt(mu)|dt|/r0 overflows cosh or yields inf-inf for
  large |dt|; an overflowing F(x) is +-inf of the sign of x, F being strictly increasing).
* `propagate_elements` : second, independent route (classical elements by the vector definitions of
  oracles/elements.py, M += n dt, Kepler's equation by bisection, perifocal construction).  Used to
  cross-check the universal-variable truth, never as the judge.
* `j2_rates`, `j2_secular` : first-order secular J2 rates (Vallado 4th ed. eq. 9-37, 9-39, 9-41;
  Kaula / Brouwer first order), written with cos^2 i.

Nothing from `beyond` is imported.
"""

import decimal
import math

import numpy as np

from . import elements as el
from . import kepler_uv
from .kepler_uv import stumpff_C, stumpff_S


def _propagate_uv_safe(r0, v0, dt, mu):
    r0 = np.asarray(r0, float)
    v0 = np.asarray(v0, float)
    r0n = float(np.linalg.norm(r0))
    v0n2 = float(np.dot(v0, v0))
    vr0 = float(np.dot(r0, v0)) / r0n
    alpha = 2 / r0n - v0n2 / mu
    sq = math.sqrt(mu)

    def F(x):
        try:
            z = alpha * x * x
            return r0n * vr0 / sq * x * x * stumpff_C(z) + (1 - alpha * r0n) * x ** 3 * stumpff_S(z) + r0n * x - sq * dt
        except OverflowError:
            return math.copysign(math.inf, x)

    def dF(x):
        z = alpha * x * x
        return r0n * vr0 / sq * x * (1 - z * stumpff_S(z)) + (1 - alpha * r0n) * x * x * stumpff_C(z) + r0n

    sgn = 1.0 if dt > 0 else -1.0
    step = sq * abs(dt) / r0n if alpha <= 0 else sq * abs(alpha) * abs(dt)
    if alpha < 0:
        step = min(step, 1.0 / math.sqrt(-alpha))  # |sqrt(-z)| <= 1 at the first trial
    step = max(step, 1e-3)
    lo, hi = (0.0, step) if sgn > 0 else (-step, 0.0)
    for _ in range(400):
        if sgn > 0:
            if F(hi) >= 0:
                break
            lo, hi = hi, hi * 2
        else:
            if F(lo) <= 0:
                break
            hi, lo = lo, lo * 2
    else:  # pragma: no cover
        raise ArithmeticError("universal variable: no bracket")
    x = 0.5 * (lo + hi)
    for _ in range(300):
        fx = F(x)
        if fx > 0:
            hi = x
        else:
            lo = x
        try:
            d = dF(x)
            xn = x - fx / d if (d != 0 and math.isfinite(fx)) else 0.5 * (lo + hi)
        except OverflowError:
            xn = 0.5 * (lo + hi)
        if not (lo <= xn <= hi):
            xn = 0.5 * (lo + hi)
        if abs(xn - x) <= 4e-16 * max(1.0, abs(xn)):
            x = xn
            break
        x = xn
    z = alpha * x * x
    C, S = stumpff_C(z), stumpff_S(z)
    f = 1 - x * x / r0n * C
    g = dt - x ** 3 / sq * S
    r = f * r0 + g * v0
    rn = float(np.linalg.norm(r))
    fdot = sq / (rn * r0n) * (alpha * x ** 3 * S - x)
    gdot = 1 - x * x / rn * C
    v = fdot * r0 + gdot * v0
    # Conditioning of this formulation in double precision (returned as lengths / speeds to be multiplied
    # by eps): (i) cancellation in f r0 + g v0 -- both terms grow like cosh of the swept hyperbolic
    # anomaly; (ii) cancellation between the terms of the universal Kepler equation F(x) = 0 (incoming
    # branch: r0.v0 < 0), which shifts the root, i.e. the time, by dF/sqrt(mu).
    v0n = math.sqrt(v0n2)
    vn = float(np.linalg.norm(v))
    t1 = abs(r0n * vr0 / sq * x * x * C)
    t2 = abs((1 - alpha * r0n) * x ** 3 * S)
    t3 = abs(r0n * x)
    dt_scale = (t1 + t2 + t3 + sq * abs(dt)) / sq
    scale_r = abs(f) * r0n + abs(g) * v0n + vn * dt_scale
    scale_v = abs(fdot) * r0n + abs(gdot) * v0n + mu / (rn * rn) * dt_scale + vn * scale_r / rn  # fdot, gdot use |r|
    return r, v, scale_r, scale_v, x


_DCTX = decimal.Context(prec=60)


def _propagate_uv_decimal(r0, v0, dt, mu, x_start):
    """The same universal-variable equations in 60-digit decimal arithmetic, Newton from the double
    precision root.  The inputs are taken as the exact binary numbers they are, so the result is the
    two-body solution of exactly the given state (error ~1e-45 relative even with the cosh-sized
    cancellations of f r0 + g v0).  Returns float arrays (correctly rounded to ~1 ulp)."""
    D = decimal.Decimal
    c = _DCTX
    R0 = [D(float(x)) for x in r0]
    V0 = [D(float(x)) for x in v0]
    MU, DT = D(float(mu)), D(float(dt))

    def dot(a, b):
        return sum((c.multiply(x, y) for x, y in zip(a, b)), D(0))

    with decimal.localcontext(c):
        r0n = dot(R0, R0).sqrt()
        v0n2 = dot(V0, V0)
        vr0 = dot(R0, V0) / r0n
        alpha = 2 / r0n - v0n2 / MU
        sq = MU.sqrt()

        def CS(z):
            if abs(z) < D("1e-12"):
                return (D(1) / 2 - z / 24 + z * z / 720, D(1) / 6 - z / 120 + z * z / 5040)
            if z > 0:  # pragma: no cover  (bound orbits do not come here)
                raise ArithmeticError("decimal refinement is for unbound orbits")
            s = (-z).sqrt()
            ep, em = s.exp(), (-s).exp()
            ch, sh = (ep + em) / 2, (ep - em) / 2
            return (ch - 1) / (-z), (sh - s) / (s * s * s)

        x = D(float(x_start))
        for _ in range(80):
            z = alpha * x * x
            C, S = CS(z)
            Fx = r0n * vr0 / sq * x * x * C + (1 - alpha * r0n) * x ** 3 * S + r0n * x - sq * DT
            dFx = r0n * vr0 / sq * x * (1 - z * S) + (1 - alpha * r0n) * x * x * C + r0n
            dx = Fx / dFx
            x = x - dx
            if abs(dx) <= D("1e-45") * max(D(1), abs(x)):
                break
        else:  # pragma: no cover
            raise ArithmeticError("decimal universal variable: Newton did not converge")
        z = alpha * x * x
        C, S = CS(z)
        f = 1 - x * x / r0n * C
        g = DT - x ** 3 / sq * S
        R = [f * a + g * b for a, b in zip(R0, V0)]
        rn = dot(R, R).sqrt()
        fdot = sq / (rn * r0n) * (alpha * x ** 3 * S - x)
        gdot = 1 - x * x / rn * C
        V = [fdot * a + gdot * b for a, b in zip(R0, V0)]
        return np.array([float(t) for t in R]), np.array([float(t) for t in V])


def propagate_uv(r0, v0, dt, mu, refine=True):
    """(r, v, solver, scale_r, scale_v) after dt seconds of two-body motion.  eps*scale_r [m] and
    eps*scale_v [m/s] estimate the rounding error of a *double precision* evaluation of the
    unbound-orbit equations (cancellation in f r0 + g v0 and in the universal Kepler equation;
    measured: actual error <= 10 eps*scale); 0.0 for bound orbits (well conditioned, |dt| < T).
    With `refine` (default) the returned unbound-orbit state comes from the same equations re-solved
    in 60-digit decimal arithmetic (the scales then describe kepler_uv.propagate, not the result).

    Bound orbits: oracles/kepler_uv.propagate as is.  Unbound orbits: kepler_uv's bracketing is not
    usable (its first trial step sqrt(mu)|dt|/r0 makes cosh overflow or F = inf - inf = NaN, after
    which it returns finite garbage -- measured), so the overflow-safe bracketing of this module is
    used with the same equations and the same Stumpff functions.
    """
    r0 = np.asarray(r0, float)
    v0 = np.asarray(v0, float)
    alpha = 2 / float(np.linalg.norm(r0)) - float(np.dot(v0, v0)) / mu
    if alpha > 0:
        r, v = kepler_uv.propagate(r0, v0, dt, mu)
        return r, v, "kepler_uv", 0.0, 0.0
    if dt == 0:
        return r0.copy(), v0.copy(), "safe-bracket", 0.0, 0.0
    r, v, scale_r, scale_v, x = _propagate_uv_safe(r0, v0, dt, mu)
    if refine:
        r, v = _propagate_uv_decimal(r0, v0, dt, mu, x)
        return r, v, "safe-bracket+decimal", scale_r, scale_v
    return r, v, "safe-bracket", scale_r, scale_v


def anomaly_from_M(e, M):
    """Eccentric (e<1, in [0, 2pi)) or hyperbolic anomaly from the mean anomaly, by bisection on
    Kepler's equation (robust, slow; never Newton)."""
    if e < 1:
        M = M % el.TWO_PI
        lo, hi = 0.0, el.TWO_PI
        for _ in range(200):
            mid = 0.5 * (lo + hi)
            if mid - e * math.sin(mid) < M:
                lo = mid
            else:
                hi = mid
        return 0.5 * (lo + hi)
    lo, hi = -1.0, 1.0
    while e * math.sinh(lo) - lo > M:
        lo *= 2
    while e * math.sinh(hi) - hi < M:
        hi *= 2
    for _ in range(200):
        mid = 0.5 * (lo + hi)
        if e * math.sinh(mid) - mid < M:
            lo = mid
        else:
            hi = mid
    return 0.5 * (lo + hi)


def rot313(raan, i, argp):
    cO, sO, cw, sw, ci, si = math.cos(raan), math.sin(raan), math.cos(argp), math.sin(argp), math.cos(i), math.sin(i)
    return np.array(
        [
            [cO * cw - sO * sw * ci, -cO * sw - sO * cw * ci, sO * si],
            [sO * cw + cO * sw * ci, -sO * sw + cO * cw * ci, -cO * si],
            [sw * si, cw * si, ci],
        ]
    )


def cart_from_anomaly(a, e, i, raan, argp, E, mu):
    """Cartesian state from the eccentric / hyperbolic anomaly through the perifocal coordinates
    x = a(cos E - e), y = a sqrt(1-e^2) sin E  (hyperbola: x = |a|(e - cosh H), y = |a| sqrt(e^2-1) sinh H).
    Unlike the route through the true anomaly (r = p / (1 + e cos nu)) this has no cancellation far
    out on a hyperbola."""
    if e < 1:
        b = a * math.sqrt(1 - e * e)
        r = a * (1 - e * math.cos(E))
        k = math.sqrt(mu * a) / r
        rp = np.array([a * (math.cos(E) - e), b * math.sin(E), 0.0])
        vp = np.array([-k * math.sin(E), k * math.sqrt(1 - e * e) * math.cos(E), 0.0])
    else:
        aa = abs(a)
        b = aa * math.sqrt(e * e - 1)
        r = aa * (e * math.cosh(E) - 1)
        k = math.sqrt(mu * aa) / r
        rp = np.array([aa * (e - math.cosh(E)), b * math.sinh(E), 0.0])
        vp = np.array([-k * math.sinh(E), k * math.sqrt(e * e - 1) * math.cosh(E), 0.0])
    R = rot313(raan, i, argp)
    return R @ rp, R @ vp


def propagate_elements(r0, v0, dt, mu):
    """Independent second route: elements -> M + n dt -> bisection -> cartesian."""
    c = el.classical(r0, v0, mu)
    M1 = c["M"] + c["n"] * dt
    return cart_from_anomaly(c["a"], c["e"], c["i"], c["raan"], c["argp"], anomaly_from_M(c["e"], M1), mu)


def j2_rates(a, e, i, mu, j2, re):
    """First-order secular rates (rad/s) of node, perigee and mean anomaly (the latter
    *including* the unperturbed mean motion)."""
    n = math.sqrt(mu / a ** 3)
    p = a * (1 - e * e)
    k = n * j2 * (re / p) ** 2
    ci2 = math.cos(i) ** 2
    raan_dot = -1.5 * k * math.cos(i)
    argp_dot = 0.75 * k * (5 * ci2 - 1)
    m_dot = n + 0.75 * k * math.sqrt(1 - e * e) * (3 * ci2 - 1)
    return raan_dot, argp_dot, m_dot


def j2_secular(a, e, i, raan, argp, M, dt, mu, j2, re):
    """Elements after dt under the secular model and the corresponding cartesian state."""
    rd, wd, md = j2_rates(a, e, i, mu, j2, re)
    raan1 = raan + rd * dt
    argp1 = argp + wd * dt
    M1 = M + md * dt
    r, v = cart_from_anomaly(a, e, i, raan1, argp1, anomaly_from_M(e, M1), mu)
    return dict(raan=raan1, argp=argp1, M=M1, raan_dot=rd, argp_dot=wd, m_dot=md), r, v


def form_to_cartesian(form, vals, mu, hyperbolic_M_exact=True):
    """(r, v) represented by six numbers given in `form` (inverse of elements.form_values, written
    from the same textbook definitions).  The truth of a propagation must start from the state the
    given numbers *represent*: some forms are ill-conditioned views (spherical near the pole:
    tan(phi); small e; small sin i), so the numbers obtained by rounding a conversion of some
    cartesian state represent a slightly different state (measured: 3e-14 relative in velocity at
    phi = 87 deg, i.e. 3 cm along track after one revolution at 0.17 au)."""
    x = [float(t) for t in vals]
    if form == "cartesian":
        return np.array(x[:3]), np.array(x[3:])
    if form == "spherical":
        r, th, ph, rd, thd, phd = x
        cth, sth, cph, sph = math.cos(th), math.sin(th), math.cos(ph), math.sin(ph)
        er = np.array([cph * cth, cph * sth, sph])
        eth = np.array([-sth, cth, 0.0])
        eph = np.array([-sph * cth, -sph * sth, cph])
        return r * er, rd * er + r * cph * thd * eth + r * phd * eph
    if form == "cylindrical":
        rho, th, z, rhod, thd, vz = x
        cth, sth = math.cos(th), math.sin(th)
        erho = np.array([cth, sth, 0.0])
        eth = np.array([-sth, cth, 0.0])
        return rho * erho + np.array([0.0, 0.0, z]), rhod * erho + rho * thd * eth + np.array([0.0, 0.0, vz])

    if form == "keplerian":
        a, e, i, O, w, nu = x
    elif form == "keplerian_eccentric":
        a, e, i, O, w, E = x
        return cart_from_anomaly(a, e, i, O, w, E, mu)
    elif form == "keplerian_mean":
        a, e, i, O, w, M = x
        return cart_from_anomaly(a, e, i, O, w, anomaly_from_M(e, M), mu)
    elif form == "tle":
        i, O, e, w, M, n = x
        a = (mu / (n * n)) ** (1.0 / 3.0)
        return cart_from_anomaly(a, e, i, O, w, anomaly_from_M(e, M), mu)
    elif form in ("keplerian_circular", "keplerian_mean_circular"):
        a, ex, ey, i, O, ang = x
        e = math.hypot(ex, ey)
        w = math.atan2(ey, ex)
        if form == "keplerian_mean_circular":
            return cart_from_anomaly(a, e, i, O, w, anomaly_from_M(e, ang - w), mu)
        nu = ang - w
    elif form == "equinoctial":
        a, ex, ey, ix, iy, l = x
        e = math.hypot(ex, ey)
        O = math.atan2(iy, ix)
        w = math.atan2(ey, ex) - O
        i = 2 * math.atan(math.hypot(ix, iy))
        nu = l - O - w
    else:
        raise ValueError(form)
    return el.kep2cart(a, e, i, O, w, nu, mu)
