"""Independent Earth-rotation reference model (IAU-76/FK5 + IAU-1980 + the IERS-2010 angle part).

Written from the definitions (IERS Conventions 1996 ch. 5, IERS Conventions 2010 ch. 5, Aoki et al.
1982, Lieske et al. 1977, Seidelmann 1982), NOT from beyond/frames/iau1980.py, iau2010.py or
utils/matrix.py.  Nothing from `beyond` is imported.

Conventions of THIS module (deliberately opposite to the library's `rot1/rot2/rot3`):
  * elementary matrices are ACTIVE rotations: ax(t), ay(t), az(t) rotate a *vector* counter-clockwise
    by t about x, y, z (right-hand rule).  A change of axes ("passive" R_k(t) of the literature, i.e.
    coordinates of a fixed vector in axes turned by +t about k) is a_k(-t) = a_k(t)^T.
  * all angles in radians, all time arguments as (integer MJD day, seconds of day) pairs so that no
    Julian date is ever formed in one float (a float JD has a 40 microsecond ulp).
  * every `X_to_Y(...)` function returns the 3x3 matrix M with  r_Y = M @ r_X.

Contents
  time:        tt_centuries, ut1_days
  angles:      era, gmst82, mean_obliquity, precession_angles, delaunay_1980, nutation_1980,
               equation_of_equinoxes, s_prime
  matrices:    mod_to_eme2000, tod_to_mod, pef_to_tod, teme_to_tod, itrf_to_pef, itrf_to_tirf,
               tirf_to_cirf, b1950_to_j2000_iau76
  helpers:     rot_angle, rot_vector, is_rotation, geodetic_to_ecef
  EOP lookup:  EopSource (real tables through vmon.oracles.timescales / forced constant record)
"""

import math

import numpy as np

TWO_PI = 2.0 * math.pi
ARCSEC = math.pi / (180.0 * 3600.0)
MJD_J2000 = 51544.5  # 2000-01-01T12:00
TT_MINUS_TAI = 32.184

# IERS Conventions 2010, eq. 5.15: ERA(Tu) = 2 pi (0.7790572732640 + 1.00273781191135448 Tu)
ERA_0 = 0.7790572732640
ERA_RATE_REV_PER_DAY = 1.00273781191135448
# mean angular velocity of the Earth implied by the ERA rate [rad / SI second of a UT1 day of 86400 s]
OMEGA_EARTH = TWO_PI * ERA_RATE_REV_PER_DAY / 86400.0  # = 7.2921151467064e-5

# date from which the two "kinematic" terms of the equation of the equinoxes are applied
# (IAU 1994 resolution C7, in force since 1997-02-27 = MJD 50506)
MJD_EQEQ_1994 = 50506


# ------------------------------------------------------------------------------ elementary rotations
def ax(t):
    c, s = math.cos(t), math.sin(t)
    return np.array([[1.0, 0.0, 0.0], [0.0, c, -s], [0.0, s, c]])


def ay(t):
    c, s = math.cos(t), math.sin(t)
    return np.array([[c, 0.0, s], [0.0, 1.0, 0.0], [-s, 0.0, c]])


def az(t):
    c, s = math.cos(t), math.sin(t)
    return np.array([[c, -s, 0.0], [s, c, 0.0], [0.0, 0.0, 1.0]])


def skew(w):
    return np.array([[0.0, -w[2], w[1]], [w[2], 0.0, -w[0]], [-w[1], w[0], 0.0]])


# ------------------------------------------------------------------------------ time arguments
def tt_centuries(mjd_day, sec_tt):
    """Julian centuries of TT since J2000.0 (sec_tt may be outside [0, 86400))."""
    return ((mjd_day - 51544) + (sec_tt / 86400.0 - 0.5)) / 36525.0


def ut1_days(mjd_day, sec_ut1):
    """(integer part, fractional part) of Tu = JD(UT1) - 2451545.0; Tu = int + frac."""
    return (mjd_day - 51544), (sec_ut1 / 86400.0 - 0.5)


# ------------------------------------------------------------------------------ angles
def era(mjd_day, sec_ut1):
    """Earth rotation angle (IERS 2010 eq. 5.15), in [0, 2pi)."""
    ti, tf = ut1_days(mjd_day, sec_ut1)
    tu = ti + tf
    # 1.0027...*Tu = Tu + 0.0027...*Tu ; the integer days of Tu drop out of the fraction
    f = ERA_0 + 0.00273781191135448 * tu + tf
    return TWO_PI * (f % 1.0)


def gmst82(mjd_day, sec_ut1):
    """Greenwich mean sidereal time, IAU 1982 (Aoki et al.), any UT1 instant, in [0, 2pi).

    GMST[s] = 67310.54841 + (876600 h + 8640184.812866) T + 0.093104 T^2 - 6.2e-6 T^3,  T = Tu/36525.
    876600 h per century = exactly 86400 s per day of Tu: only the day fraction of Tu survives mod 86400.
    """
    ti, tf = ut1_days(mjd_day, sec_ut1)
    T = (ti + tf) / 36525.0
    sec = 67310.54841 + 86400.0 * tf + 8640184.812866 * T + 0.093104 * T * T - 6.2e-6 * T ** 3
    return TWO_PI * ((sec / 86400.0) % 1.0)


def mean_obliquity(T):
    """IAU 1980 mean obliquity of the ecliptic (Lieske 1977), radians; T = TT centuries."""
    return (84381.448 - 46.8150 * T - 0.00059 * T * T + 0.001813 * T ** 3) * ARCSEC


def precession_angles(T):
    """IAU 1976 precession (Lieske et al. 1977) from J2000.0 to date: zeta_A, theta_A, z_A [rad]."""
    zeta = (2306.2181 * T + 0.30188 * T * T + 0.017998 * T ** 3) * ARCSEC
    theta = (2004.3109 * T - 0.42665 * T * T - 0.041833 * T ** 3) * ARCSEC
    z = (2306.2181 * T + 1.09468 * T * T + 0.018203 * T ** 3) * ARCSEC
    return zeta, theta, z


def delaunay_1980(T):
    """l, l', F, D, Omega of the IAU 1980 theory (IERS 1996 ch. 5, arcsecond form), radians."""
    rev = 1296000.0
    l = 485866.733 + (1325 * rev + 715922.633) * T + 31.310 * T * T + 0.064 * T ** 3
    lp = 1287099.804 + (99 * rev + 1292581.224) * T - 0.577 * T * T - 0.012 * T ** 3
    F = 335778.877 + (1342 * rev + 295263.137) * T - 13.257 * T * T + 0.011 * T ** 3
    D = 1072261.307 + (1236 * rev + 1105601.328) * T - 6.891 * T * T + 0.019 * T ** 3
    Om = 450160.280 - (5 * rev + 482890.539) * T + 7.455 * T * T + 0.008 * T ** 3
    return tuple((x % rev) * ARCSEC for x in (l, lp, F, D, Om))


# The 20 largest terms of the IAU 1980 nutation series (Seidelmann 1982 / IERS 1996 table 5.1), typed here.
# multipliers of (l, l', F, D, Om);  longitude A + A' T,  obliquity B + B' T,  unit 0.1 mas.
NUT80_TERMS = (
    ((0, 0, 0, 0, 1), -171996.0, -174.2, 92025.0, 8.9),
    ((0, 0, 2, -2, 2), -13187.0, -1.6, 5736.0, -3.1),
    ((0, 0, 2, 0, 2), -2274.0, -0.2, 977.0, -0.5),
    ((0, 0, 0, 0, 2), 2062.0, 0.2, -895.0, 0.5),
    ((0, 1, 0, 0, 0), 1426.0, -3.4, 54.0, -0.1),
    ((1, 0, 0, 0, 0), 712.0, 0.1, -7.0, 0.0),
    ((0, 1, 2, -2, 2), -517.0, 1.2, 224.0, -0.6),
    ((0, 0, 2, 0, 1), -386.0, -0.4, 200.0, 0.0),
    ((1, 0, 2, 0, 2), -301.0, 0.0, 129.0, -0.1),
    ((0, -1, 2, -2, 2), 217.0, -0.5, -95.0, 0.3),
    ((1, 0, 0, -2, 0), -158.0, 0.0, -1.0, 0.0),
    ((0, 0, 2, -2, 1), 129.0, 0.1, -70.0, 0.0),
    ((-1, 0, 2, 0, 2), 123.0, 0.0, -53.0, 0.0),
    ((1, 0, 0, 0, 1), 63.0, 0.1, -33.0, 0.0),
    ((0, 0, 0, 2, 0), 63.0, 0.0, -2.0, 0.0),
    ((-1, 0, 2, 2, 2), -59.0, 0.0, 26.0, 0.0),
    ((-1, 0, 0, 0, 1), -58.0, -0.1, 32.0, 0.0),
    ((1, 0, 2, 0, 1), -51.0, 0.0, 27.0, 0.0),
    ((2, 0, 0, -2, 0), 48.0, 0.0, 1.0, 0.0),
    ((-2, 0, 2, 0, 1), 46.0, 0.0, -24.0, 0.0),
)
# Hard bound of what the 20-term truncation omits for |T| <= 0.6 century (1940..2060): sum over the other 86 terms
# of |A| + 0.6 |A'| and |B| + 0.6 |B'| (computed once from the published table): 0.04921" and 0.01510".
NUT80_TRUNC_DPSI = 0.0493 * ARCSEC
NUT80_TRUNC_DEPS = 0.0152 * ARCSEC
# what a series cut after the first 4 terms omits w.r.t. the full series, |T| <= 0.6 (0.48527", 0.11297")
NUT80_TRUNC4_DPSI = 0.486 * ARCSEC


def nutation_1980(T, terms=NUT80_TERMS):
    """(dpsi, deps) in radians; `terms` rows = ((n1..n5), A, A', B, B') in 0.1 mas."""
    args = delaunay_1980(T)
    dpsi = 0.0
    deps = 0.0
    for mult, A, Ap, B, Bp in terms:
        arg = sum(m * a for m, a in zip(mult, args))
        dpsi += (A + Ap * T) * math.sin(arg)
        deps += (B + Bp * T) * math.cos(arg)
    return dpsi * 1e-4 * ARCSEC, deps * 1e-4 * ARCSEC


def read_nut80_table(path):
    """Rows of the published 106-term table *as data* (5 integer multipliers, period, A, A', B, B')."""
    rows = []
    with open(path, encoding="utf-8") as fp:
        for line in fp:
            line = line.strip()
            if not line or line.startswith("#"):
                continue
            f = line.split()
            if len(f) < 10:
                continue
            rows.append((tuple(int(x) for x in f[:5]), float(f[6]), float(f[7]), float(f[8]), float(f[9])))
    return tuple(rows)


def equation_of_equinoxes(T, dpsi, mjd_day=None, kinematic=True):
    """dpsi cos(eps_mean) [+ 0.00264" sin Om + 0.000063" sin 2 Om from MJD 50506 on]."""
    ee = dpsi * math.cos(mean_obliquity(T))
    if kinematic and mjd_day is not None and mjd_day >= MJD_EQEQ_1994:
        Om = delaunay_1980(T)[4]
        ee += (0.00264 * math.sin(Om) + 0.000063 * math.sin(2 * Om)) * ARCSEC
    return ee


def s_prime(T):
    """TIO locator, IERS 2010 eq. 5.13: -47 micro-arcsec per century."""
    return -47e-6 * T * ARCSEC


# ------------------------------------------------------------------------------ matrices  r_Y = M r_X
def mod_to_eme2000(T):
    """IAU-76 precession.  r_mod = R3(-z) R2(theta) R3(-zeta) r_J2000 (passive), hence
    r_J2000 = R3(zeta) R2(-theta) R3(z) r_mod = az(-zeta) ay(theta) az(-z) r_mod."""
    zeta, theta, z = precession_angles(T)
    return az(-zeta) @ ay(theta) @ az(-z)


def tod_to_mod(T, dpsi, deps):
    """IAU-1980 nutation.  r_tod = R1(-eps) R3(-dpsi) R1(eps_mean) r_mod (passive), hence
    r_mod = R1(-eps_mean) R3(dpsi) R1(eps) r_tod = ax(eps_mean) az(-dpsi) ax(-eps) r_tod."""
    em = mean_obliquity(T)
    return ax(em) @ az(-dpsi) @ ax(-(em + deps))


def pef_to_tod(gast):
    """The Earth-fixed axes are ahead of the equinox by GAST: r_tod = az(+gast) r_pef."""
    return az(gast)


def teme_to_tod(eqeq):
    """TEME x-axis = mean equinox on the true equator, i.e. eqeq ahead of... r_tod = az(+eqeq) r_teme."""
    return az(eqeq)


def itrf_to_pef(xp, yp):
    """Polar motion, IERS 1996 / Vallado: r_pef = R1(yp) R2(xp) r_itrf (passive) = ax(-yp) ay(-xp)."""
    return ax(-yp) @ ay(-xp)


def itrf_to_tirf(xp, yp, sp):
    """IERS 2010 eq. 5.3: W = R3(-s') R2(xp) R1(yp) (passive) = az(s') ay(-xp) ax(-yp)."""
    return az(sp) @ ay(-xp) @ ax(-yp)


def tirf_to_cirf(theta):
    """IERS 2010 eq. 5.5: R = R3(-ERA) (passive) = az(+ERA)."""
    return az(theta)


def b1950_to_j2000_iau76():
    """IAU-76 precession matrix from the Besselian epoch B1950.0 (JD 2433282.42345905) to J2000.0."""
    T = (2433282.42345905 - 2451545.0) / 36525.0
    return mod_to_eme2000(T)


# ------------------------------------------------------------------------------ helpers
def rot_vector(M):
    """Rotation vector (axis * angle) of a near-identity or general rotation matrix (angle < pi)."""
    w = 0.5 * np.array([M[2, 1] - M[1, 2], M[0, 2] - M[2, 0], M[1, 0] - M[0, 1]])
    s = float(np.linalg.norm(w))
    c = 0.5 * (float(np.trace(M)) - 1.0)
    ang = math.atan2(s, c)
    if s < 1e-300:
        return np.zeros(3)
    return w * (ang / s)


def rot_angle(A, B=None):
    """Angle of the rotation A B^T (or of A), accurate for tiny angles (uses the antisymmetric part)."""
    M = A if B is None else A @ B.T
    return float(np.linalg.norm(rot_vector(M)))


def orthonormality_defect(R):
    return float(np.max(np.abs(R.T @ R - np.eye(3))))


def geodetic_to_ecef(lat, lon, alt, a, f):
    """Geodetic latitude/longitude [rad], height [m] on the ellipsoid (a, flattening f) -> ECEF [m]."""
    e2 = f * (2.0 - f)
    N = a / math.sqrt(1.0 - e2 * math.sin(lat) ** 2)
    return np.array(
        [(N + alt) * math.cos(lat) * math.cos(lon), (N + alt) * math.cos(lat) * math.sin(lon), (N * (1.0 - e2) + alt) * math.sin(lat)]
    )


# ------------------------------------------------------------------------------ EOP lookup
ZERO_EOP = dict(x=0.0, y=0.0, ut1_utc=0.0, lod=0.0, dpsi=0.0, deps=0.0, dx=0.0, dy=0.0, tai_utc=0.0)


class EopSource:
    """Earth-orientation record in force at a UTC instant.

    mode 'real'  : the IERS tables, read by the independent column parser of vmon.oracles.timescales;
                   the record of the UTC *day* (no interpolation: the library documents its
                   SimpleEopDatabase as "without caching nor interpolation"); outside the tables or
                   with mode 'zero' every value is 0 (the documented `missing_policy: pass` behaviour).
    mode 'const' : one forced record (dict) for every date.
    """

    def __init__(self, mode, folder=None, const=None):
        self.mode = mode
        self.const = dict(const) if const else None
        self.tables = None
        if mode == "real":
            from .timescales import Tables

            self.tables = Tables(folder)

    def covered(self, mjd_day):
        if self.mode != "real":
            return self.mode == "const"
        return self.tables.f1980.get(int(mjd_day)) is not None and self.tables.f2000.get(int(mjd_day)) is not None

    def record(self, mjd_day):
        """dict(x,y [arcsec], ut1_utc [s], lod [ms] or None, dx,dy,dpsi,deps [mas] or None, tai_utc [s])."""
        if self.mode == "const":
            return dict(self.const)
        if self.mode == "real":
            rec = self.tables.record(int(mjd_day))
            if rec is not None:
                return rec
        return dict(ZERO_EOP)

    def near_leap(self, mjd_day, sec, window_s):
        if self.tables is None:
            return False
        return self.tables.near_leap(mjd_day + sec / 86400.0, window_s)


class Instant:
    """A UTC instant (integer MJD day + seconds) with the independent TT / UT1 readings and EOP record."""

    def __init__(self, mjd_day, sec_utc, eop):
        self.day = int(mjd_day)
        self.sec = float(sec_utc)
        self.eop = eop
        self.sec_tt = self.sec + eop["tai_utc"] + TT_MINUS_TAI
        self.sec_ut1 = self.sec + eop["ut1_utc"]
        self.T = tt_centuries(self.day, self.sec_tt)
        self.xp = eop["x"] * ARCSEC
        self.yp = eop["y"] * ARCSEC

    # angles
    def era(self):
        return era(self.day, self.sec_ut1)

    def gmst(self):
        return gmst82(self.day, self.sec_ut1)

    def nutation(self, terms=NUT80_TERMS):
        return nutation_1980(self.T, terms)

    def gast(self, terms=NUT80_TERMS):
        dpsi, _ = self.nutation(terms)
        return self.gmst() + equation_of_equinoxes(self.T, dpsi, self.day, kinematic=True)

    def omega(self):
        """Rotation rate of the Earth-fixed axes [rad/s]; None when LOD is blank in the table."""
        if self.eop["lod"] is None:
            return None
        return OMEGA_EARTH * (1.0 - self.eop["lod"] * 1e-3 / 86400.0)

    # matrices
    def M_mod_eme(self):
        return mod_to_eme2000(self.T)

    def M_tod_mod(self, terms=NUT80_TERMS):
        dpsi, deps = self.nutation(terms)
        return tod_to_mod(self.T, dpsi, deps)

    def M_pef_tod(self, terms=NUT80_TERMS):
        return pef_to_tod(self.gast(terms))

    def M_teme_tod(self, terms=NUT80_TERMS):
        dpsi, _ = self.nutation(terms)
        return teme_to_tod(equation_of_equinoxes(self.T, dpsi, kinematic=False))

    def M_itrf_pef(self):
        return itrf_to_pef(self.xp, self.yp)

    def M_itrf_tirf(self):
        return itrf_to_tirf(self.xp, self.yp, s_prime(self.T))

    def M_tirf_cirf(self):
        return tirf_to_cirf(self.era())

    def M_itrf_eme_1980(self, terms=NUT80_TERMS):
        return self.M_mod_eme() @ self.M_tod_mod(terms) @ self.M_pef_tod(terms) @ self.M_itrf_pef()
