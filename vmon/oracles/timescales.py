"""Independent readers of the IERS tables and the fixed time-scale offsets.

Column positions are those of the IERS `readme.finals` / `readme.finals2000A`
(1-based, inclusive):  8-15 MJD | 19-27 PM-x ["] | 38-46 PM-y ["] | 59-68 UT1-UTC [s] |
80-86 LOD [ms] | 98-106 dPsi or dX [mas] | 117-125 dEps or dY [mas].
tai-utc.dat: "=JD <jd>  TAI-UTC= <s> S + (MJD - <ref>) X <rate> S".

Nothing from `beyond` is imported.
"""

import math
import re
from pathlib import Path

TT_MINUS_TAI = 32.184
TAI_MINUS_GPS = 19.0


def _f(line, a, b):
    """1-based inclusive columns -> float or None."""
    s = line[a - 1 : b].strip()
    if not s:
        return None
    try:
        return float(s)
    except ValueError:
        return None


def parse_finals(path):
    """mjd(int) -> dict(x, y, ut1_utc, lod, d1, d2)  (d1,d2 = dPsi,dEps or dX,dY); None where blank."""
    out = {}
    for line in Path(path).read_text(encoding="ascii").splitlines():
        line = line.rstrip("\n")
        mjd = _f(line, 8, 15)
        if mjd is None:
            continue
        rec = dict(
            x=_f(line, 19, 27), y=_f(line, 38, 46), ut1_utc=_f(line, 59, 68), lod=_f(line, 80, 86),
            d1=_f(line, 98, 106), d2=_f(line, 117, 125),
        )
        if rec["x"] is None or rec["y"] is None or rec["ut1_utc"] is None:
            continue
        out[int(mjd)] = rec
    return out


def parse_tai_utc(path):
    """list of (mjd_start(float), tai_utc_at_start, ref_mjd, rate) in file order."""
    out = []
    rx = re.compile(r"=JD\s+([0-9.]+)\s+TAI-UTC=\s*([0-9.]+)\s+S\s*\+\s*\(MJD\s*-\s*([0-9.]+)\)\s*X\s*([0-9.]+)")
    for line in Path(path).read_text(encoding="ascii").splitlines():
        m = rx.search(line)
        if m:
            jd, val, ref, rate = (float(g) for g in m.groups())
            out.append((jd - 2400000.5, val, ref, rate))
    return out


class Tables:
    def __init__(self, folder):
        folder = Path(folder)
        self.f1980 = parse_finals(folder / "finals.all")
        self.f2000 = parse_finals(folder / "finals2000A.all")
        self.leaps = parse_tai_utc(folder / "tai-utc.dat")
        self.mjd_min = min(self.f1980)
        self.mjd_max = max(self.f1980)

    def tai_utc(self, mjd_utc):
        """TAI-UTC in force at a UTC MJD (post-1972: constant steps)."""
        val = None
        for start, v, ref, rate in self.leaps:
            if start <= mjd_utc:
                val = v + (mjd_utc - ref) * rate
        return val

    def leap_mjds(self):
        return [int(s) for s, v, ref, rate in self.leaps if rate == 0.0]

    def near_leap(self, mjd_utc, window_s=120.0):
        """within `window_s` of a leap-second insertion (UTC midnight starting a new TAI-UTC)?"""
        for start in self.leap_mjds():
            if abs(mjd_utc - start) * 86400.0 <= window_s:
                return True
        return False

    def record(self, mjd_utc_day):
        a = self.f1980.get(int(mjd_utc_day))
        b = self.f2000.get(int(mjd_utc_day))
        if a is None or b is None:
            return None
        return dict(x=a["x"], y=a["y"], ut1_utc=a["ut1_utc"], lod=a["lod"], dpsi=a["d1"], deps=a["d2"], dx=b["d1"], dy=b["d2"],
                    tai_utc=self.tai_utc(int(mjd_utc_day)))


def tdb_minus_tt(jd_tt):
    """Astronomical Almanac: TDB-TT = 0.001657 sin g + 0.000022 sin(L - L_J) seconds,
    g = 357.53 + 0.98560028 d,  L - L_J = 246.11 + 0.90251792 d,  d = JD - 2451545.0."""
    d = jd_tt - 2451545.0
    g = math.radians(357.53 + 0.98560028 * d)
    l = math.radians(246.11 + 0.90251792 * d)
    return 0.001657 * math.sin(g) + 0.000022 * math.sin(l)


SCALES = ["UTC", "TAI", "TT", "GPS", "UT1", "TDB"]
ATOMIC = {"UTC", "TAI", "TT", "GPS"}


def offset_from_utc(scale, mjd_utc, tables, ut1_utc=None, tai_utc=None):
    """(scale - UTC) in seconds for an instant given by its UTC MJD (float).

    ut1_utc / tai_utc may be forced (zero-EOP configuration)."""
    day = math.floor(mjd_utc)
    if tai_utc is None:
        tai_utc = tables.tai_utc(day)
    if ut1_utc is None:
        ut1_utc = tables.f1980[day]["ut1_utc"]
    if scale == "UTC":
        return 0.0
    if scale == "TAI":
        return tai_utc
    if scale == "TT":
        return tai_utc + TT_MINUS_TAI
    if scale == "GPS":
        return tai_utc - TAI_MINUS_GPS
    if scale == "UT1":
        return ut1_utc
    if scale == "TDB":
        tt = tai_utc + TT_MINUS_TAI
        jd_tt = mjd_utc + 2400000.5 + tt / 86400.0
        return tt + tdb_minus_tt(jd_tt)
    raise ValueError(scale)
