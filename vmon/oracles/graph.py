"""Graph reference model for the routing property: BFS distances, enumeration of unlabelled
tree shapes, insertion orders and orientations, connected labelled graphs.  Nothing from
`beyond` is imported.
"""

import itertools
from collections import deque


def bfs_dist(adj, src):
    dist = {src: 0}
    q = deque([src])
    while q:
        n = q.popleft()
        for m in adj.get(n, ()):
            if m not in dist:
                dist[m] = dist[n] + 1
                q.append(m)
    return dist


def all_dist(adj, nodes):
    return {n: bfs_dist(adj, n) for n in nodes}


def adjacency(edges):
    adj = {}
    for a, b in edges:
        adj.setdefault(a, set()).add(b)
        adj.setdefault(b, set()).add(a)
    return adj


# ---- unlabelled trees -------------------------------------------------------------------------
def _canon_rooted(adj, root, parent=None):
    return "(" + "".join(sorted(_canon_rooted(adj, c, root) for c in adj[root] if c != parent)) + ")"


def canon_tree(edges, n):
    """Canonical form of a free tree: minimum over roots at the centre(s)."""
    if n == 1:
        return "()"
    adj = adjacency(edges)
    # centres by leaf stripping
    deg = {v: len(adj[v]) for v in adj}
    leaves = [v for v in adj if deg[v] == 1]
    remaining = n
    while remaining > 2:
        remaining -= len(leaves)
        new = []
        for l in leaves:
            for m in adj[l]:
                deg[m] -= 1
                if deg[m] == 1:
                    new.append(m)
            deg[l] = 0
        leaves = new
    return min(_canon_rooted(adj, c) for c in leaves)


def tree_shapes(n):
    """One labelled representative (edge list on 0..n-1) per unlabelled tree shape with n nodes.
    Generated from parent sequences (node k attached to a parent < k), deduplicated by canonical form.
    Counts: 1,1,1,2,3,6,11,23,47 for n = 1..9."""
    if n == 1:
        return [[]]
    seen, out = set(), []
    for parents in itertools.product(*[range(k) for k in range(1, n)]):
        edges = [(p, k + 1) for k, p in enumerate(parents)]
        c = canon_tree(edges, n)
        if c not in seen:
            seen.add(c)
            out.append(edges)
    return out


def histories(edges):
    """All insertion orders x orientations of an edge list: yields tuples of (a, b) meaning `a + b`."""
    m = len(edges)
    for perm in itertools.permutations(range(m)):
        for mask in range(1 << m):
            yield tuple((edges[i][1], edges[i][0]) if (mask >> k) & 1 else edges[i] for k, i in enumerate(perm))


def n_histories(m):
    f = 1
    for k in range(2, m + 1):
        f *= k
    return f * (1 << m)


def history_at(edges, index):
    """The index-th history of `histories(edges)` without enumerating (perm-major, mask-minor)."""
    m = len(edges)
    perm_i, mask = divmod(index, 1 << m)
    # index-th permutation in itertools.permutations order (lexicographic on positions)
    items = list(range(m))
    perm = []
    f = 1
    for k in range(2, m):
        f *= k
    fact = [1] * (m + 1)
    for k in range(1, m + 1):
        fact[k] = fact[k - 1] * k
    for k in range(m, 0, -1):
        q, perm_i = divmod(perm_i, fact[k - 1])
        perm.append(items.pop(q))
    return tuple((edges[i][1], edges[i][0]) if (mask >> k) & 1 else edges[i] for k, i in enumerate(perm))


# ---- connected labelled graphs ----------------------------------------------------------------
def connected_graphs(n):
    """All connected labelled graphs on nodes 0..n-1 up to isomorphism-by-nothing (i.e. all of them),
    as edge lists.  n=4: 38, n=5: 728, n=6: 26704."""
    pairs = list(itertools.combinations(range(n), 2))
    for mask in range(1 << len(pairs)):
        edges = [pairs[k] for k in range(len(pairs)) if (mask >> k) & 1]
        if len(edges) < n - 1:
            continue
        adj = adjacency(edges)
        if len(adj) == n and len(bfs_dist(adj, 0)) == n:
            yield edges


# ---- model of the KNOWN defective update (used only to tell the known finding from any other defect) ------------
class StaleDfsModel:
    """Plain-dict replica of the routing update as the pinned library performs it (recorded in
    known_findings.json, C20/non-shortest-route-cyclic-graph): on `a + b` the tables are rebuilt by a
    depth-first walk that starts at `a`, each node taking `1 + neighbour's current table`, neighbours in
    link-insertion order, with a shared "already updated" set.  On cyclic graphs nodes visited early read
    stale tables of nodes visited later.  The model predicts, for a given insertion history, the route
    LENGTH the pinned algorithm ends with; a real route that is non-shortest but has exactly the predicted
    length is the known finding, anything else is a new defect."""

    def __init__(self):
        self.neigh = {}  # name -> list of names (insertion order)
        self.routes = {}  # name -> {target: (direction, steps)}

    def add(self, a, b):
        for x in (a, b):
            self.neigh.setdefault(x, [])
            self.routes.setdefault(x, {})
        if b not in self.neigh[a]:
            self.neigh[a].append(b)
        if a not in self.neigh[b]:
            self.neigh[b].append(a)
        self._update(a, set())

    def _update(self, me, done):
        new = {}
        for nb in self.neigh[me]:
            new[nb] = (nb, 1)
            for target, (_, steps) in self.routes[nb].items():
                if target == me or target in self.neigh[me]:
                    continue
                if target in new and new[target][1] <= steps:
                    continue
                new[target] = (nb, steps + 1)
        self.routes[me] = new
        done.add(me)
        for nb in self.neigh[me]:
            if nb not in done:
                self._update(nb, done)

    def length(self, src, dst):
        if src == dst:
            return 0
        r = self.routes.get(src, {}).get(dst)
        return None if r is None else r[1]
