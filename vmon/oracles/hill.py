"""Hill's linearised equations of relative motion about a circular orbit -- reference model.

Written from the vector form of the equations (Curtis, Orbital Mechanics, ch. 7; Vallado 4th ed.
sec. 6.8), *not* from the closed-form Clohessy-Wiltshire matrices:

    rho'' = -2 n w^ x rho'  +  n^2 ( 3 (rho.q^) q^  -  (rho.w^) w^ )  +  a

(q^ radial, w^ along the orbital angular momentum, s^ = w^ x q^ along track, n the mean motion of
the circular target, a the thrust acceleration in the same axes).  Component form in QSW
(x radial, y along-track, z cross-track):

    x'' - 2 n y' - 3 n^2 x = a_x ,   y'' + 2 n x' = a_y ,   z'' + n^2 z = a_z

The two axis conventions of the library's Hill frame only differ by the coordinates of q^, s^, w^:
QSW = (q, s, w); TNW = (t, n, w) with t^ = v^ = s^ and n^ = w^ x t^ = -q^ for a circular target.

Contents
  axes / decompose / compose / permutation      the two axis conventions (from the definitions)
  rhs                                            right-hand side of the first-order system
  solve                                          solution of the IVP with constant thrust by a matrix
                                                 exponential of the non-dimensional system (own
                                                 scaling-and-squaring Taylor series)
  trajectory                                     piecewise solution through impulses and burns
  d1_5pt / d1_richardson                         finite-difference differentiation helpers
  relative_truth                                 difference of two Keplerian orbits (kepler_uv) in the
                                                 rotating QSW frame of the target (non-linear truth)

Nothing from `beyond` is imported here.
"""

import math

import numpy as np

from . import kepler_uv

# coordinates of (q^, s^, w^) in each convention of the Hill frame
_AXES = {
    "QSW": (np.array([1.0, 0.0, 0.0]), np.array([0.0, 1.0, 0.0]), np.array([0.0, 0.0, 1.0])),
    # t^ = s^  -> s^ = (1, 0, 0);  n^ = w^ x t^ = -q^  -> q^ = (0, -1, 0)
    "TNW": (np.array([0.0, -1.0, 0.0]), np.array([1.0, 0.0, 0.0]), np.array([0.0, 0.0, 1.0])),
}


def axes(orientation):
    """(q^, s^, w^) expressed in the coordinates of `orientation` ('QSW' | 'TNW')."""
    return _AXES[orientation.upper()]


def decompose(vec, orientation):
    """(radial, along-track, cross-track) components of a 3-vector given in `orientation` axes."""
    q, s, w = axes(orientation)
    vec = np.asarray(vec, float)
    return np.array([float(vec @ q), float(vec @ s), float(vec @ w)])


def compose(radial, along, cross, orientation):
    """3-vector in `orientation` axes from its (radial, along-track, cross-track) components."""
    q, s, w = axes(orientation)
    return radial * q + along * s + cross * w


def permutation(src, dst):
    """3x3 matrix P with  x_dst = P @ x_src  (fixed axis permutation between the conventions)."""
    qs, ss, ws = axes(src)
    qd, sd, wd = axes(dst)
    # x = r q + a s + c w in both conventions
    return np.outer(qd, qs) + np.outer(sd, ss) + np.outer(wd, ws)


def permutation6(src, dst):
    P = permutation(src, dst)
    out = np.zeros((6, 6))
    out[:3, :3] = P
    out[3:, 3:] = P
    return out


def rhs(state, n, accel=None, orientation="QSW"):
    """d/dt of the 6-state (rho, rho') under Hill's equations."""
    q, s, w = axes(orientation)
    state = np.asarray(state, float)
    r, v = state[:3], state[3:]
    a = np.zeros(3) if accel is None else np.asarray(accel, float)
    acc = -2.0 * n * np.cross(w, v) + n * n * (3.0 * float(r @ q) * q - float(r @ w) * w) + a
    return np.concatenate([v, acc])


def _system(orientation):
    """Non-dimensional system matrix A of  dy/dtau = A y,  y = (rho, rho'/n), tau = n t."""
    q, s, w = axes(orientation)
    G = 3.0 * np.outer(q, q) - np.outer(w, w)
    Wx = np.array([[0.0, -w[2], w[1]], [w[2], 0.0, -w[0]], [-w[1], w[0], 0.0]])
    A = np.zeros((6, 6))
    A[:3, 3:] = np.eye(3)
    A[3:, :3] = G
    A[3:, 3:] = -2.0 * Wx
    return A


def _expm(M):
    """Matrix exponential by scaling-and-squaring of a degree-24 Taylor polynomial."""
    M = np.asarray(M, float)
    norm = float(np.abs(M).sum(axis=1).max())
    k = 0
    if norm > 0.25:
        k = int(math.ceil(math.log2(norm / 0.25)))
    Ms = M / (2.0 ** k)
    E = np.eye(M.shape[0])
    term = np.eye(M.shape[0])
    for j in range(1, 25):
        term = term @ Ms / j
        E = E + term
    for _ in range(k):
        E = E @ E
    return E


def solve(state0, n, t, accel=None, orientation="QSW"):
    """State after t seconds (any sign) from state0 under Hill's equations with constant thrust.

    Solved as exp(M tau) of the augmented non-dimensional system (no closed form is used).
    """
    state0 = np.asarray(state0, float)
    a = np.zeros(3) if accel is None else np.asarray(accel, float)
    M = np.zeros((7, 7))
    M[:6, :6] = _system(orientation)
    # the forcing column is normalised to unit length (the constant 7th component carries the
    # length a/n^2) so that the number of squarings depends on n*t only
    L = float(np.linalg.norm(a)) / (n * n)
    if L > 0:
        M[3:6, 6] = a / (n * n) / L
    y0 = np.concatenate([state0[:3], state0[3:] / n, [L]])
    y = _expm(M * (n * t)) @ y0
    return np.concatenate([y[:3], y[3:6] * n])


def trajectory(state0, n, mans, t, orientation="QSW", at_date="post"):
    """State at t (seconds from the epoch of state0) through maneuvers placed at or after the
    epoch (any order in the list, burns and impulses may overlap: the physics is an event list).

    mans: list of ("imp", t_m, dv[3])  or  ("burn", t_start, t_stop, accel[3]); vectors in the
    axes of `orientation`.  An impulse with t_m < t is applied; with t_m == t it is applied iff
    at_date == "post".  A burn thrusts on [t_start, t_stop); simultaneous burns add up.  For t
    before the epoch no maneuver applies.
    """
    x = np.asarray(state0, float).copy()
    if t < 0:
        return solve(x, n, t, None, orientation)
    cuts = {0.0, float(t)}
    for m in mans:
        for tm in m[1:-1]:
            if 0.0 <= tm <= t:
                cuts.add(float(tm))
    cuts = sorted(cuts)

    def jump(x, at):
        for m in mans:
            if m[0] == "imp" and m[1] == at and (at < t or at_date == "post"):
                x[3:] = x[3:] + np.asarray(m[2], float)
        return x

    x = jump(x, cuts[0])
    for lo, hi in zip(cuts, cuts[1:]):
        acc = np.zeros(3)
        for m in mans:
            if m[0] == "burn" and m[1] <= lo and hi <= m[2]:
                acc = acc + np.asarray(m[3], float)
        x = solve(x, n, hi - lo, acc if np.any(acc) else None, orientation)
        x = jump(x, hi)
    return x


# ---------------------------------------------------------------------------------------------
# finite differences


def d1_5pt(fm2, fm1, fp1, fp2, h):
    """5-point central first derivative, truncation h^4 f^(5) / 30."""
    return (np.asarray(fm2) - 8.0 * np.asarray(fm1) + 8.0 * np.asarray(fp1) - np.asarray(fp2)) / (12.0 * h)


def d1_richardson(samples, g):
    """First derivative at the centre of 9 samples taken at offsets k*g, k = -4..4.

    Two 5-point estimates (spacing g and 2g) are Richardson-combined: truncation O(g^6 f^(7)).
    """
    s = [np.asarray(x, float) for x in samples]
    if len(s) != 9:
        raise ValueError("9 samples needed")
    dg = d1_5pt(s[2], s[3], s[5], s[6], g)
    d2g = d1_5pt(s[0], s[2], s[6], s[8], 2.0 * g)
    return (16.0 * dg - d2g) / 15.0


# ---------------------------------------------------------------------------------------------
# non-linear truth: difference of two Keplerian orbits in the target's rotating QSW frame


def qsw_rows(r, v):
    """Rows q^, s^, w^ (inertial components) of the QSW triad of the state (r, v), from the definitions."""
    r = np.asarray(r, float)
    v = np.asarray(v, float)
    q = r / np.linalg.norm(r)
    h = np.cross(r, v)
    w = h / np.linalg.norm(h)
    s = np.cross(w, q)
    return np.array([q, s, w])


def tnw_rows(r, v):
    """Rows t^, n^, w^ (inertial components) of the TNW triad of the state (r, v), from the definitions."""
    r = np.asarray(r, float)
    v = np.asarray(v, float)
    t = v / np.linalg.norm(v)
    h = np.cross(r, v)
    w = h / np.linalg.norm(h)
    nn = np.cross(w, t)
    return np.array([t, nn, w])


def circular_target(a, mu, inc, raan, u):
    """Inertial state of a circular orbit of radius a at argument of latitude u."""
    cO, sO, ci, si = math.cos(raan), math.sin(raan), math.cos(inc), math.sin(inc)
    P = np.array([cO, sO, 0.0])
    Qv = np.array([-sO * ci, cO * ci, si])
    n = math.sqrt(mu / a ** 3)
    R = a * (math.cos(u) * P + math.sin(u) * Qv)
    V = a * n * (-math.sin(u) * P + math.cos(u) * Qv)
    return R, V


def relative_truth(R0, V0, rel0, dt, mu):
    """Relative state (rotating QSW frame of the target, rectilinear) after dt of a chaser whose
    relative state at the epoch is rel0 = (rho, rho') in the same frame; both bodies follow
    exact two-body motion (universal variables)."""
    R0 = np.asarray(R0, float)
    V0 = np.asarray(V0, float)
    rel0 = np.asarray(rel0, float)
    a = float(np.linalg.norm(R0))
    n = float(np.linalg.norm(np.cross(R0, V0))) / (a * a)
    Q0 = qsw_rows(R0, V0)
    om = np.array([0.0, 0.0, n])
    rc = R0 + Q0.T @ rel0[:3]
    vc = V0 + Q0.T @ (rel0[3:] + np.cross(om, rel0[:3]))
    Rt, Vt = kepler_uv.propagate(R0, V0, dt, mu)
    rt, vt = kepler_uv.propagate(rc, vc, dt, mu)
    Q = qsw_rows(Rt, Vt)
    rho = Q @ (rt - Rt)
    rhod = Q @ (vt - Vt) - np.cross(om, rho)
    return np.concatenate([rho, rhod])
