"""Textbook orbital elements from (r, v, mu), written from the vector definitions
(eccentricity vector, node vector, atan2 of dot/cross products) -- independent of
beyond/orbits/forms.py (which uses h^2/(a mu), its own angle algebra and a Newton solver).

Nothing from `beyond` is imported here.
"""

import math

import numpy as np

TWO_PI = 2 * math.pi


def wrap(a):
    """(-pi, pi]"""
    return (a + math.pi) % TWO_PI - math.pi


def angdiff(a, b):
    return abs(wrap(a - b))


def classical(r, v, mu):
    r = np.asarray(r, float)
    v = np.asarray(v, float)
    rn = float(np.linalg.norm(r))
    vn = float(np.linalg.norm(v))
    h = np.cross(r, v)
    hn = float(np.linalg.norm(h))
    hhat = h / hn
    evec = np.cross(v, h) / mu - r / rn
    e = float(np.linalg.norm(evec))
    energy = vn * vn / 2 - mu / rn
    a = -mu / (2 * energy)
    i = math.acos(max(-1.0, min(1.0, h[2] / hn)))
    nvec = np.array([-h[1], h[0], 0.0])  # z x h
    raan = math.atan2(nvec[1], nvec[0]) % TWO_PI
    # angles measured in the orbital plane, positive about h
    argp = math.atan2(float(np.dot(np.cross(nvec, evec), hhat)), float(np.dot(nvec, evec))) % TWO_PI
    nu = math.atan2(float(np.dot(np.cross(evec, r), hhat)), float(np.dot(evec, r))) % TWO_PI
    u = math.atan2(float(np.dot(np.cross(nvec, r), hhat)), float(np.dot(nvec, r))) % TWO_PI
    rv = float(np.dot(r, v))
    out = dict(a=a, e=e, i=i, raan=raan, argp=argp, nu=nu, u=u, h=hn, energy=energy, r=rn, v=vn, rv=rv)
    if e < 1:
        # e sinE = r.v / sqrt(mu a),  e cosE = 1 - r/a
        E = math.atan2(rv / math.sqrt(mu * a), 1 - rn / a) % TWO_PI
        M = (E - e * math.sin(E)) % TWO_PI
        out.update(E=E, M=M, n=math.sqrt(mu / a ** 3))
    else:
        # e sinhH = r.v / sqrt(mu |a|)
        H = math.asinh(rv / (e * math.sqrt(mu * abs(a))))
        M = e * math.sinh(H) - H
        out.update(E=H, M=M, n=math.sqrt(mu / abs(a) ** 3))
    return out


def spherical(r, v):
    x, y, z = (float(c) for c in r)
    vx, vy, vz = (float(c) for c in v)
    rn = math.sqrt(x * x + y * y + z * z)
    rho2 = x * x + y * y
    rho = math.sqrt(rho2)
    theta = math.atan2(y, x)
    phi = math.asin(z / rn)
    r_dot = (x * vx + y * vy + z * vz) / rn
    theta_dot = (x * vy - y * vx) / rho2
    # d/dt asin(z/r) = (vz - z r_dot / r) / rho
    phi_dot = (vz - z * r_dot / rn) / rho
    return [rn, theta, phi, r_dot, theta_dot, phi_dot]


def cylindrical(r, v):
    x, y, z = (float(c) for c in r)
    vx, vy, vz = (float(c) for c in v)
    rho2 = x * x + y * y
    rho = math.sqrt(rho2)
    return [rho, math.atan2(y, x), z, (x * vx + y * vy) / rho, (x * vy - y * vx) / rho2, vz]


# kind of each component: 'len' (relative), 'num' (absolute, dimensionless), 'ang' (mod 2pi),
# 'rate' (relative to a natural scale)
FORMS = {
    "cartesian": ["len", "len", "len", "vel", "vel", "vel"],
    "keplerian": ["len", "num", "ang_i", "ang_node", "ang_peri", "ang_anom"],
    "keplerian_eccentric": ["len", "num", "ang_i", "ang_node", "ang_peri", "ang_anomE"],
    "keplerian_mean": ["len", "num", "ang_i", "ang_node", "ang_peri", "ang_anomM"],
    "keplerian_circular": ["len", "num", "num", "ang_i", "ang_node", "ang_u"],
    "keplerian_mean_circular": ["len", "num", "num", "ang_i", "ang_node", "ang_anomM"],
    "equinoctial": ["len", "num", "num", "num", "num", "ang_u"],
    "tle": ["ang_i", "ang_node", "num", "ang_peri", "ang_anomM", "rate_n"],
    "spherical": ["len", "ang", "ang", "vel", "angrate", "angrate"],
    "cylindrical": ["len", "ang", "len", "vel", "angrate", "vel"],
}


def form_values(form, r, v, mu):
    """The six textbook numbers of `form` for the cartesian state (r, v)."""
    if form == "cartesian":
        return [float(x) for x in r] + [float(x) for x in v]
    if form == "spherical":
        return spherical(r, v)
    if form == "cylindrical":
        return cylindrical(r, v)
    c = classical(r, v, mu)
    a, e, i, O, w, nu, E, M, u = (c[k] for k in ("a", "e", "i", "raan", "argp", "nu", "E", "M", "u"))
    if form == "keplerian":
        return [a, e, i, O, w, nu]
    if form == "keplerian_eccentric":
        return [a, e, i, O, w, E]
    if form == "keplerian_mean":
        return [a, e, i, O, w, M]
    if form == "keplerian_circular":
        return [a, e * math.cos(w), e * math.sin(w), i, O, u]
    if form == "keplerian_mean_circular":
        return [a, e * math.cos(w), e * math.sin(w), i, O, (w + M) % TWO_PI]
    if form == "equinoctial":
        return [a, e * math.cos(O + w), e * math.sin(O + w), math.tan(i / 2) * math.cos(O), math.tan(i / 2) * math.sin(O), O + w + nu]
    if form == "tle":
        return [i, O, e, w, M, c["n"]]
    raise ValueError(form)


def kepler_residual(e, anomaly, M):
    """Residual of Kepler's equation (never solved here)."""
    if e < 1:
        return wrap(M - (anomaly - e * math.sin(anomaly)))
    return M - (e * math.sinh(anomaly) - anomaly)


def kep2cart(a, e, i, raan, argp, nu, mu):
    """Perifocal construction + 3-1-3 rotation (own derivation)."""
    p = a * (1 - e * e)
    rn = p / (1 + e * math.cos(nu))
    rp = np.array([rn * math.cos(nu), rn * math.sin(nu), 0.0])
    k = math.sqrt(mu / p)
    vp = np.array([-k * math.sin(nu), k * (e + math.cos(nu)), 0.0])
    cO, sO, cw, sw, ci, si = math.cos(raan), math.sin(raan), math.cos(argp), math.sin(argp), math.cos(i), math.sin(i)
    R = np.array(
        [
            [cO * cw - sO * sw * ci, -cO * sw - sO * cw * ci, sO * si],
            [sO * cw + cO * sw * ci, -sO * sw + cO * cw * ci, -cO * si],
            [sw * si, cw * si, ci],
        ]
    )
    return R @ rp, R @ vp


def nu_from_M(e, M):
    """True anomaly from mean anomaly by bisection on Kepler's equation (robust, slow)."""
    if e < 1:
        M = M % TWO_PI
        lo, hi = 0.0, TWO_PI
        for _ in range(200):
            mid = 0.5 * (lo + hi)
            if mid - e * math.sin(mid) < M:
                lo = mid
            else:
                hi = mid
        E = 0.5 * (lo + hi)
        return math.atan2(math.sqrt(1 - e * e) * math.sin(E), math.cos(E) - e) % TWO_PI
    lo, hi = -1.0, 1.0
    while e * math.sinh(lo) - lo > M:
        lo *= 2
    while e * math.sinh(hi) - hi < M:
        hi *= 2
    for _ in range(200):
        mid = 0.5 * (lo + hi)
        if e * math.sinh(mid) - mid < M:
            lo = mid
        else:
            hi = mid
    H = 0.5 * (lo + hi)
    return (2 * math.atan(math.sqrt((e + 1) / (e - 1)) * math.tanh(H / 2))) % TWO_PI
