"""Reference model for C18: direct chaining of SPK segments + own time scales + IAU-76 precession.

Nothing from `beyond` is imported.  The kernel is opened with `jplephem.spk.SPK` and the
vector between two arbitrary bodies is obtained by an own breadth-first search over the kernel's
(center, target) pairs, adding `+segment` when the segment is walked center->target and
`-segment` when it is walked target->center.

Units: jplephem returns km and km/day (Chebyshev derivative w.r.t. days); this module converts to
m and m/s.  `self_test()` confirms the km/day convention by a finite difference of the positions
(so that the oracle does not share a unit misconception with the code under test).

Time argument: TDB as a two-part Julian date (jd1 = day + 2400000.5, jd2 = seconds/86400), own
conversion  label -> TT -> TDB  with TT-TAI = 32.184 s, TAI-GPS = 19 s, own TAI-UTC table for
2000-2020 and the Astronomical-Almanac periodic term  TDB-TT = 0.001657 sin g + 0.000014 sin 2g.
"""

import math
from collections import deque
from datetime import datetime

import numpy as np
from jplephem.spk import SPK

S_PER_DAY = 86400.0
MJD_T0 = datetime(1858, 11, 17)

# TAI-UTC (s), valid from the given UTC calendar day -- IERS Bulletin C, typed from the bulletin list
_LEAPS = [
    ((1999, 1, 1), 32.0),
    ((2006, 1, 1), 33.0),
    ((2009, 1, 1), 34.0),
    ((2012, 7, 1), 35.0),
    ((2015, 7, 1), 36.0),
    ((2017, 1, 1), 37.0),
]
LEAP_MJD = [((datetime(*ymd) - MJD_T0).days, v) for ymd, v in _LEAPS]


def tai_minus_utc(mjd_utc_day):
    val = None
    for day, v in LEAP_MJD:
        if mjd_utc_day >= day:
            val = v
    if val is None:
        raise ValueError("before 1999")
    return val


def near_leap(mjd, margin_days=1.0):
    return any(abs(mjd - day) <= margin_days for day, _ in LEAP_MJD[1:])


def tdb_minus_tt(jd_tt):
    g = math.radians(357.53 + 0.9856003 * (jd_tt - 2451545.0))
    return 0.001657 * math.sin(g) + 0.000014 * math.sin(2 * g)


def to_tdb(scale, d, s):
    """(mjd day, seconds of day) read on the clock `scale`  ->  (mjd day, seconds) TDB, not normalised."""
    if scale == "TDB":
        return d, s
    if scale == "TT":
        tt = s
    elif scale == "TAI":
        tt = s + 32.184
    elif scale == "GPS":
        tt = s + 19.0 + 32.184
    elif scale == "UTC":
        tt = s + tai_minus_utc(d) + 32.184
    else:
        raise ValueError(scale)
    jd_tt = d + 2400000.5 + tt / S_PER_DAY
    return d, tt + tdb_minus_tt(jd_tt)


def seconds_between(d0, s0, d1, s1):
    return (d1 - d0) * S_PER_DAY + (s1 - s0)


# ------------------------------------------------------------------------------------------------
def _R3(x):
    c, s = math.cos(x), math.sin(x)
    return np.array([[c, s, 0.0], [-s, c, 0.0], [0.0, 0.0, 1.0]])


def _R2(x):
    c, s = math.cos(x), math.sin(x)
    return np.array([[c, 0.0, -s], [0.0, 1.0, 0.0], [s, 0.0, c]])


def precession_j2000_to_mod(jd_tt):
    """IAU-1976 precession matrix P with  r_MOD = P r_J2000  (Lieske 1977: zeta, theta, z)."""
    T = (jd_tt - 2451545.0) / 36525.0
    a = math.radians(1.0 / 3600.0)
    zeta = (2306.2181 * T + 0.30188 * T * T + 0.017998 * T ** 3) * a
    theta = (2004.3109 * T - 0.42665 * T * T - 0.041833 * T ** 3) * a
    z = (2306.2181 * T + 1.09468 * T * T + 0.018203 * T ** 3) * a
    return _R3(-z) @ _R2(theta) @ _R3(-zeta)


def angle(a, b):
    a = np.asarray(a, float)
    b = np.asarray(b, float)
    return math.atan2(float(np.linalg.norm(np.cross(a, b))), float(a @ b))


# ------------------------------------------------------------------------------------------------
class Kernel:
    def __init__(self, path):
        self.spk = SPK.open(str(path))
        self.segs = {}
        for seg in self.spk.segments:
            self.segs[(seg.center, seg.target)] = seg
        self.bodies = sorted({c for c, _ in self.segs} | {t for _, t in self.segs})
        self.adj = {b: [] for b in self.bodies}
        for (c, t) in self.segs:
            # walking c -> t adds +segment (position of t relative to c)
            self.adj[c].append((t, (c, t), +1.0))
            self.adj[t].append((c, (c, t), -1.0))
        self.start_jd = max(s.start_jd for s in self.spk.segments)
        self.end_jd = min(s.end_jd for s in self.spk.segments)
        self._chains = {}

    def close(self):
        self.spk.close()

    def chain(self, origin, target):
        """[(pair, sign)] such that  sum(sign * segment[pair])  = position of `target` relative to `origin`."""
        key = (origin, target)
        if key not in self._chains:
            prev = {origin: None}
            q = deque([origin])
            while q:
                n = q.popleft()
                if n == target:
                    break
                for m, pair, sign in self.adj[n]:
                    if m not in prev:
                        prev[m] = (n, pair, sign)
                        q.append(m)
            if target not in prev:
                raise KeyError(key)
            out = []
            n = target
            while prev[n] is not None:
                p, pair, sign = prev[n]
                out.append((pair, sign))
                n = p
            out.reverse()
            self._chains[key] = out
        return self._chains[key]

    def segment_state(self, pair, jd1, jd2=0.0):
        """(position m, velocity m/s) of pair[1] relative to pair[0]."""
        pos, rate = self.segs[pair].compute_and_differentiate(jd1, jd2)
        return np.asarray(pos, float) * 1e3, np.asarray(rate, float) * (1e3 / S_PER_DAY)

    def all_segments(self, jd1, jd2=0.0):
        return {pair: self.segment_state(pair, jd1, jd2) for pair in self.segs}

    def state(self, target, origin, jd1, jd2=0.0, cache=None):
        """6-vector (m, m/s) of `target` relative to `origin`, and L = sum of |segment positions| walked
        (the magnitude that governs floating-point summation noise)."""
        pos = np.zeros(3)
        vel = np.zeros(3)
        L = 0.0
        Lv = 0.0
        for pair, sign in self.chain(origin, target):
            p, v = cache[pair] if cache is not None else self.segment_state(pair, jd1, jd2)
            pos = pos + sign * p
            vel = vel + sign * v
            L += float(np.linalg.norm(p))
            Lv += float(np.linalg.norm(v))
        return np.concatenate([pos, vel]), L, Lv

    def self_test(self, jds):
        """Worst relative difference between the oracle's m/s velocity and a central difference of the
        positions (h = 0.02 d), over all segments with a non-zero velocity."""
        worst = 0.0
        h = 0.02
        for jd in jds:
            for pair in self.segs:
                p, v = self.segment_state(pair, jd)
                vn = float(np.linalg.norm(v))
                if vn == 0.0:
                    continue
                p1, _ = self.segment_state(pair, jd, h)
                p0, _ = self.segment_state(pair, jd, -h)
                fd = (p1 - p0) / (2 * h * S_PER_DAY)
                worst = max(worst, float(np.linalg.norm(fd - v)) / vn)
        return worst
