"""Reference pieces for covariance frame changes (C14). Nothing from `beyond` is imported here.

* local orbital axes QSW / TNW from the textbook definitions
    QSW: q = r/|r|, w = (r x v)/|r x v|, s = w x q
    TNW: t = v/|v|, w = (r x v)/|r x v|, n = w x t
  the rows of the returned 3x3 matrix are the axes, i.e. it maps inertial components to local ones
* generator of symmetric positive definite 6x6 matrices with realistic position / velocity scales
* scaled comparison helpers
"""

import math

import numpy as np


def lof_rotation(kind, r, v):
    """3x3 matrix inertial -> local orbital frame (rows = unit axes)."""
    r = np.asarray(r, float)
    v = np.asarray(v, float)
    h = np.cross(r, v)
    w = h / math.sqrt(float(h @ h))
    if kind == "QSW":
        x = r / math.sqrt(float(r @ r))
    elif kind == "TNW":
        x = v / math.sqrt(float(v @ v))
    else:
        raise ValueError(kind)
    y = np.cross(w, x)
    return np.array([x, y, w])


def block2(R):
    M = np.zeros((6, 6))
    M[:3, :3] = R
    M[3:, 3:] = R
    return M


def random_orthogonal(rng, n):
    """Random orthogonal n x n from a Gaussian matrix (QR), randomness from `rng` only."""
    G = np.array([[rng.gauss(0.0, 1.0) for _ in range(n)] for _ in range(n)])
    Q, Rr = np.linalg.qr(G)
    return Q * np.sign(np.diag(Rr))


def random_spd(rng, cond_class=None):
    """Random SPD 6x6 covariance [m^2, m^2/s, (m/s)^2].

    construction: correlation-like kernel K = Q diag(lam) Q^T (lam log-uniform over `spread` decades),
    normalised to unit diagonal, then scaled by per-axis sigmas:
        position sigmas   sp * f_i ,   sp in [1 m, 10 km],      f_i in [0.03, 1]
        velocity sigmas   sp * rho * g_i, rho in [1e-4, 1e-2] 1/s (about the mean motion LEO..GEO), g_i in [0.03, 1]
    The matrix is symmetrised exactly; its condition number is computed and returned.
    cond_class: 'mild' (kernel spread <= 2 decades), 'mid' (<= 4), 'stiff' (<= 6): total condition number
    up to ~1e12 (the caller rejects above 1e12).
    """
    cond_class = cond_class or rng.choice(["mild", "mid", "stiff"])
    spread = {"mild": 2.0, "mid": 4.0, "stiff": 6.0}[cond_class]
    while True:
        Q = random_orthogonal(rng, 6)
        lam = np.array([10.0 ** rng.uniform(-spread, 0.0) for _ in range(6)])
        lam[rng.randrange(6)] = 1.0
        lam[rng.randrange(6)] = 10.0 ** (-spread * rng.uniform(0.5, 1.0))
        K = (Q * lam) @ Q.T
        d = np.sqrt(np.diag(K))
        K = K / np.outer(d, d)
        sp = 10.0 ** rng.uniform(0.0, 4.0)
        rho = 10.0 ** rng.uniform(-4.0, -2.0)
        sig = np.array(
            [sp * 10.0 ** rng.uniform(-1.5, 0.0) for _ in range(3)]
            + [sp * rho * 10.0 ** rng.uniform(-1.5, 0.0) for _ in range(3)]
        )
        C = K * np.outer(sig, sig)
        C = 0.5 * (C + C.T)
        ev = np.linalg.eigvalsh(C)
        if ev[0] <= 0:
            continue
        cond = float(ev[-1] / ev[0])
        if cond > 1e12:
            continue
        return C, {"cond_class": cond_class, "cond": cond, "sigma_pos": sp, "rho": rho}


def block_scales(mats):
    """(S_pos, S_vel): largest position / velocity variance over a list of 6x6 matrices."""
    sp = max(float(np.max(np.diag(M)[:3])) for M in mats)
    sv = max(float(np.max(np.diag(M)[3:])) for M in mats)
    return sp, sv


def scaled_maxdiff(A, B, sp, sv):
    """max_ij |A-B|_ij / sqrt(S_i S_j) with S = sp for position rows/cols, sv for velocity ones."""
    s = np.sqrt(np.array([sp, sp, sp, sv, sv, sv]))
    D = np.abs(np.asarray(A, float) - np.asarray(B, float)) / np.outer(s, s)
    if not np.all(np.isfinite(D)):
        return float("nan")
    return float(D.max())
