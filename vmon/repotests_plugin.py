"""pytest plugin: the repository's own test-suite as a WORKLOAD for invariant hooks.

Loaded with `-p vmon.repotests_plugin` by vmon/repotests.py (never by the repository).  The tests decide nothing here
(their pass/fail status is ignored): they only drive the library through paths and object shapes the generators of the
checks do not produce (fixtures, mocks of the EOP database, CCSDS files, documentation examples run as doctests).  Each
monitor is an invariant that needs no knowledge of the inputs:

  C15  StateVector.copy           the result is another object, shares no coordinate memory, no maneuvers list, no covariance
  C08  Orbit.propagate / .iter    the receiver (the initial orbit) is bitwise what it was before the call
  C02  Frame.transform            the source state is bitwise what it was before the call
  C10  Speaker.listen             the events returned for one step, followed by the sample, are monotone in time; each carries
                                  its event label

Environment: VMON_REPOTESTS_OUT (json path), VMON_REPOTESTS_MONITORS (comma list of property ids).
"""

import hashlib
import json
import os

import numpy as np

S = {"counters": {}, "violations": {}, "test": None, "tests_run": 0}
MON = set(os.environ.get("VMON_REPOTESTS_MONITORS", "C15,C08,C02,C10").split(","))


def count(k, n=1):
    S["counters"][k] = S["counters"].get(k, 0) + n


def violation(key, witness, msg):
    v = S["violations"].setdefault(key, {"count": 0, "msg": msg, "witness": dict(witness, test=S["test"])})
    v["count"] += 1


def digest(o):
    """Everything a caller can observe of a state: numbers, date, form, frame, maneuvers, covariance, free metadata."""
    h = hashlib.sha1()
    h.update(np.ascontiguousarray(np.asarray(o), dtype=float).tobytes())
    d = getattr(o, "_data", None) or {}
    for k in sorted(d):
        v = d[k]
        if k == "propagator":
            h.update(type(v).__name__.encode())
        elif k == "cov":
            if v is not None:
                h.update(np.ascontiguousarray(np.asarray(v), dtype=float).tobytes())
                h.update(str(getattr(v, "frame", None)).encode())
        elif k == "maneuvers":
            for m in v if isinstance(v, (list, tuple)) else [v]:
                h.update(repr((type(m).__name__, str(getattr(m, "date", None)), getattr(m, "frame", None), getattr(m, "comment", None))).encode())
                if type(m).__name__.startswith("Keplerian"):
                    # defined by (da, di, dOmega); _dv / _accel are scratch values recomputed at every application
                    h.update(repr((getattr(m, "da", None), getattr(m, "di", None), getattr(m, "dOmega", None))).encode())
                    continue
                for a in ("_dv", "_accel"):
                    if hasattr(m, a):
                        h.update(np.asarray(getattr(m, a), dtype=float).tobytes())
        elif k == "date":
            h.update(repr((v._d, v._s, v.scale.name)).encode())
        elif k in ("form", "frame"):
            h.update(str(getattr(v, "name", v)).encode())
        else:
            try:
                h.update(repr(v).encode())
            except Exception:
                pass
    return h.hexdigest()


def _wrap(owner, name, pre, post):
    import functools
    import inspect

    raw = inspect.getattr_static(owner, name)
    func = raw

    @functools.wraps(func)
    def wrapper(*a, **k):
        tok = pre(a, k)
        res = func(*a, **k)
        post(a, k, res, tok)
        return res

    setattr(owner, name, wrapper)


def pytest_configure(config):
    from beyond.orbits.statevector import StateVector
    from beyond.orbits.orbit import Orbit
    from beyond.frames.frames import Frame
    from beyond.propagators.listeners import Speaker

    if "C15" in MON:
        def pre(a, k):
            return None

        def post(a, k, res, tok):
            src = a[0]
            count("C15:copy-calls")
            w = {"type": type(src).__name__, "kwargs": {x: str(y)[:40] for x, y in k.items()}}
            if res is src:
                violation("C15/copy-returns-the-receiver", w, "copy() returned the receiver")
                return
            if np.shares_memory(np.asarray(res), np.asarray(src)):
                violation("C15/copy-shares-coordinates", w, "copy() shares coordinate memory with its source")
            ms, mr = src._data.get("maneuvers"), res._data.get("maneuvers")
            if isinstance(ms, list) and ms and ms is mr:
                violation("C15/copy-shares-maneuvers-list", w, "copy() shares the maneuvers list")
            cs, cr = src._data.get("cov"), res._data.get("cov")
            if cs is not None and cr is not None:
                count("C15:copy-with-cov")
                if cs is cr or np.shares_memory(np.asarray(cs), np.asarray(cr)):
                    violation("C15/copy-shares-covariance", w, "copy() shares the covariance")

        _wrap(StateVector, "copy", pre, post)

    if "C08" in MON:
        def pre8(a, k):
            return digest(a[0])

        def post8(a, k, res, tok):
            count("C08:propagate-calls")
            if digest(a[0]) != tok:
                violation("C08/repo-tests-initial-object-modified", {"type": type(a[0]).__name__, "propagator": type(a[0]._data.get("propagator")).__name__},
                          "Orbit.propagate changed the orbit it was called on")
            if res is a[0]:
                violation("C08/repo-tests-propagate-returns-the-receiver", {"type": type(a[0]).__name__}, "propagate returned the receiver")

        _wrap(Orbit, "propagate", pre8, post8)

        import inspect as _inspect

        raw_iter = _inspect.getattr_static(Orbit, "iter")

        def iter_wrapper(self, **kwargs):
            tok = digest(self)
            count("C08:iter-calls")
            try:
                yield from raw_iter(self, **kwargs)
            finally:
                if digest(self) != tok:
                    violation("C08/repo-tests-initial-object-modified", {"type": type(self).__name__, "propagator": type(self._data.get("propagator")).__name__,
                                                                       "call": "iter"}, "Orbit.iter changed the orbit it was called on")

        Orbit.iter = iter_wrapper

    if "C02" in MON:
        def pre2(a, k):
            return digest(a[1]) if len(a) > 1 and hasattr(a[1], "_data") else None

        def post2(a, k, res, tok):
            if tok is None:
                return
            count("C02:transform-calls")
            if digest(a[1]) != tok:
                violation("C02/transform-mutates-source", {"from": str(a[0]), "to": str(a[2]) if len(a) > 2 else None}, "Frame.transform changed its source state")

        _wrap(Frame, "transform", pre2, post2)

    if "C10" in MON:
        def pre10(a, k):
            return None

        def post10(a, k, res, tok):
            orb = a[1] if len(a) > 1 else k.get("orb")
            count("C10:listen-calls")
            if not res:
                return
            count("C10:listen-calls-with-events")
            ts = [x.date._mjd for x in res] + [orb.date._mjd]
            up = all(ts[i] <= ts[i + 1] for i in range(len(ts) - 1))
            down = all(ts[i] >= ts[i + 1] for i in range(len(ts) - 1))
            if not (up or down):
                violation("C10/order-events-of-one-step", {"dates": [str(x.date) for x in res], "sample": str(orb.date)},
                          "the events of one step, followed by the sample, are not monotone in time")
            if any(getattr(x, "event", None) is None for x in res):
                violation("C10/event-without-label", {"dates": [str(x.date) for x in res]}, "listen() returned a state that carries no event")

        _wrap(Speaker, "listen", pre10, post10)


def pytest_runtest_setup(item):
    S["test"] = item.nodeid
    S["tests_run"] += 1


def pytest_sessionfinish(session, exitstatus):
    out = os.environ.get("VMON_REPOTESTS_OUT")
    if out:
        with open(out, "w") as fp:
            json.dump({"counters": S["counters"], "violations": S["violations"], "tests_run": S["tests_run"]}, fp)
