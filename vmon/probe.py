"""Instrumentation attached from the harness to the *real* attributes of the library.

attach(owner, name, pre=, post=, fail_at=)   wrap a function / method / classmethod
fingerprint(obj)                             deep digest of a StateVector/Orbit and its _data
"""

import functools
import hashlib
import inspect
from contextlib import contextmanager

import numpy as np


class InjectedFault(Exception):
    """Raised by a failpoint (never by the library)."""


class Probe:
    """Wrapper record: counts calls, can inject a failure at the k-th call."""

    def __init__(self, owner, name):
        self.owner = owner
        self.name = name
        self.calls = 0
        self.fail_at = None
        self.pre = None
        self.post = None
        self.log = None  # optional list of (args, result)
        self._orig_raw = inspect.getattr_static(owner, name)

    def install(self):
        raw = self._orig_raw
        probe = self
        if isinstance(raw, classmethod):
            func = raw.__func__

            @functools.wraps(func)
            def wrapper(cls, *a, **k):
                return probe._call(lambda: func(cls, *a, **k), (cls,) + a, k)

            setattr(self.owner, self.name, classmethod(wrapper))
        elif isinstance(raw, staticmethod):
            func = raw.__func__

            @functools.wraps(func)
            def wrapper(*a, **k):
                return probe._call(lambda: func(*a, **k), a, k)

            setattr(self.owner, self.name, staticmethod(wrapper))
        else:
            func = raw

            @functools.wraps(func)
            def wrapper(*a, **k):
                return probe._call(lambda: func(*a, **k), a, k)

            setattr(self.owner, self.name, wrapper)
        return self

    def _call(self, thunk, a, k):
        self.calls += 1
        if self.fail_at is not None and self.calls == self.fail_at:
            raise InjectedFault(f"failpoint {self.name} call #{self.calls}")
        if self.pre:
            self.pre(a, k)
        res = thunk()
        if self.post:
            self.post(a, k, res)
        if self.log is not None:
            self.log.append((a, k, res))
        return res

    def remove(self):
        setattr(self.owner, self.name, self._orig_raw)


def attach(owner, name, pre=None, post=None, fail_at=None, log=None):
    p = Probe(owner, name)
    p.pre, p.post, p.fail_at, p.log = pre, post, fail_at, log
    return p.install()


@contextmanager
def attached(owner, name, **kw):
    p = attach(owner, name, **kw)
    try:
        yield p
    finally:
        p.remove()


# ----------------------------------------------------------------------------------------------
def arr(sv):
    """Plain float copy of a StateVector (np.allclose on a StateVector raises KeyError)."""
    return np.array(np.asarray(sv, dtype=float), dtype=float, copy=True)


def _fp_value(v, h, depth=0):
    from beyond.dates import Date

    if depth > 4:
        h.update(b"<deep>")
        return
    if v is None or isinstance(v, (bool, int, float, str)):
        h.update(repr(v).encode())
    elif isinstance(v, Date):
        h.update(repr((v._d, v._s, v.scale.name)).encode())
    elif isinstance(v, np.ndarray):
        h.update(np.ascontiguousarray(np.asarray(v, dtype=float)).tobytes())
        if hasattr(v, "_data") and isinstance(getattr(v, "_data", None), dict) and depth < 2:
            for k in sorted(v._data):
                if k in ("infos", "propagator"):
                    continue
                h.update(k.encode())
                _fp_value(v._data[k], h, depth + 1)
        if hasattr(v, "_frame") and not hasattr(v, "_data"):
            # Cov
            h.update(str(getattr(v, "_frame", None)).encode())
    elif isinstance(v, (list, tuple)):
        h.update(b"[")
        for x in v:
            _fp_value(x, h, depth + 1)
        h.update(b"]")
    elif isinstance(v, dict):
        for k in sorted(v, key=str):
            h.update(str(k).encode())
            _fp_value(v[k], h, depth + 1)
    elif hasattr(v, "name") and isinstance(getattr(v, "name"), str):
        h.update(f"{type(v).__name__}:{v.name}".encode())
    elif hasattr(v, "__dict__"):
        h.update(type(v).__name__.encode())
        for k in sorted(vars(v)):
            if k.startswith("__"):
                continue
            h.update(k.encode())
            _fp_value(vars(v)[k], h, depth + 1)
    else:
        h.update(type(v).__name__.encode())


def fingerprint(obj):
    """Digest of everything observable in a state vector: array bytes, date, form, frame,
    maneuvers (and their fields), covariance bytes+frame, metadata."""
    h = hashlib.sha1()
    _fp_value(obj, h)
    return h.hexdigest()


class BudgetExceeded(Exception):
    """A logical-step budget was exhausted (the library is looping): an observation, decided on
    step counts, never on wall-clock time."""


class CallBudget:
    """Bound the number of calls of owner.name inside a `with` block.

        with probe.CallBudget(KeplerNum, "_make_step", 20000): orb.propagate(date)
    """

    def __init__(self, owner, name, budget):
        self.owner, self.name, self.budget = owner, name, budget
        self.calls = 0

    def __enter__(self):
        def pre(a, k):
            self.calls += 1
            if self.calls > self.budget:
                raise BudgetExceeded(f"{self.owner.__name__}.{self.name} called more than {self.budget} times")

        self._p = attach(self.owner, self.name, pre=pre)
        return self

    def __exit__(self, *exc):
        self._p.remove()
        return False


class AnomalySolverBudget:
    """Bound the work of Form.M2E (Newton loops written as bare `while abs(E1 - E) >= tol`) by counting the calls of the
    module-global `sin` / `sinh` it looks up in beyond.orbits.forms: a non-terminating iteration (cycle, garbage
    elements after a botched update) becomes BudgetExceeded instead of a hang."""

    def __init__(self, budget=20000):
        self.budget = budget

    def __enter__(self):
        from beyond.orbits import forms

        self._b = [CallBudget(forms, "sin", self.budget), CallBudget(forms, "sinh", self.budget)]
        for b in self._b:
            b.__enter__()
        return self

    def __exit__(self, *exc):
        for b in reversed(self._b):
            b.__exit__(*exc)
        return False
