"""Per-worker observation context: counters, residuals, violations, samples.

A check module never prints or exits; it reports through a Ctx.  The parent
(`vmon.run`) merges the Ctx dumps of all workers, classifies violations against
known_findings.json and decides the three-valued verdict.
"""

import hashlib
import json
import math
import traceback


def _canon(obj):
    """Canonical JSON-able form (floats by repr, numpy scalars unwrapped)."""
    try:
        import numpy as np
    except Exception:  # pragma: no cover
        np = None
    if obj is None or isinstance(obj, (bool, int, str)):
        return obj
    if isinstance(obj, float):
        if math.isnan(obj):
            return "nan"
        if math.isinf(obj):
            return "inf" if obj > 0 else "-inf"
        return obj
    if np is not None and isinstance(obj, np.generic):
        return _canon(obj.item())
    if np is not None and isinstance(obj, np.ndarray):
        return [_canon(x) for x in obj.tolist()]
    if isinstance(obj, dict):
        return {str(k): _canon(v) for k, v in obj.items()}
    if isinstance(obj, (list, tuple, set, frozenset)):
        return [_canon(x) for x in obj]
    return str(obj)


def jsonable(obj):
    return _canon(obj)


def digest(obj):
    return hashlib.sha1(
        json.dumps(_canon(obj), sort_keys=True, ensure_ascii=True).encode()
    ).hexdigest()[:16]


class Ctx:
    MAX_WITNESS_PER_KEY = 3
    MAX_SAMPLES = 6

    def __init__(self, prop, tier, seed, job, shard):
        self.prop = prop
        self.tier = tier
        self.seed = seed
        self.job = job
        self.shard = shard
        self.case_idx = None
        self.evaluations = 0  # oracle evaluations
        self.cases = 0
        self.nontrivial = set()
        self.counters = {}
        self.residuals = {}  # name -> {"max":, "tol":, "max_ratio":, "n":}
        self.violations = {}  # key -> {"count":, "witnesses": [...]}
        self.samples = []
        self.inconclusive = []
        self.notes = {}
        self.extra = {}

    # ---- bookkeeping -------------------------------------------------
    def count(self, name, n=1):
        self.counters[name] = self.counters.get(name, 0) + n

    def case(self, descr, nontrivial=True):
        """Register one generated case (for distinct_nontrivial)."""
        self.cases += 1
        if nontrivial:
            self.nontrivial.add(digest(descr))
        if len(self.samples) < self.MAX_SAMPLES:
            self.samples.append(_canon(descr))

    def sample(self, descr):
        if len(self.samples) < self.MAX_SAMPLES:
            self.samples.append(_canon(descr))

    def note(self, name, value):
        self.notes[name] = _canon(value)

    # ---- oracle verdicts ---------------------------------------------
    def ok(self, name=None):
        self.evaluations += 1
        if name:
            self.count("ok:" + name)

    def resid(self, name, value, tol, key=None, witness=None, msg=None):
        """Record a residual against its tolerance. Returns True if within.

        If `key` is given a breach is reported as a violation under that key.
        NaN counts as a breach.
        """
        self.evaluations += 1
        value = float(value)
        tol = float(tol)
        r = self.residuals.setdefault(
            name, {"max": 0.0, "tol_at_max": tol, "max_ratio": 0.0, "n": 0, "breaches": 0}
        )
        r["n"] += 1
        bad = not (value <= tol)
        ratio = (value / tol) if tol > 0 and not math.isnan(value) else (math.inf if bad else 0.0)
        if bad:
            r["breaches"] += 1
        else:
            # worst *accepted* residual (so drift toward tol is visible)
            if ratio >= r["max_ratio"]:
                r["max_ratio"] = ratio
                r["max"] = value
                r["tol_at_max"] = tol
        if bad and key is not None:
            w = dict(witness or {})
            w.update({"residual": name, "value": value, "tol": tol})
            self.violation(key, w, msg or f"{name}: {value!r} > tol {tol!r}")
        return not bad

    def expect(self, cond, key, witness=None, msg=""):
        """Boolean oracle."""
        self.evaluations += 1
        if not cond:
            self.violation(key, witness or {}, msg)
        return bool(cond)

    def violation(self, key, witness, msg=""):
        v = self.violations.setdefault(key, {"count": 0, "witnesses": []})
        v["count"] += 1
        if len(v["witnesses"]) < self.MAX_WITNESS_PER_KEY:
            w = _canon(witness)
            if not isinstance(w, dict):
                w = {"witness": w}
            w.setdefault("job", self.job.get("name"))
            w.setdefault("job_params", _canon(self.job))
            w.setdefault("case_idx", self.case_idx)
            w.setdefault("seed", self.seed)
            w["msg"] = str(msg)[:2000]
            v["witnesses"].append(w)

    def inconclusive_if(self, cond, reason):
        if cond:
            self.inconclusive.append(reason)

    def harness_error(self, exc):
        self.inconclusive.append(
            "harness-error case=%s: %s" % (self.case_idx, "".join(traceback.format_exception(exc))[-1500:])
        )

    # ---- serialisation -----------------------------------------------
    def dump(self):
        return {
            "prop": self.prop,
            "job": _canon(self.job),
            "shard": self.shard,
            "evaluations": self.evaluations,
            "cases": self.cases,
            "nontrivial": sorted(self.nontrivial),
            "counters": self.counters,
            "residuals": self.residuals,
            "violations": self.violations,
            "samples": self.samples,
            "inconclusive": self.inconclusive,
            "notes": self.notes,
            "extra": _canon(self.extra),
        }
