"""C03 -- time scales: one instant, exact offsets, lawful date arithmetic.

Monitors (reference model = vmon.oracles.timescales: own IERS column parsers + fixed offsets)
  table-sweep : Date(mjd).eop record == own-parsed record of that day (every day of the tables)
  conversions : all 36 ordered scale pairs per instant: offset clause, same-instant clause, round trip
  arith       : (d+t)-d == t, d+(t1+t2) == (d+t1)+t2 in the uniform scales
  order       : trichotomy / eq <-> hash / label independence, set & dict membership
  range       : DateRange len / iteration / membership vs an integer-microsecond model
  policy      : missing-data policy pass / warning / error / invalid, with no tables and outside the tables
"""

import datetime as dt
import logging
import math

from .. import env
from ..oracles import timescales as ts

RULE = (
    "table-sweep: one case per table day; conversions: one case per generated instant (uniform 1973-2017, biased to +-70 s of UTC "
    "midnights, leap-second windows excluded) x 36 ordered scale pairs; arith/order/range/policy: one case per generated tuple. "
    "distinct = digest of the generated inputs; non-trivial = source scale != target scale / non-zero timedelta / >= 1 element range"
)
EXHAUSTIVE = ["thorough tier: every day of the IERS tables (MJD 41684..57802)", "all 36 ordered scale pairs per sampled instant"]
ASSUMPTIONS = [
    "IERS readme column positions (vmon/oracles/timescales.py)",
    "python datetime arithmetic is exact to the microsecond",
    "leap seconds themselves are excluded (2-minute windows), as the quantifier says",
]

T0 = dt.datetime(1858, 11, 17)
US = dt.timedelta(microseconds=1)
_tables = None


def tables():
    global _tables
    if _tables is None:
        _tables = ts.Tables(env.repo_dir() / env.POLE)
    return _tables


def jobs(tier):
    q = tier == "quick"
    days = env.EOP_MJD_MAX - env.EOP_MJD_MIN + 1
    return [
        {"name": "table-sweep", "n": days, "eop": "real", "stride": 7 if q else 1},
        {"name": "conversions-real", "n": 4000 if q else 60000, "eop": "real"},
        {"name": "conversions-zero", "n": 300 if q else 6000, "eop": "zero"},
        {"name": "conversions-const", "n": 300 if q else 6000, "eop": "const"},
        {"name": "arith", "n": 20000 if q else 200000, "eop": "real"},
        {"name": "order", "n": 20000 if q else 200000, "eop": "real"},
        {"name": "range", "n": 10000 if q else 100000, "eop": "real"},
        {"name": "policy-notables", "n": 120 if q else 1200, "eop": "zero", "shards": 1},
        {"name": "policy-outside", "n": 120 if q else 1200, "eop": "real", "shards": 1},
    ]


def requirements(tier):
    req = {
        "sweep:days": 2000, "conv:pairs": 100000, "conv:near-midnight": 300, "arith:laws": 8000,
        "order:same-instant-pairs": 5000, "order:distinct-pairs": 2000, "range:forward": 1500, "range:backward": 1500,
        "range:inclusive": 500, "policy:where:just-after": 8, "policy:where:just-before": 3, "policy:pass": 10, "policy:warning": 10, "policy:error": 10, "policy:invalid": 10,
        "policy:inside-table": 10, "sweep:first-or-last-days-of-the-tables": 4, "conv:date-reached-by-arithmetic": 3000,
    }
    for a in ts.SCALES:
        for b in ts.SCALES:
            req[f"conv:{a}->{b}"] = 3000
    return req


def setup(ctx, job):
    st = {}
    if job["name"].startswith("policy"):
        records = []

        class H(logging.Handler):
            def emit(self, record):
                records.append(record)

        h = H(level=logging.DEBUG)
        lg = logging.getLogger("beyond.dates.eop")
        lg.addHandler(h)
        lg.setLevel(logging.DEBUG)
        lg.propagate = False
        st["records"] = records
    return st


# ----------------------------------------------------------------------------------------------
def utc_instant(rng, tb, near_midnight=None, lo=None, hi=None):
    """A UTC datetime on the microsecond grid inside the tables, outside leap windows."""
    lo = lo or tb.mjd_min + 3
    hi = hi or tb.mjd_max - 3
    while True:
        day = rng.randint(lo, hi)
        if rng.random() < 0.06:
            # the clock of one of the scales reads EXACTLY midnight (or one microsecond / one second either side): the
            # day roll-over of every label's (day, seconds) pair is hit on its boundary, not only near it
            b = rng.choice(["UTC", "TAI", "TT", "GPS"])
            off = round(ts.offset_from_utc(b, day - 0.001, tb), 6)
            us = -int(round(off * 1e6)) + rng.choice([0, 0, 0, 1, -1, 10 ** 6, -10 ** 6])
            mjd = day + us / 86400e6
            if tb.near_leap(mjd, 125.0):
                continue
            return T0 + dt.timedelta(days=day, microseconds=us), mjd, True
        if near_midnight is None:
            near_midnight = rng.random() < 0.25
        if near_midnight:
            sec = rng.uniform(-70, 70)
        else:
            sec = rng.uniform(0, 86400)
        us = int(round(sec * 1e6))
        mjd = day + us / 86400e6
        if tb.near_leap(mjd, 125.0):
            near_midnight = None
            continue
        return T0 + dt.timedelta(days=day, microseconds=us), mjd, near_midnight


def mjd_of(datetime_):
    d = datetime_ - T0
    return d.days + (d.seconds + d.microseconds * 1e-6) / 86400.0


def forced(job):
    if job["eop"] == "zero":
        return dict(ut1_utc=0.0, tai_utc=0.0)
    if job["eop"] == "const":
        return dict(ut1_utc=0.01756018472222477, tai_utc=36.0)
    return {}


def clock_in(scale, utc_dt, mjd_utc, tb, job):
    """Oracle clock reading of the instant in `scale` (rounded to the microsecond) and the real offset."""
    off = ts.offset_from_utc(scale, mjd_utc, tb, **forced(job))
    return utc_dt + dt.timedelta(seconds=off), off


def us(td):
    return td / US


# ----------------------------------------------------------------------------------------------
def case_sweep(ctx, job, idx, rng, st):
    from beyond.dates import Date

    tb = tables()
    mjd = env.EOP_MJD_MIN + idx
    leap_neighbour = any(abs(mjd - l) <= 1 for l in tb.leap_mjds())
    edge = mjd in (env.EOP_MJD_MIN, env.EOP_MJD_MIN + 1, env.EOP_MJD_MAX - 1, env.EOP_MJD_MAX)  # "for every day of the tables": their first and last days
    if idx % job["stride"] != 0 and not leap_neighbour and not edge:
        return
    if edge:
        ctx.count("sweep:first-or-last-days-of-the-tables")
    rec = tb.record(mjd)
    ctx.case({"mjd": mjd})
    ctx.count("sweep:days")
    for sec in (0.0, 43200.0, 86399.0):
        d = Date(mjd, sec)
        e = d.eop
        w = {"mjd": mjd, "sec": sec}
        for name in ("x", "y", "ut1_utc", "tai_utc", "dx", "dy", "dpsi", "deps", "lod"):
            exp = rec[name]
            got = getattr(e, name)
            if exp is None:
                # blank in the IERS file for this (predicted) day: the library carries the last value forward
                ctx.count(f"sweep:blank:{name}")
                continue
            ctx.expect(got == exp, f"C03/eop-record-{name}", dict(w, field=name, got=got, expected=exp),
                       f"Date({mjd},{sec}).eop.{name} = {got!r}, IERS table says {exp!r}")
    # offsets through the public conversion, midday of that day
    if not leap_neighbour:
        d = Date(mjd, 43200.0)
        for scale, exp in (("TAI", rec["tai_utc"]), ("UT1", rec["ut1_utc"]), ("TT", rec["tai_utc"] + 32.184), ("GPS", rec["tai_utc"] - 19.0)):
            got = (d.change_scale(scale).datetime - d.datetime).total_seconds()
            tol = 2e-6 if scale == "UT1" else 0.0  # two microsecond roundings (conversion + read-out)
            ctx.resid(f"sweep:offset:{scale}", abs(got - round(exp, 6) if scale != "UT1" else got - exp), tol + 1e-9,
                      key=f"C03/offset-UTC-{scale}", witness={"mjd": mjd, "scale": scale, "got": got, "expected": exp},
                      msg=f"{scale}-UTC on MJD {mjd}: {got!r} s, tables say {exp!r}")


def case_conversions(ctx, job, idx, rng, st):
    from beyond.dates import Date

    tb = tables()
    utc_dt, mjd_utc, near = utc_instant(rng, tb)
    ctx.case({"utc": utc_dt.isoformat(), "job": job["name"]})
    if near:
        ctx.count("conv:near-midnight")
    real = job["eop"] == "real"
    day = math.floor(mjd_utc)
    # one day's change of UT1-UTC around the instant (own parser)
    if real:
        diffs = []
        for k in (-1, 0, 1, 2):
            dd = tb.f1980[day + k]["ut1_utc"] - tb.f1980[day + k - 1]["ut1_utc"]
            if abs(dd) > 0.5:  # a leap second: UT1-UTC jumps by one second, that is not a "day's change"
                dd -= math.copysign(1.0, dd)
            diffs.append(abs(dd))
        dut = max(diffs)
    else:
        dut = 0.0
    clocks = {s: clock_in(s, utc_dt, mjd_utc, tb, job) for s in ts.SCALES}
    dates = {}
    for s in ts.SCALES:
        dates[s] = Date(clocks[s][0], scale=s)
    if idx % 3 == 0:
        # history: the dates are not freshly built from their reading but reached by arithmetic (an earlier date of the same
        # scale plus a few hours, forwards or backwards, inside or across the day): the same reading in the same scale is the
        # same date, and it is that object which goes through the conversions below
        for s in ts.SCALES:
            shift = dt.timedelta(microseconds=rng.randint(-20 * 3600 * 10 ** 6, 20 * 3600 * 10 ** 6))
            try:
                made = (Date(clocks[s][0] - shift, scale=s) + shift) if rng.random() < 0.7 else (Date(clocks[s][0] + shift, scale=s) - shift)
            except Exception as exc:
                ctx.violation("C03/arith-raises", {"scale": s, "clock": clocks[s][0].isoformat(), "shift_us": us(shift), "exc": repr(exc)}, repr(exc))
                continue
            delta = (made - dates[s]).total_seconds()
            ctx.count("conv:date-reached-by-arithmetic")
            ctx.resid("conv:date-reached-by-arithmetic vs same reading (s)", abs(delta), 0.0 if s in ts.ATOMIC else 1e-6 + 1e-9,
                      key=f"C03/date-reached-by-arithmetic-is-not-the-date-of-its-reading-{s}",
                      witness={"scale": s, "clock": clocks[s][0].isoformat(), "shift_us": us(shift), "delta": delta, "reading_of_result": made.datetime.isoformat()},
                      msg=f"{s}: a date reached by +- {shift} denotes an instant {delta!r} s away from the date built from the same reading")
            dates[s] = made
    base = dates["UTC"]
    for s1 in ts.SCALES:
        d1 = dates[s1]
        label_day1 = math.floor(mjd_of(clocks[s1][0]))
        for s2 in ts.SCALES:
            ctx.count(f"conv:{s1}->{s2}")
            ctx.count("conv:pairs")
            atomic = s1 in ts.ATOMIC and s2 in ts.ATOMIC
            w = {"utc": utc_dt.isoformat(), "from": s1, "to": s2, "clock_from": clocks[s1][0].isoformat(), "eop": job["eop"]}
            try:
                d2 = d1.change_scale(s2)
            except Exception as exc:
                ctx.violation("C03/change_scale-raises", dict(w, exc=repr(exc)), repr(exc))
                continue
            ctx.expect(d2.scale.name == s2, "C03/scale-label", w, f"change_scale({s2}) labelled {d2.scale}")
            label_day2 = math.floor(mjd_of(clocks[s2][0]))
            # the known mechanism: EOP (UT1-UTC) looked up with the MJD of the label, not of the UTC day
            day_mismatch = real and (label_day1 != day or label_day2 != day) and ("UT1" in (s1, s2))

            def classify(delta_s, clause):
                if day_mismatch and abs(delta_s) <= dut + 2e-6:
                    return "C03/eop-day-lookup-by-label"
                return f"C03/{clause}-{s1}-{s2}"

            # (a) offset clause: difference of clock readings == tabulated offset
            exp_off = clocks[s2][1] - clocks[s1][1]
            got_off = (d2.datetime - d1.datetime).total_seconds()
            if atomic:
                err = abs(got_off - round(exp_off, 6))
                tol = 1e-9
            else:
                # observed through clock readings: oracle rounding of the source clock (0.5 us), construction and
                # read-out of d1 (2 x 0.5), timedelta rounding of the offset (0.5), read-out of d2 (2 x 0.5) => < 3.5 us
                # (worst observed 2.0 us over 1.4e6 pairs); any real offset error is >= 1 ms (a day's dUT1) or 1 s
                err = abs(got_off - exp_off)
                tol = 4.0e-6
            ctx.resid("conv:offset:" + ("atomic" if atomic else "ut1tdb"), err, tol, key=classify(got_off - exp_off, "offset"),
                      witness=dict(w, got=got_off, expected=exp_off), msg=f"{s2}-{s1} observed {got_off!r} s, tables give {exp_off!r} s")
            # (b) same instant
            delta = (d2 - d1).total_seconds()
            if atomic:
                ctx.expect(d1 == d2 and not (d1 < d2) and not (d1 > d2), "C03/eq-ulp-boundary" if abs(delta) < 1e-6 else f"C03/instant-{s1}-{s2}",
                           dict(w, delta=delta), f"{s1}->{s2}: converted date does not compare equal (delta {delta!r} s)")
                ctx.expect(base == d2, "C03/eq-ulp-boundary" if abs((d2 - base).total_seconds()) < 1e-6 else f"C03/instant-{s1}-{s2}",
                           dict(w, delta=(d2 - base).total_seconds()), "converted date != the same instant labelled UTC")
            else:
                ctx.resid("conv:instant:ut1tdb", abs(delta), 1.0e-6 + 1e-9, key=classify(delta, "instant"), witness=dict(w, delta=delta),
                          msg=f"{s1}->{s2} moved the instant by {delta!r} s")
            # (c) round trip
            try:
                d3 = d2.change_scale(s1)
            except Exception as exc:
                ctx.violation("C03/change_scale-raises", dict(w, exc=repr(exc), back=True), repr(exc))
                continue
            rt = (d3.datetime - d1.datetime).total_seconds()
            if s1 == "UT1" or s2 == "UT1":
                tol = dut + 2e-6 if real else 2e-6
                ctx.resid("conv:roundtrip:ut1", abs(rt), tol + 1e-9, key=f"C03/roundtrip-{s1}-{s2}", witness=dict(w, delta=rt, allowed=tol),
                          msg=f"{s1}->{s2}->{s1} clock reading moved by {rt!r} s (allowed {tol!r})")
            else:
                ctx.resid("conv:roundtrip", abs(rt), 2e-6 + 1e-9, key=f"C03/roundtrip-{s1}-{s2}", witness=dict(w, delta=rt),
                          msg=f"{s1}->{s2}->{s1} clock reading moved by {rt!r} s")
            # TDB-TT magnitude
            if s1 == "TT" and s2 == "TDB":
                ctx.resid("conv:tdb-tt-magnitude", abs(got_off), 1.7e-3, key="C03/tdb-tt-magnitude", witness=dict(w, got=got_off))

    # sub-microsecond float MJD input: |delta| <= 1 us demanded, exact-equality rate recorded
    mjd_f = mjd_utc + rng.uniform(-3e-12, 3e-12) * 86400
    for s1 in ("UTC", "TAI", "TT", "GPS"):
        d1 = Date(mjd_f, scale=s1)
        for s2 in ("UTC", "TAI", "TT", "GPS"):
            d2 = d1.change_scale(s2)
            ctx.resid("conv:float-mjd-instant", abs((d2 - d1).total_seconds()), 1e-6 + 1e-9, key=f"C03/instant-floatmjd-{s1}-{s2}",
                      witness={"mjd": mjd_f, "from": s1, "to": s2})
            ctx.count("conv:float-mjd-exactly-equal" if d1 == d2 else "conv:float-mjd-not-exactly-equal")


def rand_date(rng, tb, scales=("TAI", "TT", "GPS", "UTC")):
    from beyond.dates import Date

    utc_dt, mjd_utc, _ = utc_instant(rng, tb, near_midnight=rng.random() < 0.1)
    s = rng.choice(scales)
    clock, _ = clock_in(s, utc_dt, mjd_utc, tb, {"eop": "real"})
    return Date(clock, scale=s), s, utc_dt, mjd_utc, clock


def rand_timedelta(rng):
    kind = rng.choice(["us", "s", "h", "d", "y", "neg"])
    if kind == "us":
        return dt.timedelta(microseconds=rng.randint(1, 999999))
    if kind == "s":
        return dt.timedelta(microseconds=rng.randint(1, 3600 * 10 ** 6))
    if kind == "h":
        return dt.timedelta(microseconds=rng.randint(1, 86400 * 10 ** 6))
    if kind == "d":
        return dt.timedelta(microseconds=rng.randint(1, 400 * 86400 * 10 ** 6))
    if kind == "y":
        return dt.timedelta(microseconds=rng.randint(1, 40 * 365 * 86400 * 10 ** 6))
    return -rand_timedelta(rng)


def leap_between(tb, mjd_a, mjd_b):
    lo, hi = min(mjd_a, mjd_b), max(mjd_a, mjd_b)
    return any(lo - 0.01 <= l <= hi + 0.01 for l in tb.leap_mjds())


def case_arith(ctx, job, idx, rng, st):
    tb = tables()
    d, s, utc_dt, mjd_utc, clock = rand_date(rng, tb)
    t1, t2 = rand_timedelta(rng), rand_timedelta(rng)
    lo, hi = tb.mjd_min + 1, tb.mjd_max - 1

    def inside(td):
        m = mjd_utc + td.total_seconds() / 86400
        return lo < m < hi and not tb.near_leap(m, 130.0)

    if not (inside(t1) and inside(t1 + t2) and inside(t2)):
        raise env.HarnessSkip()
    if s == "UTC" and (leap_between(tb, mjd_utc, mjd_utc + t1.total_seconds() / 86400) or leap_between(tb, mjd_utc, mjd_utc + (t1 + t2).total_seconds() / 86400)
                       or leap_between(tb, mjd_utc, mjd_utc + t2.total_seconds() / 86400)):
        raise env.HarnessSkip()  # "UTC when no leap second intervenes"
    ctx.case({"date": clock.isoformat(), "scale": s, "t1_us": us(t1), "t2_us": us(t2)})
    ctx.count("arith:laws")
    ctx.count("arith:scale:" + s)
    w = {"date": clock.isoformat(), "scale": s, "t1_us": us(t1), "t2_us": us(t2)}
    try:
        a = d + t1
        back = a - d
        ctx.resid("arith:(d+t)-d", abs(us(back - t1)), 1.0, key=f"C03/arith-add-sub-{s}", witness=dict(w, got_us=us(back)),
                  msg=f"(d+t)-d = {back!r}, t = {t1!r}")
        # clock reading of d+t is the clock reading of d plus t (uniform scale)
        ctx.resid("arith:clock(d+t)", abs(us((a.datetime - clock) - t1)), 1.0, key=f"C03/arith-clock-{s}", witness=dict(w, got=a.datetime.isoformat()),
                  msg=f"(d+t).datetime = {a.datetime}, expected {clock + t1}")
        ctx.expect(a.scale.name == s, "C03/arith-scale-label", w, "d+t changed the scale label")
        left = d + (t1 + t2)
        right = (d + t1) + t2
        ctx.resid("arith:assoc", abs(us(left - right)), 1.0, key=f"C03/arith-assoc-{s}", witness=w, msg=f"d+(t1+t2) - ((d+t1)+t2) = {left - right!r}")
        # subtraction of a timedelta is addition of its negative
        m = d - t1
        ctx.resid("arith:d-t", abs(us((m.datetime - clock) + t1)), 1.0, key=f"C03/arith-sub-{s}", witness=w)
        # ordering follows the sign of t
        ctx.expect((a > d) == (t1 > dt.timedelta(0)) and (a < d) == (t1 < dt.timedelta(0)), f"C03/arith-order-{s}", w, "order of d+t vs d")
    except env.HarnessSkip:
        raise
    except Exception as exc:
        ctx.violation("C03/arith-raises", dict(w, exc=repr(exc)), repr(exc))


def case_order(ctx, job, idx, rng, st):
    from beyond.dates import Date

    tb = tables()
    utc_dt, mjd_utc, _ = utc_instant(rng, tb, near_midnight=rng.random() < 0.1)
    mode = rng.choice(["same-instant", "same-instant-arith", "distinct"])
    sa, sb = rng.choice(list(ts.ATOMIC)), rng.choice(list(ts.ATOMIC))
    ca, _ = clock_in(sa, utc_dt, mjd_utc, tb, job)
    a = Date(ca, scale=sa)
    w = {"utc": utc_dt.isoformat(), "mode": mode, "sa": sa, "sb": sb}
    if mode == "distinct":
        delta = rng.choice([1, -1]) * dt.timedelta(microseconds=rng.choice([2, 3, 10, 1000, 10 ** 6, 86400 * 10 ** 6, rng.randint(2, 10 ** 12)]))
        m2 = mjd_utc + delta.total_seconds() / 86400
        if not (tb.mjd_min + 1 < m2 < tb.mjd_max - 1) or tb.near_leap(m2, 130.0) or leap_between(tb, mjd_utc, m2):
            raise env.HarnessSkip()
        cb, _ = clock_in(sb, utc_dt + delta, m2, tb, job)
        b = Date(cb, scale=sb)
        later = delta > dt.timedelta(0)
        ctx.case(dict(w, delta_us=us(delta)))
        ctx.count("order:distinct-pairs")
        w["delta_us"] = us(delta)
        ctx.expect((b > a) == later and (a < b) == later and (b < a) == (not later) and (a > b) == (not later) and a != b and not (a == b),
                   "C03/order-distinct-instants", w, f"order of two instants {us(delta)} us apart labelled {sa}/{sb}")
        ctx.expect((a <= b) == later and (a >= b) == (not later), "C03/order-le-ge", w, "<= / >= inconsistent")
        ctx.expect(len({a, b}) == 2, "C03/set-distinct", w, "two different instants collapse in a set")
        return
    if mode == "same-instant":
        cb, _ = clock_in(sb, utc_dt, mjd_utc, tb, job)
        b = Date(cb, scale=sb)
    else:
        # the same instant reached through arithmetic: (a + t) - t in another label
        t = rand_timedelta(rng)
        m2 = mjd_utc + t.total_seconds() / 86400
        if not (tb.mjd_min + 1 < m2 < tb.mjd_max - 1) or tb.near_leap(m2, 130.0) or leap_between(tb, mjd_utc, m2):
            raise env.HarnessSkip()
        cb, _ = clock_in(sb, utc_dt + t, m2, tb, job)
        b = Date(cb, scale=sb) - t if sb != "UTC" else Date(cb, scale=sb).change_scale("TAI") - t
        w["t_us"] = us(t)
    ctx.case(w)
    ctx.count("order:same-instant-pairs")
    exact_same = abs(us(b - a)) == 0
    eq = a == b
    # trichotomy always
    n_true = sum([bool(a < b), bool(eq), bool(a > b)])
    ctx.expect(n_true == 1, "C03/order-trichotomy", w, f"a<b, a==b, a>b = {a < b}, {eq}, {a > b}")
    ctx.expect((a <= b) == (a < b or eq) and (a >= b) == (a > b or eq), "C03/order-le-ge", w, "<= / >= inconsistent with < / ==")
    # equality => equal hashes (hash/eq contract), whatever the labels
    if eq:
        ctx.count("order:equal-pairs")
        ctx.expect(hash(a) == hash(b), "C03/hash-differs-for-equal-dates", dict(w, a=str(a), b=str(b)),
                   f"{a} == {b} but hash(a) != hash(b)")
        ctx.expect(len({a, b}) == 1 and (b in {a: 1}), "C03/set-membership-for-equal-dates", dict(w, a=str(a), b=str(b)),
                   "equal dates are two different set/dict keys")
    if mode == "same-instant":
        ctx.expect(eq, "C03/eq-ulp-boundary" if exact_same else "C03/eq-same-instant", dict(w, a=str(a), b=str(b)),
                   f"same instant labelled {sa} and {sb} does not compare equal")
    else:
        # arithmetic path: to the microsecond
        ctx.resid("order:arith-path", abs(us(b - a)), 1.0, key="C03/arith-path-instant", witness=w)


class RangeModel:
    """Integer-microsecond model of Date.range(start, stop, step, inclusive)."""

    def __init__(self, start_us, stop_us, step_us, inclusive):
        self.start, self.stop, self.step, self.inclusive = start_us, stop_us, step_us, inclusive

    def elements(self):
        out, x = [], self.start
        if self.step > 0:
            while x < self.stop or (self.inclusive and x == self.stop):
                out.append(x)
                x += self.step
        else:
            while x > self.stop or (self.inclusive and x == self.stop):
                out.append(x)
                x += self.step
        return out


def case_range(ctx, job, idx, rng, st):
    from beyond.dates import Date

    tb = tables()
    d, s, utc_dt, mjd_utc, clock = rand_date(rng, tb, scales=("TAI", "TT", "GPS", "UTC"))
    n_target = rng.choice([0, 1, 2, 3, 7, 20, 60])
    step_us = rng.choice([1, 1000, 10 ** 6, 60 * 10 ** 6, 3600 * 10 ** 6, rng.randint(1, 10 ** 9), rng.randint(1, 10 ** 11)])
    divides = rng.random() < 0.5
    span_us = n_target * step_us + (0 if divides else rng.randint(1, max(1, step_us - 1)) if step_us > 1 else 0)
    backward = rng.random() < 0.5
    inclusive = rng.random() < 0.5
    sign = -1 if backward else 1
    m2 = mjd_utc + sign * span_us / 86400e6
    if not (tb.mjd_min + 1 < m2 < tb.mjd_max - 1) or leap_between(tb, mjd_utc, m2) or tb.near_leap(m2, 130):
        raise env.HarnessSkip()
    if span_us == 0 and backward:
        raise env.HarnessSkip()  # sign of a zero span is +: (start==stop, negative step) is refused by the constructor
    step = dt.timedelta(microseconds=sign * step_us)
    span = dt.timedelta(microseconds=sign * span_us)
    stop_as_td = rng.random() < 0.5
    w = {"start": clock.isoformat(), "scale": s, "span_us": sign * span_us, "step_us": sign * step_us, "inclusive": inclusive, "stop_as_timedelta": stop_as_td}
    ctx.case(w, nontrivial=span_us > 0)
    ctx.count("range:backward" if backward else "range:forward")
    if inclusive:
        ctx.count("range:inclusive")
    model = RangeModel(0, sign * span_us, sign * step_us, inclusive).elements()
    try:
        r = Date.range(d, span if stop_as_td else d + span, step, inclusive=inclusive)
        got = list(r)
        ln = len(r)
    except Exception as exc:
        ctx.violation("C03/range-raises", dict(w, exc=repr(exc)), repr(exc))
        return
    dirn = "backward" if backward else "forward"
    ctx.expect(ln == len(got), f"C03/range-len-vs-iter-{dirn}", dict(w, len=ln, iterated=len(got), model=len(model)),
               f"len(range) = {ln} but iteration yields {len(got)} dates (model {len(model)})")
    ctx.expect(len(got) == len(model), f"C03/range-iter-count-{dirn}", dict(w, iterated=len(got), model=len(model)),
               f"iteration yields {len(got)} dates, integer model {len(model)}")
    for k, (g, m) in enumerate(zip(got, model)):
        off = us(g.datetime - clock)
        if not ctx.resid("range:element", abs(off - m), 1.0, key=f"C03/range-element-{dirn}", witness=dict(w, k=k, got_us=off, model_us=m)):
            break
    # membership: every yielded date is in the range
    missing = [k for k, g in enumerate(got) if g not in r]
    ctx.expect(not missing, f"C03/range-contains-{dirn}-step", dict(w, first_missing=missing[:3], n=len(got)),
               f"{len(missing)} of {len(got)} yielded dates are reported 'not in' the range")
    if span_us > 0:
        stop_date = d + span
        ctx.expect((stop_date in r) == inclusive, f"C03/range-contains-stop-{dirn}", w, f"stop in range = {stop_date in r}, inclusive = {inclusive}")
        before = d - step  # one step before start (outside)
        beyond_ = d + span + step  # one step beyond stop (outside)
        ctx.expect(before not in r and beyond_ not in r, f"C03/range-contains-outside-{dirn}", w, "a date outside [start, stop] is reported in the range")


def case_policy(ctx, job, idx, rng, st):
    from beyond.dates import Date
    from beyond.config import config
    from beyond.errors import EopError, ConfigError

    notables = job["name"] == "policy-notables"
    policy = ["pass", "warning", "error", "bogus-policy"][idx % 4]
    # the four policies are applied in turn (idx % 4) to dates of the SAME calendar day (idx // 4 selects the day):
    # a lookup must consult the policy every time, whatever was looked up before in this process
    import random as _random

    grp = _random.Random(f"{ctx.seed}:policy-day:{idx // 4}")
    if notables:
        mjd = grp.randint(41684, 57802) + rng.random()
        covered = False
    else:
        # "just-after" / "just-before": the days next to the tabulated span (the IERS files end with rows whose values are
        # blank -- predictions not yet made -- which are no data either)
        where = ["before", "after", "inside", "just-after", "just-after", "just-before"][(idx // 4) % 6]  # every class, every run
        mjd = {"before": grp.randint(30000, 41680), "after": grp.randint(57810, 70000), "inside": grp.randint(41690, 57800),
               "just-after": grp.randint(env.EOP_MJD_MAX + 1, env.EOP_MJD_MAX + 60), "just-before": grp.randint(env.EOP_MJD_MIN - 20, env.EOP_MJD_MIN - 1)}[where] + rng.random()
        covered = where == "inside"
        ctx.count("policy:where:" + where)
    scale = rng.choice(ts.SCALES)
    config.set("eop", "missing_policy", policy)
    st["records"].clear()
    w = {"mjd": mjd, "scale": scale, "policy": policy, "tables": not notables, "covered": covered}
    ctx.case(w)
    try:
        d = Date(mjd, scale=scale)
        raised = None
    except Exception as exc:
        d, raised = None, exc
    finally:
        config.set("eop", "missing_policy", "pass")
    warns = [r for r in st["records"] if r.levelno >= logging.WARNING]
    if covered:
        ctx.count("policy:inside-table")
        ctx.expect(raised is None and not warns, "C03/policy-covered-date-disturbed", dict(w, raised=repr(raised), warnings=len(warns)),
                   "a date covered by the tables raised or warned")
        if d is not None:
            rec = tables().record(int(mjd))
            ctx.expect(d.eop.tai_utc == rec["tai_utc"] or tables().near_leap(mjd, 90000), "C03/policy-covered-values", w, "covered date got wrong TAI-UTC")
        return
    zero = d is not None and all(getattr(d.eop, k) == 0 for k in ("x", "y", "dx", "dy", "dpsi", "deps", "lod", "ut1_utc", "tai_utc"))
    if policy == "pass":
        ctx.count("policy:pass")
        ctx.expect(raised is None and zero and not warns, "C03/policy-pass", dict(w, raised=repr(raised), warnings=len(warns)),
                   "policy 'pass': expected zero corrections silently")
    elif policy == "warning":
        ctx.count("policy:warning")
        ctx.expect(raised is None and zero and len(warns) >= 1, "C03/policy-warning", dict(w, raised=repr(raised), warnings=len(warns)),
                   "policy 'warning': expected zero corrections and a warning")
    elif policy == "error":
        ctx.count("policy:error")
        ctx.expect(isinstance(raised, (EopError, KeyError)), "C03/policy-error", dict(w, raised=repr(raised)), "policy 'error': expected EopError/KeyError")
    else:
        ctx.count("policy:invalid")
        ctx.expect(isinstance(raised, ConfigError), "C03/policy-invalid", dict(w, raised=repr(raised)), "invalid policy value: expected ConfigError")


def run_case(ctx, job, idx, rng, st):
    name = job["name"]
    if name == "table-sweep":
        case_sweep(ctx, job, idx, rng, st)
    elif name.startswith("conversions"):
        case_conversions(ctx, job, idx, rng, st)
    elif name == "arith":
        case_arith(ctx, job, idx, rng, st)
    elif name == "order":
        case_order(ctx, job, idx, rng, st)
    elif name == "range":
        case_range(ctx, job, idx, rng, st)
    else:
        case_policy(ctx, job, idx, rng, st)
