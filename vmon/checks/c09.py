"""C09 -- ephemeris interpolation is exact at nodes and accurate between them.

Monitors
  * reference model (exact rational arithmetic): Interp / DatedInterp / Ephem.interpolate / Ephem.propagate
    are fed tables of polynomials of degree < order (Lagrange) and arbitrary node values (linear); the
    truth at a query is computed with fractions.Fraction from the float abscissae, the accepted error is the
    derived rounding bound of the evaluation scheme for the window actually used.
  * invariant hook on Interp._lagrange / Interp._linear: the abscissa array of the instance is replaced for
    the duration of the call by a view that records slices, so the (start, stop) of the selected window is
    observed without touching the source: length == order, inside the table, start >= 0 (a negative start
    would silently wrap around), the query lies inside the hull of the window (no extrapolation).
  * node exactness, refusal outside the table (1 ulp / 1 us / far), frame, form and date of the result.
  * smooth two-body orbit (oracle kepler_uv) sampled uniformly / with 20 % jitter: error against the true
    position in every interval, the first/last ceil(order/2) intervals over-sampled.
"""

import math
from datetime import datetime, timedelta
from fractions import Fraction

import numpy as np

from .. import probe
from ..oracles import elements as el
from ..oracles import kepler_uv

RULE = (
    "case = (interpolator class, method, order 2..12, table length order..order+40, sampling uniform/jittered, "
    "table values: polynomial of degree < order / random nodes / two-body orbit) with queries at every node, in every "
    "interval (first and last ceil(order/2) intervals over-sampled), one ulp inside the ends and outside the table; "
    "orders and lengths are swept deterministically, everything else is drawn from the case PRNG; "
    "distinct = digest of the generated numbers; non-trivial = table longer than the order or more than one interval"
)
EXHAUSTIVE = ["jobs 'interp' and 'dated': every (order 2..12, table length order..order+40) pair is visited (451 pairs per sweep, >= 2 sweeps "
              "in the quick tier); abscissae, values and queries inside a pair are sampled, not enumerated"]
ASSUMPTIONS = [
    "fractions.Fraction arithmetic on the float abscissae/ordinates is exact; float(Fraction) is correctly rounded",
    "DatedInterp's abscissa of a Date is Date._mjd (read from the library object): the polynomial tables of the dated "
    "jobs are polynomials in that float, so the float-MJD quantisation (0.63 us) does not enter those oracles",
    "vmon/oracles/kepler_uv.py is the true two-body motion (checked against the library by C05); Earth mu is a constant",
    "'exactly' at a node is demanded bit for bit for the Lagrange method (weights are exactly 1 and 0); for the linear "
    "method y0 + ((y1 - y0) * dx) / dx rounds four times, so equality is demanded to 8 * 2^-53 * (|y0| + |y1|) and the "
    "bitwise rate is recorded",
    "'within centimetres': 1 cm in the middle intervals, 5 cm in the first/last ceil(order/2) intervals, or the derived "
    "bound (float-MJD quantisation x Lebesgue function of the window + truncation) where that is larger",
]

U = 2.0 ** -53
US = 1000000
MU = 3.986004418e14
MJD_HALF_ULP_S = 0.5 * 7.275957614183426e-12 * 86400  # half an ulp of a float MJD near 5e4 days, in seconds


def jobs(tier):
    q = tier == "quick"
    return [
        {"name": "interp", "n": 1600 if q else 32000, "eop": "zero"},
        {"name": "dated", "n": 1200 if q else 24000, "eop": "zero"},
        {"name": "kepler", "n": 480 if q else 9600, "eop": "zero"},
        {"name": "reuse", "n": 600 if q else 12000, "eop": "zero"},
    ]


def requirements(tier):
    req = {f"order:{k}": 20 for k in range(2, 13)}
    req.update({"reuse:order": 100, "reuse:method": 100, "reuse:form": 100, "reuse:frame": 100, "reuse:settings-then-form-or-frame-assigned": 80, "reuse:converted-by-copy": 40,
                "query-in-another-scale-than-the-table": 3000})
    req.update({
        "window-checked": 20000, "node-exact-lagrange": 5000, "node-linear": 1000, "poly-reproduced": 10000,
        "linear-reproduced": 2000, "refusal-outside": 3000, "labels-checked": 2000, "kepler-accuracy": 5000,
        "kepler-accuracy:end-interval": 1000, "kepler-accuracy:middle": 1000, "sampling:uniform": 200, "sampling:jittered": 200,
        "table:length==order": 50, "table:length>order+30": 50, "window:left-edge": 500, "window:right-edge": 500,
        "window:interior": 2000, "class:Interp": 100, "class:DatedInterp": 100, "class:Ephem.interpolate": 100,
        "class:Ephem.propagate": 100, "query:ulp-inside-first": 200, "query:ulp-inside-last": 200,
        "kepler-config:default-order8-60s": 50,
    })
    return req


# ------------------------------------------------------------------------------------------------
class SliceSpy(np.ndarray):
    """ndarray view that records the (start, stop) of every slice taken from it."""

    log = None

    def __getitem__(self, key):
        if isinstance(key, slice) and SliceSpy.log is not None:
            SliceSpy.log.append((key.start, key.stop))
        return super().__getitem__(key)


def setup(ctx, job):
    from beyond.utils.interp import Interp

    st = {"win": [], "orig": {}}

    def wrap(name):
        orig = Interp.__dict__[name]
        st["orig"][name] = orig

        def wrapper(self, x):
            xs = self.xs
            log = []
            SliceSpy.log = log
            self.xs = np.asarray(xs).view(SliceSpy)
            try:
                return orig(self, x)
            finally:
                self.xs = xs
                SliceSpy.log = None
                full = [(a, b) for a, b in log if a is not None and b is not None]
                st["win"].append({"method": name, "x": x, "slices": full, "n": len(xs), "order": self.order})

        setattr(Interp, name, wrapper)

    wrap("_lagrange")
    wrap("_linear")
    return st


def finish(ctx, job, st):
    from beyond.utils.interp import Interp

    for name, orig in st["orig"].items():
        setattr(Interp, name, orig)


# ------------------------------------------------------------------------------------------------
def lagrange_abs_sum(xs, ys_abs, x):
    """sum_j |l_j(x)| * ys_abs[j] and the Lebesgue function sum_j |l_j(x)| (float; used only in bounds)."""
    k = len(xs)
    s = 0.0
    lam = 0.0
    for j in range(k):
        l = 1.0
        for m in range(k):
            if m != j:
                l *= (x - xs[m]) / (xs[j] - xs[m])
        lam += abs(l)
        s += abs(l) * ys_abs[j]
    return s, lam


def omega_abs(xs, x):
    p = 1.0
    for xm in xs:
        p *= abs(x - xm)
    return p


class Poly:
    """Polynomial in the normalised variable s = (x - c) / L with exact rational evaluation."""

    def __init__(self, rng, degree, c, L):
        self.c, self.L = Fraction(c), Fraction(L)
        self.coef = [Fraction(rng.uniform(-1, 1)) for _ in range(degree + 1)]
        if degree >= 0 and rng.random() < 0.5:
            self.coef[-1] = Fraction(rng.choice([-1.0, 1.0]))  # make sure the leading term is not small
        self.degree = degree

    def __call__(self, x):
        s = (Fraction(x) - self.c) / self.L
        acc = Fraction(0)
        for a in reversed(self.coef):
            acc = acc * s + a
        return acc


def check_window(ctx, rec, xs, x, witness):
    """Invariant on the window selected by the real _lagrange / _linear (from the recorded slice)."""
    n = len(xs)
    ctx.count("window-checked")
    w = dict(witness, x=float(x), recorded=rec["slices"], n=n)
    if not rec["slices"]:
        ctx.violation("C09/window-not-observed", w, "no table slice was taken during the call")
        return None
    start, stop = rec["slices"][0]
    if rec["method"] == "_linear":
        ok = start >= 0 and stop == start + 2 and stop <= n and xs[start] <= x <= xs[start + 1]
        ctx.expect(ok, "C09/linear-bracket-wrong", dict(w, start=start, stop=stop),
                   f"linear interpolation at x used nodes [{start}:{stop}] which do not bracket x")
        return (start, min(stop, n)) if ok else None
    k = rec["order"]
    eff = min(stop, n)
    if start < 0:
        ctx.violation("C09/window-negative-start", dict(w, start=start, stop=stop), f"window start {start} < 0 (wraps around)")
        return None
    if eff - start != k:
        ctx.violation("C09/window-length", dict(w, start=start, stop=stop), f"window [{start}:{stop}] has {eff - start} nodes, order {k}")
        return None
    inside = xs[start] <= x <= xs[eff - 1]
    ctx.expect(inside, "C09/window-extrapolates", dict(w, start=start, stop=stop),
               f"x = {x!r} lies outside the hull [{xs[start]!r}, {xs[eff - 1]!r}] of the selected window (extrapolation inside the table)")
    if start == 0:
        ctx.count("window:left-edge")
    if eff == n:
        ctx.count("window:right-edge")
    if start > 0 and eff < n:
        ctx.count("window:interior")
        # recorded, not judged: is the bracketing interval the central one?
        left = int(np.searchsorted(xs[start:eff], x, side="left"))  # nodes strictly below x
        if abs(left - (k - left)) <= 1 + (k % 2):
            ctx.count("window:interior-centred")
        else:
            ctx.count("window:interior-off-centre")
    return (start, eff) if inside else None


def table_abscissae(rng, n, uniform):
    """Strictly increasing float abscissae: plain floats for Interp."""
    x0 = rng.choice([0.0, -3.7, 1e3, 5.5e4, rng.uniform(-1e5, 1e5)])
    h = 10 ** rng.uniform(-3, 2)
    xs, x = [], x0
    for _ in range(n):
        xs.append(x)
        x += h if uniform else h * rng.uniform(0.8, 1.2)
    return xs


def query_points(rng, xs, k):
    """(x, tag) list: all nodes, one point in every interval, 3 more in the first/last ceil(k/2) intervals,
    one ulp inside both ends, points one ulp off a node."""
    n = len(xs)
    out = [(x, "node") for x in xs]
    edge = (k + 1) // 2
    for i in range(n - 1):
        reps = 4 if (i < edge or i >= n - 1 - edge) else 1
        for _ in range(reps):
            t = rng.choice([rng.random(), rng.random(), 0.5, 1e-9, 1 - 1e-9])
            x = xs[i] + (xs[i + 1] - xs[i]) * t
            if xs[i] < x < xs[i + 1]:
                out.append((x, "inside"))
    out.append((math.nextafter(xs[0], math.inf), "ulp-inside-first"))
    out.append((math.nextafter(xs[-1], -math.inf), "ulp-inside-last"))
    for _ in range(3):
        j = rng.randrange(n)
        x = math.nextafter(xs[j], rng.choice([-math.inf, math.inf]))
        if xs[0] <= x <= xs[-1]:
            out.append((x, "ulp-off-node"))
    return out


def outside_points(rng, xs):
    span = xs[-1] - xs[0]
    return [
        (math.nextafter(xs[0], -math.inf), "ulp-before"), (math.nextafter(xs[-1], math.inf), "ulp-after"),
        (xs[0] - span * rng.uniform(1e-6, 3), "before"), (xs[-1] + span * rng.uniform(1e-6, 3), "after"),
        (xs[0] - 1e6 * max(1.0, abs(xs[0])), "far-before"), (xs[-1] + 1e6 * max(1.0, abs(xs[-1])), "far-after"),
    ]


def pick_order_length(idx, rng):
    """Deterministic sweep of the 11 x 41 grid (order 2..12) x (length order..order+40): every 451 consecutive
    cases visit every pair once; every 4th sweep is spent on the minimal tables (length == order)."""
    k = 2 + idx % 11
    extra = (idx // 11) % 41
    if (idx // 451) % 4 == 3:
        extra = 0
    return k, k + extra


# ------------------------------------------------------------------------------------------------
def run_case(ctx, job, idx, rng, st):
    if job["name"] == "interp":
        return interp_case(ctx, job, idx, rng, st)
    if job["name"] == "dated":
        return dated_case(ctx, job, idx, rng, st)
    if job["name"] == "reuse":
        return reuse_case(ctx, job, idx, rng, st)
    return kepler_case(ctx, job, idx, rng, st)


def reuse_case(ctx, job, idx, rng, st):
    """History: an Ephem that has ALREADY interpolated once gets new settings (order, method) or a new form / frame;
    what it returns afterwards must obey the property for the settings / form it then reports."""
    import datetime as dt
    from fractions import Fraction

    from beyond.dates import Date
    from beyond.orbits import StateVector, Ephem

    n = rng.randint(13, 25)
    # nodes at whole days from an integer MJD: every abscissa is exactly representable
    mjd0 = rng.randint(50000, 58000)
    k0 = rng.choice([2, 3, 5, 8])
    k1 = rng.choice([k for k in (4, 6, 7, 9, 11, 12) if k != k0 and k <= n])
    deg = k1 - 1  # reproduced by order k1, not by a lower order
    coeffs = [[rng.uniform(-1, 1) * 7e6 / (n ** j) for j in range(deg + 1)] for _ in range(6)]

    def poly(c, x):
        acc = Fraction(0)
        for j, cj in enumerate(c):
            acc += Fraction(cj) * Fraction(x) ** j
        return float(acc)

    def values(x):
        return [poly(c, x) for c in coeffs]

    dates = [Date(mjd0 + i, 0.0, scale="TAI") for i in range(n)]
    nodes = [StateVector(values(i), dates[i], "cartesian", "EME2000") for i in range(n)]
    scen = ["order", "method", "form", "frame"][idx % 4]
    w = {"scenario": scen, "n": n, "mjd0": mjd0, "order_first": k0, "order_then": k1}
    ctx.case(dict(w, coeffs0=coeffs[0][:3]))
    ctx.count("reuse:" + scen)
    qs = [i + f for i in rng.sample(range(n - 1), 5) for f in (0.25, 0.5)]

    def qdate(x):
        return Date(mjd0 + int(x), (x - int(x)) * 86400.0, scale="TAI")

    def rebuild(e):
        """Half of the time: after the new settings, the form or the frame of the ephemeris is assigned again (to what it
        already is: the numbers do not change) -- the interpolator is rebuilt, the settings just chosen must survive."""
        how = rng.choice([None, None, "form", "frame"])
        if how == "form":
            e.form = "cartesian"
        elif how == "frame":
            e.frame = "EME2000"
        if how:
            ctx.count("reuse:settings-then-form-or-frame-assigned")
        w["then"] = how
        return how

    try:
        eph = Ephem(nodes, method="lagrange" if scen != "method" else rng.choice(["lagrange", "linear"]), order=k0)
        eph.interpolate(qdate(qs[0]))  # first use: the interpolator now exists
        scale = max(abs(v) for i in range(n) for v in values(i)[:3])
        if scen == "order":
            eph.order = k1
            rebuilt = rebuild(eph)
            ctx.expect(eph.order == k1, "C09/reuse-order-not-reported", dict(w, then=rebuilt), "ephem.order does not report the value just set")
            for x in qs:
                got = np.asarray(eph.interpolate(qdate(x)), dtype=float)
                err = float(np.max(np.abs(got - np.array(values(x)))))
                # order k1 reproduces the degree k1-1 polynomial (bound as in the fresh-object job); a stale lower order misses by >> 1e-6 scale
                ctx.resid("reuse:poly-after-order-change", err, 1e-7 * scale, key="C09/reuse-interpolator-ignores-new-order", witness=dict(w, x=x, err=err),
                          msg=f"after a first use, order set to {k1}: degree-{deg} polynomial missed by {err:.3g} (scale {scale:.3g})")
        elif scen == "method":
            new = "linear" if eph.method == "lagrange" else "lagrange"
            eph.method = new
            if new == "lagrange":
                eph.order = k1
            rebuilt = rebuild(eph)
            ctx.expect(eph.method == new and (new != "lagrange" or eph.order == k1), "C09/reuse-method-not-reported", dict(w, then=rebuilt),
                       "ephem.method / order do not report the values just set")
            for x in qs:
                got = np.asarray(eph.interpolate(qdate(x)), dtype=float)
                if new == "linear":
                    i0 = int(x)
                    a, b = np.array(values(i0)), np.array(values(i0 + 1))
                    ref = a + (b - a) * (x - i0)
                else:
                    ref = np.array(values(x))
                err = float(np.max(np.abs(got - ref)))
                ctx.resid("reuse:after-method-change", err, 1e-7 * scale, key="C09/reuse-interpolator-ignores-new-method", witness=dict(w, x=x, err=err, method=new),
                          msg=f"after a first use, method set to {new}: result off by {err:.3g} from what that method defines")
        else:
            # physical states so that form / frame conversions are defined
            from ..oracles import elements as el

            mu = 3.986004418e14
            r0, v0 = el.kep2cart(rng.uniform(7e6, 9e6), rng.uniform(0.01, 0.2), rng.uniform(0.3, 2.5), 1.0, 2.0, 0.5, mu)
            from ..oracles import kepler_uv

            nodes = []
            for i in range(n):
                r, v = kepler_uv.propagate(r0, v0, 60.0 * i, mu)
                nodes.append(StateVector(list(r) + list(v), Date(mjd0, 60.0 * i, scale="TAI"), "cartesian", "EME2000"))
            eph = Ephem(nodes, order=8)
            eph.interpolate(Date(mjd0, 90.0, scale="TAI"))
            by_copy = rng.random() < 0.4
            if by_copy:
                # the converted ephemeris is a copy (Ephem.copy(form=) / copy(frame=)): judged like the in-place route below,
                # and the original keeps its labels and its numbers
                ctx.count("reuse:converted-by-copy")
                orig, node0 = eph, np.asarray(eph[3], dtype=float).copy()
                if scen == "form":
                    target = rng.choice(["spherical", "keplerian", "equinoctial", "cylindrical"])
                    eph = orig.copy(form=target)
                else:
                    target = rng.choice(["MOD", "TOD", "TEME", "G50"])
                    eph = orig.copy(frame=target)
                ctx.expect(eph is not orig and (orig.form.name, orig.frame.name) == ("cartesian", "EME2000") and bool(np.array_equal(np.asarray(orig[3], dtype=float), node0)),
                           "C09/reuse-copy-changes-the-original-ephemeris", dict(w, target=target, original_now=(orig.form.name, orig.frame.name)),
                           f"Ephem.copy({scen}={target}) changed the ephemeris it was called on")
                if (eph.method, eph.order) != (orig.method, orig.order):
                    ctx.count("reuse:copy-does-not-carry-the-interpolation-settings (recorded, consistent with what the copy reports)")
            elif scen == "form":
                target = rng.choice(["spherical", "keplerian", "equinoctial", "cylindrical"])
                eph.form = target
            else:
                target = rng.choice(["MOD", "TOD", "TEME", "G50"])
                eph.frame = target
            j = rng.randrange(1, n - 1)
            node = eph[j]
            got = eph.interpolate(node.date)
            lab = (got.form.name, got.frame.name)
            ctx.expect(lab == (eph.form.name, eph.frame.name), "C09/reuse-result-label-after-" + scen, dict(w, target=target, got=lab),
                       f"after ephem.{scen} = {target}: interpolated point labelled {lab}")
            d = float(np.max(np.abs(np.asarray(got, dtype=float) - np.asarray(node, dtype=float)) / (np.abs(np.asarray(node, dtype=float)) + 1e-9)))
            ctx.resid("reuse:node-after-" + scen, d, 1e-9, key="C09/reuse-stale-coordinates-after-" + scen + "-change", witness=dict(w, target=target, node=j, rel=d),
                      msg=f"after a first use and ephem.{scen} = {target}: interpolation at its own date differs from the node by {d:.3g} (relative)")
    except Exception as exc:
        ctx.violation("C09/reuse-raises", dict(w, exc=repr(exc)), f"re-used Ephem raised {exc!r}")


def count_table(ctx, k, n, uniform):
    ctx.count(f"order:{k}")
    ctx.count("sampling:uniform" if uniform else "sampling:jittered")
    if n == k:
        ctx.count("table:length==order")
    if n > k + 30:
        ctx.count("table:length>order+30")


def eval_checked(ctx, st, f, arg, xs, xval, witness, what):
    """Call the interpolator, observe the window. Returns (result, (start, stop)) or (None, None)."""
    st["win"].clear()
    try:
        res = f(arg)
    except Exception as exc:
        ctx.violation(f"C09/in-range-query-raises-{type(exc).__name__}", dict(witness, x=float(xval), exc=repr(exc), what=what),
                      f"{what}: query inside the table raised {exc!r}")
        return None, None
    if len(st["win"]) != 1:
        ctx.violation("C09/window-not-observed", dict(witness, x=float(xval), calls=len(st["win"])), f"{what}: {len(st['win'])} inner calls recorded")
        return res, None
    win = check_window(ctx, st["win"][0], xs, xval, witness)
    return res, win


def check_refusals(ctx, f, pts, witness, what):
    for arg, tag, shown in pts:
        try:
            r = f(arg)
        except ValueError:
            ctx.count("refusal-outside")
            ctx.ok()
            continue
        except Exception as exc:
            ctx.violation(f"C09/outside-raises-{type(exc).__name__}", dict(witness, query=shown, where=tag, exc=repr(exc)),
                          f"{what}: query outside the table raised {exc!r} instead of ValueError")
            continue
        ctx.violation("C09/outside-not-refused", dict(witness, query=shown, where=tag, returned=np.asarray(r, dtype=float)),
                      f"{what}: query {shown} ({tag}) outside the table was answered instead of refused")


def poly_bound(k, S):
    """Rounding bound of sum_j y_j prod_m (x-x_m)/(x_j-x_m) as coded: each of the k-1 factors carries 3
    roundings, the product k-2, the dot product k, the table values and the truth one each:
    (3(k-1) + (k-2) + k + 2) u S <= (5k) u S with S = sum |l_j(x)| |y_j|.  Margin 4 on this worst case."""
    return 4 * (5 * k) * U * S


def interp_case(ctx, job, idx, rng, st):
    from beyond.utils.interp import Interp

    k, n = pick_order_length(idx, rng)
    uniform = rng.random() < 0.5
    method = "lagrange" if rng.random() < 0.75 else "linear"
    xs = table_abscissae(rng, n, uniform)
    ncomp = rng.choice([0, 2, 6])  # 0 -> 1-D ys
    scales = [2.0 ** rng.randrange(-20, 40) for _ in range(max(1, ncomp))]
    degree = rng.randrange(0, k) if method == "lagrange" else None
    descr = {"cls": "Interp", "method": method, "order": k, "n": n, "uniform": uniform, "x0": xs[0], "x1": xs[1], "xlast": xs[-1],
             "ncomp": ncomp, "degree": degree, "scales_log2": [math.log2(s) for s in scales]}
    ctx.case(descr, nontrivial=n > 2)
    ctx.count("class:Interp")
    count_table(ctx, k, n, uniform)
    witness = dict(descr, xs=xs if n <= 16 else xs[:16])

    c, L = 0.5 * (xs[0] + xs[-1]), 0.5 * (xs[-1] - xs[0])
    if method == "lagrange":
        polys = [Poly(rng, degree, c, L) for _ in range(min(2, max(1, ncomp)))]
        exact_cols = [[p(x) for x in xs] for p in polys]
        base_cols = [[float(v) for v in col] for col in exact_cols]
        truth_fn = lambda x, j: polys[j % len(polys)](x) * Fraction(scales[j])
    else:
        base_cols = [[rng.uniform(-1, 1) * 10 ** rng.uniform(-3, 3) for _ in xs] for _ in range(min(2, max(1, ncomp)))]
        truth_fn = None
    ncol = max(1, ncomp)
    cols = [[v * scales[j] for v in base_cols[j % len(base_cols)]] for j in range(ncol)]  # power-of-two scaling: exact
    ys = np.array(cols[0]) if ncomp == 0 else np.array(cols).T.copy()
    f = Interp(np.array(xs), ys, method.upper() if rng.random() < 0.3 else method, k)
    xs_arr = np.array(xs)

    for x, tag in query_points(rng, xs, k):
        ctx.count("query:" + tag)
        res, win = eval_checked(ctx, st, f, x, xs_arr, x, witness, f"Interp({method})")
        if res is None:
            continue
        res = np.atleast_1d(np.asarray(res, dtype=float))
        if tag == "node":
            j = xs.index(x)
            node = np.array([cols[c_][j] for c_ in range(ncol)])
            node_check(ctx, method, res, node, np.array([cols[c_][max(j - 1, 0)] for c_ in range(ncol)]), dict(witness, x=x, node_index=j), "Interp")
        if win is None:
            continue
        a, b = win
        for j in range(ncol):
            if method == "lagrange":
                S, lam = lagrange_abs_sum(xs[a:b], [abs(v) for v in cols[j][a:b]], x)
                truth = float(truth_fn(x, j))
                ctx.count("poly-reproduced")
                ctx.resid("poly:Interp", abs(res[j] - truth), poly_bound(k, S), key="C09/polynomial-not-reproduced",
                          witness=dict(witness, x=x, component=j, got=float(res[j]), truth=truth, window=[a, b], lebesgue=lam),
                          msg=f"Interp lagrange order {k}: polynomial of degree {degree} not reproduced at x={x!r}: {res[j]!r} vs {truth!r}")
            else:
                y0, y1 = cols[j][a], cols[j][a + 1]
                t = (Fraction(x) - Fraction(xs[a])) / (Fraction(xs[a + 1]) - Fraction(xs[a]))
                truth = float(Fraction(y0) + (Fraction(y1) - Fraction(y0)) * t)
                ctx.count("linear-reproduced")
                # y0 + (y1-y0)*((x-x0)/(x1-x0)): 6 roundings, each on a quantity <= |y0|+|y1|; margin 4
                ctx.resid("linear:Interp", abs(res[j] - truth), 4 * 8 * U * (abs(y0) + abs(y1)), key="C09/piecewise-linear-not-reproduced",
                          witness=dict(witness, x=x, component=j, got=float(res[j]), truth=truth, bracket=[a, b]),
                          msg=f"Interp linear: {res[j]!r} vs exact {truth!r} at x={x!r}")
    check_refusals(ctx, f, [(x, tag, x) for x, tag in outside_points(rng, xs)], witness, f"Interp({method})")


def node_check(ctx, method, res, node, prev_node, witness, what):
    if method == "lagrange":
        ctx.count("node-exact-lagrange")
        ctx.expect(bool(np.all(res == node)), "C09/node-not-exact-lagrange", dict(witness, got=res, node=node),
                   f"{what}: Lagrange interpolation at a node returned {res!r}, node is {node!r}")
    else:
        ctx.count("node-linear")
        if bool(np.all(res == node)):
            ctx.count("node-linear:bitwise")
        else:
            ctx.count("node-linear:rounded")
        # y0 + ((y1 - y0) * (x1 - x0)) / (x1 - x0): difference, product, quotient and sum round once each:
        # |d| <= 2^-53 (3 |y1-y0| + |y1|) <= 4 * 2^-53 (|y0| + |y1|); margin 2 on this worst case (measured ratio 0.39)
        tol = 8 * U * (np.abs(prev_node) + np.abs(node))
        d = np.abs(res - node)
        worst = int(np.argmax(d - tol))
        ctx.resid("node:linear", float(d[worst]), float(tol[worst]), key="C09/node-not-exact-linear", witness=dict(witness, got=res, node=node),
                  msg=f"{what}: linear interpolation at a node returned {res!r}, node is {node!r}")


# ------------------------------------------------------------------------------------------------
def base_datetime(rng):
    year = rng.randint(1975, 2030)
    month = rng.choice([2, 3, 4, 5, 8, 9, 10, 11])
    us = rng.randrange(0, 86400 * US)
    return datetime(year, month, rng.randint(5, 25)) + timedelta(microseconds=us)


def table_offsets(rng, n, step_us, uniform):
    offs, t = [], 0
    for _ in range(n):
        offs.append(t)
        t += step_us if uniform else max(1, int(step_us * rng.uniform(0.8, 1.2)))
    return offs


FORMS = ["cartesian", "cartesian", "keplerian", "spherical", "equinoctial"]
FRAMES = ["EME2000", "EME2000", "TEME", "MOD", "ITRF", "G50"]


def dated_case(ctx, job, idx, rng, st):
    from beyond.dates import Date
    from beyond.orbits import Ephem, StateVector, Orbit
    from beyond.utils.interp import DatedInterp

    k, n = pick_order_length(idx, rng)
    uniform = rng.random() < 0.5
    method = "lagrange" if rng.random() < 0.75 else "linear"
    cls = ["DatedInterp", "Ephem.interpolate", "Ephem.propagate"][idx % 3]
    base = base_datetime(rng)
    step_us = rng.choice([1, 10, 60, 60, 180, 600]) * US if rng.random() < 0.7 else rng.randrange(20000, 900 * US)
    offs = table_offsets(rng, n, step_us, uniform)
    # scale labels: the table and the queries are instants; the table is dated in one scale, the queries in the same or in
    # another one (exact offsets between TAI, TT, GPS -- and UTC in this configuration without tables)
    tscale = rng.choice(["UTC", "UTC", "TT", "TAI", "GPS"])
    qscales = [tscale] if idx % 2 == 0 else ["UTC", "TT", "TAI", "GPS"]
    dates = [Date(base + timedelta(microseconds=o)).change_scale(tscale) for o in offs]
    ctx.count("table-scale:" + tscale)
    xs = [d._mjd for d in dates]
    if not all(a < b for a, b in zip(xs, xs[1:])):
        ctx.count("skipped:mjd-not-increasing")
        return
    degree = rng.randrange(0, k) if method == "lagrange" else None
    form, frame = rng.choice(FORMS), rng.choice(FRAMES)
    scales = [2.0 ** rng.randrange(10, 26)] * 3 + [2.0 ** rng.randrange(0, 14)] * 3
    descr = {"cls": cls, "method": method, "order": k, "n": n, "uniform": uniform, "base": base.isoformat(), "step_us": step_us,
             "degree": degree, "form": form, "frame": frame, "offs_head": offs[:6], "scales_log2": [math.log2(s) for s in scales],
             "table_scale": tscale, "query_scales": qscales}
    ctx.case(descr, nontrivial=n > 2)
    ctx.count("class:" + cls)
    count_table(ctx, k, n, uniform)
    witness = dict(descr, offs=offs if n <= 16 else offs[:16])

    c, L = 0.5 * (xs[0] + xs[-1]), 0.5 * (xs[-1] - xs[0])
    if method == "lagrange":
        polys = [Poly(rng, degree, c, L) for _ in range(2)]
        base_cols = [[float(p(x)) for x in xs] for p in polys]
    else:
        polys = None
        base_cols = [[rng.uniform(-1, 1) for _ in xs] for _ in range(2)]
    cols = [[v * scales[j] for v in base_cols[j % 2]] for j in range(6)]
    table = np.array(cols).T.copy()
    xs_arr = np.array(xs)

    if cls == "DatedInterp":
        obj = DatedInterp(list(dates), table, method, k)
        f = obj
        eph = None
    else:
        mk = (lambda row, d: Orbit(row, d, form, frame, "Kepler")) if rng.random() < 0.4 else (lambda row, d: StateVector(row, d, form, frame))
        pts = [mk(list(table[i]), dates[i]) for i in range(n)]
        if rng.random() < 0.3:
            rng.shuffle(pts)  # Ephem sorts its points
        eph = Ephem(pts, method=method, order=k)
        f = eph.interpolate if cls == "Ephem.interpolate" else eph.propagate

    def qdate(off_us=None, x=None):
        qs_ = rng.choice(qscales)
        if qs_ != tscale:
            ctx.count("query-in-another-scale-than-the-table")
        return Date(base + timedelta(microseconds=off_us)).change_scale(qs_)

    # queries: nodes, every interval, edges over-sampled; queries are dates (integer microseconds)
    queries = [(o, "node") for o in offs]
    edge = (k + 1) // 2
    for i in range(n - 1):
        reps = 4 if (i < edge or i >= n - 1 - edge) else 1
        for _ in range(reps):
            if offs[i + 1] - offs[i] > 1:
                queries.append((rng.randrange(offs[i] + 1, offs[i + 1]), "inside"))
    if offs[1] - offs[0] > 2:
        queries.append((offs[0] + 1, "ulp-inside-first"))
        queries.append((offs[-1] - 1, "ulp-inside-last"))

    for off, tag in queries:
        d = qdate(off)
        x = d._mjd
        if tag != "node" and (x in xs):
            tag = "node-by-rounding"  # a date closer than one float-MJD ulp to a node *is* that node for the library
        elif tag == "node" and x != xs[offs.index(off)]:
            # the same instant reached through another scale label can sit one ulp of the float MJD (about a microsecond) off the
            # abscissa of the node: for the library that is a point next to the node, judged as such below (not bitwise)
            tag = "node-one-ulp-off-through-another-scale"
        ctx.count("query:" + tag)
        res, win = eval_checked(ctx, st, f, d, xs_arr, x, witness, cls)
        if res is None:
            continue
        if eph is not None:
            ctx.count("labels-checked")
            lab = (res.form.name, res.frame.name, (res.date._d, res.date._s))
            exp = (eph.form.name, eph.frame.name, (d._d, d._s))
            ctx.expect(lab == exp and lab[:2] == (form, frame), "C09/result-frame-form-date", dict(witness, got=lab[:2], expected=[form, frame], query=str(d)),
                       f"{cls}: result labelled {lab}, ephemeris is ({form}, {frame}) and the query date {d}")
        r = probe.arr(res) if eph is not None else np.asarray(res, dtype=float)
        if tag == "node":
            j = offs.index(off)
            node_check(ctx, method, r, table[j], table[max(j - 1, 0)], dict(witness, query=str(d), node_index=j), cls)
        if win is None:
            continue
        a, b = win
        for j in (0, 1, 3, 4) if rng.random() < 0.5 else (2, 5):
            if method == "lagrange":
                S, lam = lagrange_abs_sum(xs[a:b], [abs(v) for v in cols[j][a:b]], x)
                truth = float(polys[j % 2](x) * Fraction(scales[j]))
                ctx.count("poly-reproduced")
                ctx.resid("poly:" + cls, abs(r[j] - truth), poly_bound(k, S), key="C09/polynomial-not-reproduced",
                          witness=dict(witness, query=str(d), component=j, got=float(r[j]), truth=truth, window=[a, b], lebesgue=lam),
                          msg=f"{cls} lagrange order {k}: polynomial of degree {degree} not reproduced at {d}: {r[j]!r} vs {truth!r}")
            else:
                y0, y1 = cols[j][a], cols[j][a + 1]
                t = (Fraction(x) - Fraction(xs[a])) / (Fraction(xs[a + 1]) - Fraction(xs[a]))
                truth = float(Fraction(y0) + (Fraction(y1) - Fraction(y0)) * t)
                ctx.count("linear-reproduced")
                ctx.resid("linear:" + cls, abs(r[j] - truth), 4 * 8 * U * (abs(y0) + abs(y1)), key="C09/piecewise-linear-not-reproduced",
                          witness=dict(witness, query=str(d), component=j, got=float(r[j]), truth=truth, bracket=[a, b]),
                          msg=f"{cls} linear: {r[j]!r} vs exact {truth!r} at {d}")

    # refusals: 1 us / 2 us / far outside, both sides
    span = offs[-1] - offs[0]
    outs = []
    for delta, tag in ((1, "1us"), (2, "2us"), (1000, "1ms"), (span + 1, "one-span"), (400 * 86400 * US, "400d")):
        outs.append((qdate(offs[0] - delta), tag + "-before", (base + timedelta(microseconds=offs[0] - delta)).isoformat()))
        outs.append((qdate(offs[-1] + delta), tag + "-after", (base + timedelta(microseconds=offs[-1] + delta)).isoformat()))
    outs = [(d, tag, shown) for d, tag, shown in outs if not (xs[0] <= d._mjd <= xs[-1])]  # < 1 ulp of float MJD: same instant for the library
    check_refusals(ctx, f, outs, witness, cls)


# ------------------------------------------------------------------------------------------------
STEP_FOR_ORDER = {2: 0.03, 3: 1.0, 4: 6.0, 5: 15.0, 6: 30.0, 7: 45.0, 8: 60.0, 9: 75.0, 10: 90.0, 11: 100.0, 12: 120.0}


def deriv_bound(a, e, n, k):
    """Bound of |d^k r / dt^k| of elliptic motion from the Fourier series in the mean anomaly:
    x/a = -3e/2 + sum (2/m) J'_m(me) cos mM,  y/a = sqrt(1-e^2) sum (2/(me)) J_m(me) sin mM  with
    |J_m(me)| <= (me/2)^m / m!  =>  harmonic m has amplitude <= 2 (me/2)^(m-1) / m! in both coordinates, its
    k-th derivative m^k n^k times that.  (For e -> 0 this is a n^k; at e = 0.05, k = 12 it is ~800 a n^k.)"""
    total = 0.0
    for m in range(1, 60):
        total += m ** k * (m * e / 2) ** (m - 1) / math.factorial(m)
    return 2 * math.sqrt(2) * a * n ** k * total


def kepler_case(ctx, job, idx, rng, st):
    """Smooth orbit: |interpolated position - true position| in every interval."""
    from beyond.dates import Date
    from beyond.orbits import Ephem, StateVector

    default_cfg = idx % 3 == 0
    if default_cfg:
        k, n = 8, 8 + (idx // 3) % 41
        step_us = rng.choice([30, 60, 60]) * US
        ctx.count("kepler-config:default-order8-60s")
    else:
        k, n = pick_order_length(idx, rng)
        step_us = int(STEP_FOR_ORDER[k] * rng.uniform(0.5, 1.0) * US)
    uniform = rng.random() < 0.5
    a = rng.uniform(6.7e6, 7.5e6) if rng.random() < 0.7 else rng.uniform(7.5e6, 4.3e7)
    e = 10 ** rng.uniform(-4, -1.3)
    kep = [a, e, rng.uniform(0.02, 3.1), rng.uniform(0, 6.28), rng.uniform(0, 6.28), rng.uniform(0, 6.28)]
    base = base_datetime(rng)
    offs = table_offsets(rng, n, step_us, uniform)
    descr = {"cls": "Ephem.interpolate", "method": "lagrange", "order": k, "n": n, "uniform": uniform, "base": base.isoformat(),
             "step_us": step_us, "kep": kep, "offs_head": offs[:6]}
    ctx.case(descr, nontrivial=True)
    count_table(ctx, k, n, uniform)
    witness = dict(descr, offs=offs if n <= 16 else offs[:16])

    r0, v0 = el.kep2cart(a, e, kep[2], kep[3], kep[4], el.nu_from_M(e, kep[5]), MU)
    dates = [Date(base + timedelta(microseconds=o)) for o in offs]
    xs = [d._mjd for d in dates]
    if not all(p < q for p, q in zip(xs, xs[1:])):
        ctx.count("skipped:mjd-not-increasing")
        return
    pts = []
    for o, d in zip(offs, dates):
        r, v = kepler_uv.propagate(r0, v0, o / 1e6, MU, reduce_period=False)
        pts.append(StateVector(list(r) + list(v), d, "cartesian", "EME2000"))
    eph = Ephem(pts, order=k)  # default method: lagrange
    xs_arr = np.array(xs)
    rp = a * (1 - e)
    w = math.sqrt(MU * (1 + e) / rp ** 3)  # angular rate at pericentre
    vmax = w * rp
    dk = deriv_bound(a, e, math.sqrt(MU / a ** 3), k)
    edge = (k + 1) // 2
    for i in range(n - 1):
        is_end = i < edge or i >= n - 1 - edge
        for _ in range(4 if is_end else 1):
            if offs[i + 1] - offs[i] < 2:
                continue
            off = rng.randrange(offs[i] + 1, offs[i + 1])
            d = Date(base + timedelta(microseconds=off))
            res, win = eval_checked(ctx, st, eph.interpolate, d, xs_arr, d._mjd, witness, "Ephem.interpolate(kepler)")
            if res is None:
                continue
            if win is None:
                # the window monitor already reported; the accuracy oracle stays independent of it:
                # bound for the bracket-centred window clamped to the table
                p_ = max(0, min(int(np.searchsorted(xs_arr, d._mjd, side="left")) - 1, n - 2))
                s_ = max(0, min(p_ - k // 2 + 1, n - k))
                win = (s_, s_ + k)
                ctx.count("kepler-accuracy:bound-from-own-window")
            rt, vt = kepler_uv.propagate(r0, v0, off / 1e6, MU, reduce_period=False)
            got = probe.arr(res)
            err = float(np.linalg.norm(got[:3] - rt))
            s, b = win
            _, lam = lagrange_abs_sum(xs[s:b], [0.0] * (b - s), d._mjd)
            trunc = omega_abs([x * 86400.0 for x in xs[s:b]], d._mjd * 86400.0) / math.factorial(k) * dk
            quant = (lam + 1) * vmax * MJD_HALF_ULP_S
            floor = 0.05 if is_end else 0.01
            # derived: 2 x worst-case quantisation + 100 x truncation estimate + 1e-4 m rounding of |r| ~ 1e7..4e7 m
            tol = max(floor, 2 * quant + 100 * trunc + 1e-4)
            ctx.count("kepler-accuracy")
            ctx.count("kepler-accuracy:end-interval" if is_end else "kepler-accuracy:middle")
            if tol <= floor:
                ctx.count("kepler-accuracy:judged-at-statement-floor")
            name = "kepler:" + ("default" if default_cfg else "other") + (":end" if is_end else ":mid")
            ctx.resid(name, err, tol, key="C09/smooth-orbit-error" + ("-end-interval" if is_end else "-middle"),
                      witness=dict(witness, query=str(d), interval=i, err=err, window=[s, b], lebesgue=lam, trunc_bound=trunc, quant_bound=quant),
                      msg=f"order {k}, step {step_us / 1e6:g} s: interpolated position {err:.4g} m from the true one (interval {i} of {n - 1})")
            # velocity: not part of the statement ("interpolated position") -> recorded against the same bound scaled by w, not judged
            verr = float(np.linalg.norm(got[3:] - vt))
            ctx.resid(name + ":vel(recorded)", verr, max(floor * 1e-2, (2 * quant + 100 * trunc + 1e-4) * w * 3))
