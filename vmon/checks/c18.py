"""C18 -- solar-system body positions match the JPL ephemeris.

Monitors (reference-model monitors; the real code runs under generated dates / body pairs / configurations)
  * jobs `jpl-*`: for one generated date, EVERY ordered pair (A, B) of the bodies present in the kernel:
      - zero state of frame A converted to frame B            (StateVector.copy(frame=<body>))
      - jpl.get_orbit(A, date) itself, then converted to B    (jpl.get_orbit + Orbit.copy(frame=))
      - an Earth satellite (EME2000) converted to every body frame and back, random vectors between
        body frames
      - JplPropagator(kernel centre, frame of its target): the "reversed segment" branch (sign = -1)
    against the vector obtained by chaining the SPK segments directly (vmon/oracles/jpl_ref.py: own BFS over
    the kernel's (center, target) pairs with signs; km -> m, km/day -> m/s; TDB argument).
    Two comparisons per vector: (tight) oracle evaluated at the very float JD(TDB) the library hands to
    jplephem -- isolates sign / unit / chaining errors; (time) oracle evaluated at the harness' OWN TDB of the
    instant (own leap-second table, TT-TAI, TAI-GPS, Almanac periodic term) -- isolates a wrong time argument.
    Configurations: kernel only ('bsp'), kernel + pck00010.tpc + gm_de431.tpc ('pck'), and frames created
    lazily through config env.jpl.dynamic_frames with create_frames() re-invoked in mid-run ('dynamic').
  * job `sunmoon`: analytical Sun / Moon of beyond.env.solarsystem versus the DE403 Earth->body vector, compared
    in the frame the propagator declares (DE403 vector rotated EME2000->MOD by own IAU-76 precession when the
    propagator declares MOD): angle and distance to the statement's series accuracy; velocity versus a 60 s
    central difference of the library's own position function.
"""

import math

import numpy as np

from .. import env, probe
from ..oracles import jpl_ref

RULE = (
    "jpl-* jobs: case = one generated instant (label scale in TDB/TT/TAI/GPS/UTC, uniform over the kernel span "
    "1999-12-24..2021-01-02, stratified by case index) x ALL 240 ordered pairs of the 16 kernel bodies x 3 access "
    "paths; distinct = digest of (scale, mjd day, seconds); non-trivial = the pair vector is non-zero and walked "
    ">= 1 segment. sunmoon job: case = one instant uniform over 2000-01-01..2020-12-31 (stratified), both bodies."
)
EXHAUSTIVE = [
    "all 16x15 ordered pairs of bodies present in de403_2000-2020.bsp, per generated date and per configuration",
]
ASSUMPTIONS = [
    "jplephem.spk.SPK evaluates a segment correctly (Chebyshev position in km, derivative in km/day; the km/day "
    "convention is re-confirmed at start-up by a finite difference of positions)",
    "the kernel file de403_2000-2020.bsp is the truth for the statement's 'JPL DE ephemeris'",
    "own time scales: TAI-UTC table typed from IERS Bulletin C, TT-TAI = 32.184 s, TAI-GPS = 19 s, "
    "TDB-TT = 0.001657 sin g + 0.000014 sin 2g (Astronomical Almanac); library TDB accepted within 50 us of it",
    "the float JD handed to jplephem is read from the library's public Date API (date.change_scale('TDB').jd); "
    "it is only used after the instant has been confirmed against the own TDB",
    "jpl.list_frames() and the class jpl.JplPropagator (module level, not in __all__) are used to reach the "
    "reversed-segment branch the code documents ('EarthBarycenter with respect to the Moon')",
    "library frame names of kernel bodies = jplephem target name, title-cased, blanks removed (interface)",
    "IAU-1976 precession (Lieske) typed in vmon/oracles/jpl_ref.py rotates EME2000 -> MOD",
    "velocity clause: the reference derivative is a 60 s central difference of the library's own position function",
]

KERNEL = "tests/data/jpl/de403_2000-2020.bsp"

# 2000-01-01 .. 2020-12-31 (MJD of 00:00)
MJD_2000 = 51544
MJD_2021 = 59215
# real IERS tables of the sandbox: MJD 41684..57802; UTC labelled dates only where TAI-UTC is in the table
UTC_MAX_MJD = 57790

DEG = math.pi / 180.0


def jobs(tier):
    if tier == "quick":
        n, nd, ns = 48, 24, 5000
    else:
        n, nd, ns = 1000, 256, 160000
    return [
        {"name": "jpl-bsp", "n": n, "eop": "real", "jpl": "bsp", "mode": "pairs", "create": "explicit"},
        {"name": "jpl-pck", "n": n, "eop": "real", "jpl": "pck", "mode": "pairs", "create": "explicit"},
        {"name": "jpl-dynamic", "n": nd, "eop": "real", "jpl": "pck", "mode": "pairs", "create": "dynamic"},
        {"name": "sunmoon", "n": ns, "eop": "real", "jpl": "bsp", "mode": "sunmoon"},
        # history: the built-in analytical frames of the Sun / Moon (beyond.env.solarsystem) exist in the same process as the
        # frames created from the kernel (an eclipse listener next to JPL frames), in either order of creation
        {"name": "mixed-analytical-first", "n": 24 if tier == "quick" else 400, "eop": "real", "jpl": "bsp", "mode": "mixed", "order": "analytical-first"},
        {"name": "mixed-kernel-first", "n": 24 if tier == "quick" else 400, "eop": "real", "jpl": "bsp", "mode": "mixed", "order": "kernel-first"},
    ]


def requirements(tier):
    return dict(_requirements(tier), **{"history:same-reading-other-scale": 20, "mixed:compared": 150, "history:get_orbit-result-reframed-in-place-then-propagated": 20,
                                           "tabulation:route:iter-backward": 3})


def _requirements(tier):
    q = tier == "quick"
    return {
        "pairs:zero-state": 240 * (100 if q else 2000),
        "pairs:get_orbit-converted": 200 * (100 if q else 2000),
        "pairs:get_orbit-direct": 15 * (100 if q else 2000),
        "pairs:satellite-to-body": 16 * (100 if q else 2000),
        "pairs:satellite-roundtrip": 16 * (100 if q else 2000),
        "pairs:random-vector": 1000,
        "pairs:reversed-propagator": 1000,
        "config:bsp": 1,
        "config:pck": 1,
        "config:dynamic-frames": 1,
        "tabulation:across-a-leap-second": 5, "tabulation:route:iter": 10, "tabulation:route:ephem": 5, "tabulation:Moon": 50, "tabulation:Sun": 50,
        "pairs:get_body-propagate": 100, "pairs:get_frame-objects": 100, "instant:kernel-span-first": 1, "instant:kernel-span-last": 1, "history:create_frames-again": 1, "history:get_orbit-result-edited-in-place": 100 if q else 2000,
        "scale:UTC": 10,
        "scale:TDB": 10,
        "scale:TT": 10,
        "scale:TAI": 10,
        "scale:GPS": 10,
        "tdb:own-vs-library": 100,
        "sunmoon:moon": 2000,
        "sunmoon:sun": 2000,
        "sunmoon:velocity": 4000,
        "oracle:selftest-ok": 1,
    }


# ------------------------------------------------------------------------------------------------
def lib_name(full):
    return full.title().replace(" ", "")


def setup(ctx, job):
    from jplephem.names import target_names

    K = jpl_ref.Kernel(env.repo_dir() / KERNEL)
    st = {"K": K}
    # oracle self-test: km/day convention of jplephem confirmed by finite differences (a failure here is a
    # failure of the trusted base => inconclusive, never a verdict)
    worst = K.self_test([K.start_jd + 100.0, 0.5 * (K.start_jd + K.end_jd), K.end_jd - 100.0])
    ctx.note("oracle_velocity_fd_selftest", worst)
    if worst < 1e-4:
        ctx.count("oracle:selftest-ok")
    else:
        ctx.inconclusive_if(True, f"oracle self-test: velocity unit convention not confirmed ({worst})")
    st["names"] = {b: lib_name(target_names.get(b, "Unknown")) for b in K.bodies}

    if job["mode"] == "pairs":
        from beyond.env import jpl
        from beyond.config import config

        if job["create"] == "dynamic":
            config.set("env", "jpl", "dynamic_frames", True)
            ctx.count("config:dynamic-frames")
        else:
            try:
                jpl.create_frames()
            except Exception as exc:
                # the statement quantifies over "with and without physical-constant (PCK) files configured": frames that
                # cannot be created in a configuration are an observation about the library, not a harness problem
                ctx.violation(f"C18/create-frames-raises-{job['jpl']}-configuration", {"configuration": job["jpl"], "exc": repr(exc)},
                              f"jpl.create_frames() raised {exc!r} with configuration '{job['jpl']}'")
                st["broken"] = True
                return st
        ctx.count("config:" + job["jpl"])
        st["created"] = job["create"] != "dynamic"
        st["parent"] = {t: c for (c, t) in K.segs}
    elif job["mode"] == "mixed":
        from beyond.env import jpl, solarsystem

        steps = [lambda: (solarsystem.get_frame("Moon"), solarsystem.get_frame("Sun")), jpl.create_frames]
        if job["order"] == "kernel-first":
            steps.reverse()
        for f in steps:
            f()
        st["parent"] = {t: c for (c, t) in K.segs}
        # mechanism monitor: is one of the analytical propagators consulted while a vector between kernel frames is computed?
        st["analytic_calls"] = []
        st["probes"] = [probe.attach(cls_, "propagate", pre=lambda a, k, n_=cls_.__name__: st["analytic_calls"].append(n_))
                        for cls_ in (solarsystem.SunPropagator, solarsystem.MoonPropagator)]
    else:
        from beyond.env import solarsystem

        st["moon_frame"] = solarsystem.get_frame("Moon")
        st["sun_frame"] = solarsystem.get_frame("Sun")
    return st


def gen_instant(rng, idx, n, lo_mjd, hi_mjd):
    """Stratified-uniform instant in [lo, hi) read on a random clock. Returns (scale, day, seconds)."""
    n = max(n, 1)
    x = lo_mjd + (hi_mjd - lo_mjd) * ((idx % n) + rng.random()) / n
    d = int(math.floor(x))
    # microsecond grid for 3 of 4 cases, arbitrary float seconds otherwise
    s = (x - d) * 86400.0
    if rng.random() < 0.75:
        s = round(s * 1e6) / 1e6
    s = min(s, 86399.999999)
    scales = ["TDB", "TT", "TAI", "GPS"]
    if MJD_2000 + 1 <= d <= UTC_MAX_MJD and not jpl_ref.near_leap(d, 1.5):
        scales += ["UTC", "UTC"]
    return rng.choice(scales), d, s


# ------------------------------------------------------------------------------------------------
def _classify(got, exp, tp, tv):
    """Name the mechanism of a mismatch (keys are mechanisms)."""
    gp, gv, ep, ev = got[:3], got[3:], exp[:3], exp[3:]
    n = np.linalg.norm
    if n(gp + ep) <= tp and n(gv + ev) <= tv and n(ep) > 10 * tp:
        return "chain-sign-flipped"
    pos_ok = n(gp - ep) <= tp
    vel_ok = n(gv - ev) <= tv
    if pos_ok and not vel_ok:
        for f, nm in ((86400.0, "velocity-left-in-km-per-day"), (1 / 86400.0, "velocity-divided-twice"), (1e-3, "velocity-left-in-km")):
            if n(gv - ev * f) <= tv * max(1.0, f) * 10 or n(gv + ev * f) <= tv * max(1.0, f) * 10:
                return nm
        if n(gv + ev) <= tv:
            return "velocity-sign-flipped"
        return "velocity-mismatch"
    if not pos_ok and n(gp - ep * 1e-3) <= tp:
        return "position-left-in-km"
    if not pos_ok and n(gp + ep) <= tp:
        return "position-sign-flipped"
    return "vector-mismatch"


_SUSPECT = {"first": None, "budget": 400}


def _time_suspect(K, date, target, origin, got, tp):
    """On a mismatch: does the result match the oracle evaluated with another clock's JD? (diagnosis only;
    bounded effort: the scale found first is tried first, at most 400 diagnoses per subprocess)"""
    order = ["UTC", "TAI", "TT", "GPS", "UT1"]
    if _SUSPECT["first"] in order:
        order.remove(_SUSPECT["first"])
        order.insert(0, _SUSPECT["first"])
    if _SUSPECT["budget"] <= 0:
        if _SUSPECT["first"] is None:
            return None
        order = order[:1]
    _SUSPECT["budget"] -= 1
    for sc in order:
        try:
            jd = date.change_scale(sc).jd
            e, _, _ = K.state(target, origin, jd)
            if np.linalg.norm(got[:3] - e[:3]) <= tp:
                _SUSPECT["first"] = sc
                return sc
        except Exception:
            pass
    return None


def run_case(ctx, job, idx, rng, st):
    if st.get("broken"):
        return
    if job["mode"] == "pairs":
        return run_pairs(ctx, job, idx, rng, st)
    if job["mode"] == "mixed":
        return run_mixed(ctx, job, idx, rng, st)
    return run_sunmoon(ctx, job, idx, rng, st)


def run_mixed(ctx, job, idx, rng, st):
    """Vectors between the frames created from the kernel, asked for by NAME, in a process where the analytical Sun / Moon
    frames of beyond.env.solarsystem were created too (before or after).  Expected: the chained kernel segments, as in the
    'pairs' jobs.  A result that is the analytical series instead has its own key (known finding: the two registries share
    frame and node names and routing is by name)."""
    from beyond.dates import Date
    from beyond.env import jpl, solarsystem
    from beyond.orbits import StateVector

    K, names = st["K"], st["names"]
    lo = max(K.start_jd - 2400000.5 + 1, MJD_2000 + 1)
    hi = min(K.end_jd - 2400000.5 - 1, UTC_MAX_MJD)
    scale, d, s = gen_instant(rng, idx, job["n"], lo, hi)
    descr = {"scale": scale, "mjd_day": d, "seconds": s, "order": job["order"]}
    ctx.case(descr)
    date = Date(d, s, scale=scale)
    lib_tdb = date.change_scale("TDB")
    seg = K.all_segments(float(lib_tdb.jd))
    ids = {names[b]: b for b in K.bodies}
    pairs = [("Earth", "Moon"), ("Moon", "Earth"), ("Earth", "Sun"), ("Sun", "Earth"), ("Moon", "Sun"), ("Sun", "Moon"), ("Earth", "MarsBarycenter"),
             ("Venus" if "Venus" in ids else "VenusBarycenter", "Earth")]
    for origin, target in pairs:
        if origin not in ids or target not in ids:
            continue
        # zero state of frame `target` seen from frame `origin` = vector(target relative to origin)
        del st["analytic_calls"][:]
        try:
            got = probe.arr(StateVector([0.0] * 6, date, "cartesian", target).copy(frame=origin))
        except Exception as exc:
            ctx.violation("C18/frame-conversion-raises-mixed-registries", dict(descr, src=target, dst=origin, exc=repr(exc)), f"{target} -> {origin} raised {exc!r}")
            continue
        exp, L, Lv = K.state(ids[target], ids[origin], None, cache=seg)
        dp = float(np.linalg.norm(got[:3] - exp[:3]))
        tp = 1e-3 + 1e-12 * L
        ctx.count("mixed:compared")
        key = "C18/jpl-vector-mismatch-mixed-registries"
        consulted = sorted(set(st["analytic_calls"]))
        if consulted:
            ctx.count("mixed:analytical-propagator-consulted")
        if dp > tp and consulted:
            key = "C18/kernel-frames-answer-with-the-analytical-series-once-solarsystem-frames-exist"
        ctx.resid("mixed:pos (m)", dp, tp, key=key, witness=dict(descr, origin=origin, target=target, got=got.tolist(), expected=exp.tolist(), analytical_propagators_consulted=consulted),
                  msg=f"{job['order']}: {target} relative to {origin} by frame name: {dp:.6g} m from the chained kernel segments"
                      + (f" ({', '.join(consulted)} consulted on the way)" if consulted else ""))


def run_pairs(ctx, job, idx, rng, st, twin=None):
    from beyond.dates import Date
    from beyond.env import jpl
    from beyond.orbits import StateVector

    K = st["K"]
    names = st["names"]
    lo = K.start_jd - 2400000.5 + 0.01
    hi = K.end_jd - 2400000.5 - 0.01
    scale, d, s = gen_instant(rng, idx, job["n"], lo, hi)
    if idx in (1, 2):
        # "every date in the span of the kernel": its first and its last instant themselves (the span is closed)
        edge = (K.start_jd if idx == 1 else K.end_jd) - 2400000.5
        scale, d = "TDB", int(math.floor(edge))
        s = round((edge - d) * 86400.0, 6)
        ctx.count("instant:kernel-span-" + ("first" if idx == 1 else "last"))
    if twin is not None:
        # history: the SAME clock reading under another scale label, i.e. another instant, asked for straight after
        scale, d, s = twin
    descr = {"scale": scale, "mjd_day": d, "seconds": s}
    if twin is None:
        ctx.case(descr)
        ctx.count("scale:" + scale)
    else:
        descr["history"] = "asked straight after the same clock reading under another scale label"
        ctx.count("history:same-reading-other-scale")
    date = Date(d, s, scale=scale)

    # ---- time argument: own TDB of the instant vs the library's --------------------------------
    od, os_ = jpl_ref.to_tdb(scale, d, s)
    lib_tdb = date.change_scale("TDB")
    dt = jpl_ref.seconds_between(od, os_, int(lib_tdb.d), float(lib_tdb.s))
    ctx.count("tdb:own-vs-library")
    # 36 us = sum of the amplitudes of the second periodic terms of the two TDB-TT series (22 + 14 us),
    # + 1 us datetime rounding; 50 us as in DESIGN (30 km/s x 50 us = 1.5 m)
    ctx.resid("tdb:|library - own| (s)", abs(dt), 50e-6, key="C18/tdb-instant-differs-from-own-timescales",
              witness=dict(descr, own_tdb=[od, os_], lib_tdb=[int(lib_tdb.d), float(lib_tdb.s)]),
              msg=f"TDB of {scale} {d} {s}: library {lib_tdb.d} {lib_tdb.s}, own {od} {os_}")
    jd_lib = float(lib_tdb.jd)
    seg_lib = K.all_segments(jd_lib)
    seg_own = K.all_segments(od + 2400000.5, os_ / 86400.0)
    # float JD resolution (ulp 4.7e-10 d = 40 us, rounding <= 20 us, one more in mjd+2400000.5) + the 50 us above
    TIME_SLACK = 1.0e-4

    if job["create"] == "dynamic" and not st["created"]:
        # frames appear lazily on the first conversion to an unknown frame name
        sv0 = StateVector([7e6, 0, 0, 0, 7.5e3, 0], date, "cartesian", "EME2000")
        try:
            sv0.copy(frame="Mars")
            st["created"] = True
        except Exception as exc:
            ctx.violation("C18/dynamic-frames-not-created", dict(descr, exc=repr(exc)), f"dynamic_frames=True, copy(frame='Mars') raised {exc!r}")
            return
    if job["create"] == "dynamic" and idx % 5 == 3:
        # differential history: frames created a second time in mid-run must not change any answer
        jpl.create_frames()
        ctx.count("history:create_frames-again")

    def compare(method, target, origin, got, extra=None, add=None, via=None):
        """got = library 6-vector that must equal (add +) vector(target relative to origin).
        via = kernel pair whose vector the library adds and subtracts on its way (get_orbit(A) is expressed
        relative to A's kernel centre first): its magnitude enters the summation-noise scale L twice."""
        e_lib, L, Lv = K.state(target, origin, None, cache=seg_lib)
        e_own, _, _ = K.state(target, origin, None, cache=seg_own)
        vrel = float(np.linalg.norm(e_own[3:]))  # speed of the body pair (before any constant vector is added)
        if via is not None:
            L += 2 * float(np.linalg.norm(seg_lib[via][0]))
            Lv += 2 * float(np.linalg.norm(seg_lib[via][1]))
        if add is not None:
            e_lib = e_lib + add
            e_own = e_own + add
            L += float(np.linalg.norm(add[:3]))
            Lv += float(np.linalg.norm(add[3:]))
        # tight: same float JD => only summation order differs: a few ulp of the largest partial sum
        # (2.2e-16 L per addition; measured floor ~4e-16 L); 1e-12 L is >1000x the floor, and 1e-9 of the
        # effect of a sign/unit/chain error (>= 1e-3 L)
        tp = 1e-3 + 1e-12 * L
        tv = 1e-9 + 1e-12 * Lv
        dp = float(np.linalg.norm(got[:3] - e_lib[:3]))
        dv = float(np.linalg.norm(got[3:] - e_lib[3:]))
        dpo = float(np.linalg.norm(got[:3] - e_own[:3]))
        tpo = tp + vrel * TIME_SLACK
        bad = not (dp <= tp and dv <= tv)
        key = w = msg = msg_t = None
        if bad or not (dpo <= tpo):
            # witness / mechanism only when something is off (keeps the common path cheap)
            w = dict(descr, method=method, target=[target, names[target]], origin=[origin, names[origin]],
                     got=[float(x) for x in got], expected=[float(x) for x in e_lib], jd_tdb_library=jd_lib)
            if extra:
                w.update(extra)
            msg = f"{method}: {names[target]} relative to {names[origin]} at {scale} {d} {s}: |dr|={dp:.6g} m, |dv|={dv:.6g} m/s vs chained segments"
            msg_t = (f"{method}: {names[target]} rel. {names[origin]}: {dpo:.6g} m from the segments evaluated at the own TDB "
                     f"(speed {vrel:.5g} m/s)")
        if bad:
            base = add if add is not None else np.zeros(6)
            mech = _classify(got - base, e_lib - base, tp, tv)
            if mech == "vector-mismatch":
                sc = _time_suspect(K, date, target, origin, got - base, tp)
                if sc:
                    mech = f"time-argument-is-{sc}-not-TDB"
            key = f"C18/jpl-{mech}"
        ctx.resid("jpl:pos@library-jd (m)", dp, tp, key=key, witness=w, msg=msg)
        ctx.resid("jpl:vel@library-jd (m/s)", dv, tv, key=key if dp <= tp else None, witness=w, msg=msg)
        # time: oracle at the harness' own TDB; allowance = relative speed x slack
        ctx.resid("jpl:pos@own-tdb (m)", dpo, tpo, key=None if bad else "C18/jpl-time-argument-not-tdb", witness=w, msg=msg_t)
        return not bad

    bodies = K.bodies
    zero = [0.0] * 6
    nz = 0
    if idx % 2 == 0 and twin is None:
        # ---- history: what get_orbit handed out is the caller's to re-express IN PLACE (frame / form setters); the
        # vectors asked for afterwards at the same date -- the whole pair matrix below -- must not notice
        for A in rng.sample([b for b in bodies if b in st["parent"]], min(4, len(st["parent"]))):
            P = st["parent"][A]
            Q = rng.choice([b for b in bodies if b not in (A, P)])
            try:
                o = jpl.get_orbit(names[A], date)
                how = rng.choice(["frame", "frame", "form", "values"])
                if how == "frame":
                    o.frame = names[Q]
                    compare("get_orbit, then .frame = other body (in place)", A, Q, probe.arr(o), via=(P, A))
                    if rng.random() < 0.6:
                        # ... and the re-framed orbit is then used: propagated (or tabulated) to another date
                        from beyond.dates import timedelta as _td

                        d_other = date + _td(days=rng.uniform(-3, 3)) if lo + 4 < date.mjd < hi - 4 else date
                        if rng.random() < 0.5:
                            o.propagate(d_other)
                        else:
                            list(o.iter(dates=[d_other, date]))
                        ctx.count("history:get_orbit-result-reframed-in-place-then-propagated")
                elif how == "form":
                    o.form = "spherical"
                else:
                    o[:] = [1.0, 2.0, 3.0, 4.0, 5.0, 6.0]
                ctx.count("history:get_orbit-result-edited-in-place")
                again = jpl.get_orbit(names[A], date)
                compare("get_orbit asked again after the first result was edited in place", A, P, probe.arr(again.copy(form="cartesian")),
                        extra={"edit": how})
                z = StateVector(zero, date, "cartesian", names[P]).copy(frame=names[A])
                compare("kernel centre seen from the body after the body's orbit was edited in place", P, A, probe.arr(z), extra={"edit": how})
            except Exception as exc:
                ctx.violation("C18/get_orbit-raises", dict(descr, body=names[A], exc=repr(exc), step="in-place edit history"),
                              f"history with get_orbit({names[A]}) raised {exc!r}")
    for A in bodies:
        # ---- jpl.get_orbit(A): relative to its kernel centre --------------------------------
        orb = None
        if A in st["parent"]:
            P = st["parent"][A]
            try:
                orb = jpl.get_orbit(names[A], date)
                ctx.count("pairs:get_orbit-direct")
                ctx.expect(orb.frame.name == names[P], "C18/get_orbit-frame-not-kernel-centre",
                           dict(descr, body=names[A], frame=orb.frame.name, expected=names[P]),
                           f"get_orbit({names[A]}) is expressed in {orb.frame.name}, kernel centre is {names[P]}")
                compare("get_orbit", A, P, probe.arr(orb))
            except Exception as exc:
                ctx.violation("C18/get_orbit-raises", dict(descr, body=names[A], exc=repr(exc)), f"get_orbit({names[A]}) raised {exc!r}")
                orb = None
        if job["jpl"] == "pck" and A in st["parent"] and not names[A].endswith("Barycenter"):  # barycentres are no bodies of the PCK
            # ---- the other public routes to the same vector: jpl.get_body(name).propagate, jpl.get_frame(name) objects
            P = st["parent"][A]
            try:
                body = jpl.get_body(names[A])
                ob = body.propagate(date)
                ctx.count("pairs:get_body-propagate")
                compare("get_body(name).propagate", A, P, probe.arr(ob))
                fa = jpl.get_frame(names[A])
                Bx = rng.choice([b for b in bodies if b != A and not names[b].endswith("Barycenter")])
                zf = StateVector(zero, date, "cartesian", fa).copy(frame=jpl.get_frame(names[Bx]))
                ctx.count("pairs:get_frame-objects")
                compare("zero-state(get_frame(A)).copy(frame=get_frame(B))", A, Bx, probe.arr(zf))
                ctx.expect(body.name == names[A] and fa.name == names[A] and fa.center.body is not None and float(fa.center.body.mu) > 0,
                           "C18/get_body-get_frame-metadata", dict(descr, body=names[A], got_body=str(body), got_frame=str(fa)),
                           f"get_body/get_frame({names[A]}) returned {body!r} / {fa!r}")
            except Exception as exc:
                ctx.violation("C18/get_body-get_frame-raises", dict(descr, body=names[A], exc=repr(exc)), f"get_body/get_frame({names[A]}) raised {exc!r}")
        for B in bodies:
            if A == B:
                continue
            # ---- zero state of frame A seen from frame B -----------------------------------
            try:
                z = StateVector(zero, date, "cartesian", names[A]).copy(frame=names[B])
                ctx.count("pairs:zero-state")
                ok = compare("zero-state.copy(frame)", A, B, probe.arr(z))
                nz += 1
            except Exception as exc:
                ctx.violation("C18/frame-conversion-raises", dict(descr, src=names[A], dst=names[B], exc=repr(exc)),
                              f"{names[A]} -> {names[B]} raised {exc!r}")
            # ---- the orbit of A converted to frame B -----------------------------------------
            if orb is not None:
                try:
                    o2 = orb.copy(frame=names[B])
                    ctx.count("pairs:get_orbit-converted")
                    ctx.expect(o2.frame.name == names[B], "C18/converted-frame-label", dict(descr, src=names[A], dst=names[B]),
                               f"result labelled {o2.frame.name}")
                    compare("get_orbit.copy(frame)", A, B, probe.arr(o2), via=(st["parent"][A], A))
                except Exception as exc:
                    ctx.violation("C18/frame-conversion-raises", dict(descr, src=names[A], dst=names[B], exc=repr(exc), method="get_orbit.copy"),
                                  f"get_orbit({names[A]}).copy(frame={names[B]}) raised {exc!r}")
    ctx.count("pairs-per-date-evaluated", nz)
    if twin is not None:
        return
    if idx % 3 == 0 and idx not in (1, 2):
        others = [x for x in ("TDB", "TT", "TAI", "GPS") + (("UTC",) if (MJD_2000 + 1 <= d <= UTC_MAX_MJD and not jpl_ref.near_leap(d, 1.5)) else ()) if x != scale]
        run_pairs(ctx, job, idx, rng, st, twin=(rng.choice(others), d, s))

    # ---- tabulation routes of a kernel orbit: on UTC dates, across a leap second every other time
    if idx % 4 == 3:
        A = rng.choice([b for b in bodies if b in st["parent"]])
        if rng.random() < 0.5:
            leap = rng.choice([53736, 54832, 56109, 57204, 57754])  # 2006-01-01, 2009-01-01, 2012-07-01, 2015-07-01, 2017-01-01
            first_tab = Date(leap - 1, 43200.0, scale="UTC")
            ctx.count("tabulation:across-a-leap-second")
        else:
            first_tab = date
        if lo + 1 < first_tab.mjd < hi - 45:
            tabulation_checks(ctx, rng, descr, f"{names[A]} (kernel)", lambda dd, A=A: jpl.get_orbit(names[A], dd), first_tab, 6 * 3600.0 * rng.choice([1, 2, 8, 20]),
                              rng.randint(5, 8), "C18/jpl-tabulated-state-differs-from-direct-request")

    # ---- the propagator used "the other way round" (kernel centre seen from its target: the library then
    #      takes the available segment and reverses it -- the sign = -1 branch of JplPropagator.propagate) ----
    fr = {f.name: f for f in jpl.list_frames()}
    for (c, t) in K.segs:
        try:
            rev = jpl.JplPropagator(fr[names[c]].center, fr[names[t]]).propagate(date)
            ctx.count("pairs:reversed-propagator")
            compare("JplPropagator(centre, frame=target)", c, t, probe.arr(rev))
        except Exception as exc:
            ctx.violation("C18/reversed-propagator-raises", dict(descr, obj=names[c], frame=names[t], exc=repr(exc)),
                          f"JplPropagator({names[c]}, frame {names[t]}) raised {exc!r}")

    # ---- an Earth satellite seen from every body, and back --------------------------------------
    r = 6.6e6 + rng.random() * 4e7
    u = _unit(rng)
    w_ = _unit(rng)
    vdir = np.cross(u, w_)
    vdir /= np.linalg.norm(vdir)
    sat = np.concatenate([u * r, vdir * math.sqrt(3.986004418e14 / r)])
    sv = StateVector(sat, date, "cartesian", "EME2000")
    for B in bodies:
        try:
            x = sv.copy(frame=names[B])
            ctx.count("pairs:satellite-to-body")
            if B != 399:
                compare("satellite(EME2000).copy(frame)", 399, B, probe.arr(x), extra={"satellite": sat.tolist()}, add=sat)
            else:
                _same(ctx, "satellite(EME2000)->Earth(JPL)", probe.arr(x), sat, descr)
            back = probe.arr(x.copy(frame="EME2000"))
            ctx.count("pairs:satellite-roundtrip")
            L = float(np.linalg.norm(probe.arr(x)[:3])) + r
            ctx.resid("jpl:roundtrip pos (m)", float(np.linalg.norm(back[:3] - sat[:3])), 1e-3 + 1e-12 * L,
                      key="C18/jpl-roundtrip-not-identity", witness=dict(descr, body=names[B], satellite=sat.tolist(), back=back.tolist()),
                      msg=f"EME2000 -> {names[B]} -> EME2000 does not restore the satellite")
            ctx.resid("jpl:roundtrip vel (m/s)", float(np.linalg.norm(back[3:] - sat[3:])), 1e-9 + 1e-12 * 1e5,
                      key="C18/jpl-roundtrip-not-identity", witness=dict(descr, body=names[B], satellite=sat.tolist(), back=back.tolist()),
                      msg=f"EME2000 -> {names[B]} -> EME2000 does not restore the satellite velocity")
        except Exception as exc:
            ctx.violation("C18/frame-conversion-raises", dict(descr, src="EME2000", dst=names[B], exc=repr(exc)), f"EME2000 -> {names[B]} raised {exc!r}")

    # ---- random non-zero vectors between body frames ------------------------------------------------
    for _ in range(24):
        A, B = rng.sample(bodies, 2)
        x0 = np.concatenate([_unit(rng) * 10 ** rng.uniform(6, 10), _unit(rng) * 10 ** rng.uniform(1, 4)])
        try:
            y = StateVector(x0, date, "cartesian", names[A]).copy(frame=names[B])
            ctx.count("pairs:random-vector")
            compare("vector.copy(frame)", A, B, probe.arr(y), extra={"vector": x0.tolist()}, add=x0)
        except Exception as exc:
            ctx.violation("C18/frame-conversion-raises", dict(descr, src=names[A], dst=names[B], exc=repr(exc)), f"{names[A]} -> {names[B]} raised {exc!r}")

    if idx == 0 or (job["create"] == "dynamic" and idx == 4):
        _observe_bodies(ctx, job, st, date)


def _same(ctx, what, got, exp, descr):
    ctx.resid("jpl:earth-identity (m)", float(np.linalg.norm(got[:3] - exp[:3])), 1e-6, key="C18/jpl-earth-frame-not-earth-centred",
              witness=dict(descr, got=got.tolist(), expected=exp.tolist()), msg=f"{what}: position changed")
    ctx.resid("jpl:earth-identity (m/s)", float(np.linalg.norm(got[3:] - exp[3:])), 1e-9, key="C18/jpl-earth-frame-not-earth-centred",
              witness=dict(descr, got=got.tolist(), expected=exp.tolist()), msg=f"{what}: velocity changed")


def _unit(rng):
    while True:
        v = np.array([rng.gauss(0, 1), rng.gauss(0, 1), rng.gauss(0, 1)])
        n = np.linalg.norm(v)
        if n > 1e-3:
            return v / n


def _observe_bodies(ctx, job, st, date):
    """Body constants seen through the frames (recorded, not judged: the statement is about vectors)."""
    from beyond.env import jpl

    mus = {}
    for f in jpl.list_frames():
        b = f.center.body
        mus[f.name] = [float(b.mu), float(b.equatorial_radius)] if b is not None else None
    ctx.note("body_mu_radius", mus)
    nonzero = sum(1 for v in mus.values() if v and v[0] > 0)
    ctx.note("bodies_with_mu", nonzero)
    ctx.count("observed:bodies-with-mu>0:" + job["jpl"], nonzero)
    try:
        kep = jpl.get_orbit("Moon", date).copy(frame="Earth", form="keplerian")
        ctx.note("moon_keplerian_about_earth", [float(x) for x in probe.arr(kep)])
    except Exception as exc:  # without PCK mu = 0: elements undefined; recorded only
        ctx.note("moon_keplerian_about_earth", repr(exc))


# ------------------------------------------------------------------------------------------------
# statement: Sun 0.02 deg / 1e-4 in distance, Moon 0.7 deg / 0.5 % in distance.  Measured on the unchanged
# tree (4000 dates): Sun 0.0115 deg / 7.0e-5, Moon 0.61 deg (in its declared frame EME2000; 0.37 deg if the
# series were taken as mean-of-date) / 3.3e-3.  The tolerances are the statement's, not tuned.
SUN_ANGLE, SUN_DIST = 0.02 * DEG, 1e-4
MOON_ANGLE, MOON_DIST = 0.7 * DEG, 5e-3
# velocity: the library differentiates its position over +-1 d (Moon) / +-5 d (Sun); for a motion of angular
# rate n the central difference over +-H underestimates by (nH)^2/6: Moon main term n = 0.23 rad/d -> 0.9 %
# (+ faster perturbation terms; measured 1.1 %), Sun 0.0172 x 5 -> 0.12 % (measured 0.13 %).  DESIGN: 3 % / 0.5 %.
MOON_VEL, SUN_VEL = 0.03, 0.005


def tabulation_checks(ctx, rng, descr, what, get_state, first, step_s, npts, key):
    """The tabulation routes -- orbit.iter(start, stop, step), orbit.iter(dates=...), orbit.ephem(...) -- give, date by date,
    the state a direct request gives (same vector, same instant): differential against the route judged above."""
    from beyond.dates import timedelta

    dates = [first + timedelta(seconds=k * step_s) for k in range(npts)]
    try:
        direct = [get_state(d) for d in dates]
        o0 = direct[0]
        perm = list(range(npts))
        rng.shuffle(perm)
        routes = {
            "iter(start, stop, step)": lambda: list(o0.iter(start=dates[0], stop=dates[-1], step=timedelta(seconds=step_s))),
            "iter(dates=)": lambda: list(o0.iter(dates=list(dates))),
            "ephem": lambda: list(o0.ephem(start=dates[0], stop=dates[-1], step=timedelta(seconds=step_s))),
            # time running backwards, or in no order at all: every date is still its own request
            "iter-backward(start, stop, step<0)": lambda: list(direct[-1].iter(start=dates[-1], stop=dates[0], step=timedelta(seconds=-step_s)))[::-1],
            "iter(dates=unsorted)": lambda: [x for _, x in sorted(zip(perm, direct[perm[0]].iter(dates=[dates[k_] for k_ in perm])), key=lambda t_: t_[0])],
        }
        name = rng.choice(sorted(routes))
        pts = routes[name]()
    except Exception as exc:
        ctx.violation(key + "-raises", dict(descr, what=what, exc=repr(exc)), f"tabulation of {what} raised {exc!r}")
        return
    ctx.count("tabulation:" + what.split(" ")[0])
    ctx.count("tabulation:route:" + name.split("(")[0])
    w = dict(descr, what=what, route=name, first=str(first), step_s=step_s, points=npts)
    if not ctx.expect(len(pts) == npts, key + "-dates", dict(w, got=len(pts)), f"{name} of {what}: {len(pts)} points for {npts} dates"):
        return
    for kk, (p, q, d) in enumerate(zip(pts, direct, dates)):
        a, b = probe.arr(p.copy(frame=q.frame) if str(p.frame) != str(q.frame) else p), probe.arr(q)
        derr = abs((p.date - q.date).total_seconds())  # differential: the instant the direct request is dated at
        dreq = abs((q.date - d).total_seconds())
        if dreq > 1.5e-6:
            # the direct request itself is not dated at the instant asked for.  One mechanism is C04's open finding (EOP values
            # looked up by the day number of the LABEL: a date whose label day differs from its UTC day gets the UT1-UTC of the
            # neighbouring day, <= a few ms): recognised by exactly that, recorded, and left to C04; anything else is judged here
            try:
                utc_day = int(d.change_scale("UTC").d)
                by_label = (int(d.d) != utc_day or int(q.date.d) != utc_day) and dreq <= 5e-3
            except Exception:
                by_label = False
            if by_label:
                ctx.count("tabulation:direct-request-date-off-by-eop-day-lookup-by-label (C04 finding, not judged here)")
            else:
                ctx.violation(key + "-dates", dict(w, index=kk, got=str(q.date), wanted=str(d), direct_request=True),
                              f"direct request of {what} for {d} is dated {q.date}")
        L, V = float(np.linalg.norm(b[:3])), float(np.linalg.norm(b[3:]))
        ctx.resid("tabulation:position vs direct request (rel)", float(np.linalg.norm(a[:3] - b[:3])) / max(L, 1.0), 1e-12, key=key,
                  witness=dict(w, index=kk, date=str(d), tabulated=a.tolist(), direct=b.tolist()),
                  msg=f"{name} of {what}: point {kk} ({d}) is {np.linalg.norm(a[:3] - b[:3]):.6g} m from the state requested directly for that date")
        ctx.resid("tabulation:velocity vs direct request (rel)", float(np.linalg.norm(a[3:] - b[3:])) / max(V, 1e-9), 1e-10, key=key,
                  witness=dict(w, index=kk, date=str(d), tabulated=a.tolist(), direct=b.tolist()),
                  msg=f"{name} of {what}: velocity of point {kk} ({d}) differs from the direct request by {np.linalg.norm(a[3:] - b[3:]):.6g} m/s")
        ctx.expect(derr <= 1.5e-6, key + "-dates", dict(w, index=kk, got=str(p.date), wanted=str(d)), f"{name} of {what}: point {kk} dated {p.date}, requested {d}")


def run_sunmoon(ctx, job, idx, rng, st):
    from beyond.dates import Date, timedelta
    from beyond.env import solarsystem
    from beyond.orbits import StateVector

    K = st["K"]
    scale, d, s = gen_instant(rng, idx, job["n"], MJD_2000, MJD_2021)
    descr = {"scale": scale, "mjd_day": d, "seconds": s}
    ctx.case(descr)
    ctx.count("scale:" + scale)
    date = Date(d, s, scale=scale)
    od, os_ = jpl_ref.to_tdb(scale, d, s)
    jd1, jd2 = od + 2400000.5, os_ / 86400.0
    P = jpl_ref.precession_j2000_to_mod(jd1 + jd2)

    for body, code, atol, dtol, vtol in (("Moon", 301, MOON_ANGLE, MOON_DIST, MOON_VEL), ("Sun", 10, SUN_ANGLE, SUN_DIST, SUN_VEL)):
        low = body.lower()
        ref, _, _ = K.state(code, 399, jd1, jd2)
        try:
            prop = solarsystem.get_body(body).propagator
            orb = solarsystem.get_body(body).propagate(date)
            x = probe.arr(orb)
            declared = orb.frame.name
        except Exception as exc:
            ctx.violation(f"C18/{low}-propagate-raises", dict(descr, exc=repr(exc)), f"{body} propagate raised {exc!r}")
            continue
        ctx.count("sunmoon:" + low)
        ctx.count(f"declared-frame:{low}:{declared}")
        if declared == "EME2000":
            ref_f = ref[:3]
        elif declared == "MOD":
            ref_f = P @ ref[:3]
        else:
            # another declared frame: bring the library's vector to EME2000 with the library (C02's subject)
            x = probe.arr(orb.copy(frame="EME2000"))
            ref_f = ref[:3]
        w = dict(descr, body=body, declared_frame=declared, got=x.tolist(), de403_in_declared_frame=[float(v) for v in ref_f])
        ang = jpl_ref.angle(x[:3], ref_f)
        dist = abs(float(np.linalg.norm(x[:3])) / float(np.linalg.norm(ref_f)) - 1.0)
        ctx.resid(f"{low}:angle vs DE403 (rad)", ang, atol, key=f"C18/{low}-direction-beyond-series-accuracy", witness=w,
                  msg=f"{body} at {scale} {d} {s}: {ang / DEG:.5f} deg from DE403 in {declared} (limit {atol / DEG} deg)")
        ctx.resid(f"{low}:distance vs DE403 (rel)", dist, dtol, key=f"C18/{low}-distance-beyond-series-accuracy", witness=w,
                  msg=f"{body} at {scale} {d} {s}: distance off by {dist:.3e} relative (limit {dtol})")
        # informational: the same vector if the series were read in the other frame (not judged)
        other = (P @ ref[:3]) if declared == "EME2000" else ref[:3]
        ctx.resid(f"info:{low}:angle in the other frame (rad)", jpl_ref.angle(x[:3], other), math.pi)

        # velocity = d/dt position (60 s central difference of the library's own position function)
        try:
            h = 60.0
            p1 = probe.arr(prop.propagate(date + timedelta(seconds=h)))[:3]
            p0 = probe.arr(prop.propagate(date - timedelta(seconds=h)))[:3]
            fd = (p1 - p0) / (2 * h)
            rel = float(np.linalg.norm(fd - x[3:])) / float(np.linalg.norm(fd))
            ctx.count("sunmoon:velocity")
            ctx.resid(f"{low}:velocity vs d/dt position (rel)", rel, vtol, key=f"C18/{low}-velocity-not-derivative-of-position",
                      witness=dict(w, fd=fd.tolist()), msg=f"{body}: velocity {x[3:].tolist()} vs finite difference {fd.tolist()} (rel {rel:.4g})")
        except Exception as exc:
            ctx.violation(f"C18/{low}-propagate-raises", dict(descr, exc=repr(exc)), f"{body} propagate(+-60 s) raised {exc!r}")

        if idx % 16 == 0:
            # tabulated at a step finer than the library's differentiation step (1 d Moon, 5 d Sun), 5 points or more
            step_tab = rng.choice([6 * 3600.0, 12 * 3600.0]) if body == "Moon" else rng.choice([86400.0, 2 * 86400.0, 5 * 86400.0])
            tabulation_checks(ctx, rng, descr, f"{body} (analytical)", lambda dd, body=body: solarsystem.get_body(body).propagate(dd), date, step_tab,
                              rng.randint(5, 9), f"C18/{low}-tabulated-state-differs-from-direct-request")
        # the frame built from the body places the body at its origin (solarsystem.get_frame)
        if idx % 4 == 0:
            try:
                frame = st[low + "_frame"]
                o = probe.arr(StateVector([0.0] * 6, date, "cartesian", frame).copy(frame=declared))
                xo = probe.arr(orb)
                ctx.resid(f"{low}:frame origin (m)", float(np.linalg.norm(o[:3] - xo[:3])), 1e-6 * max(1.0, float(np.linalg.norm(xo[:3])) / 1e9),
                          key="C18/solarsystem-frame-origin-not-body", witness=dict(descr, body=body, origin=o.tolist(), body_state=xo.tolist()),
                          msg=f"origin of frame {body} differs from {body} propagate()")
            except Exception as exc:
                ctx.violation("C18/solarsystem-frame-raises", dict(descr, body=body, exc=repr(exc)), f"frame {body} -> {declared} raised {exc!r}")


def finish(ctx, job, st):
    for p_ in st.get("probes", []):
        p_.remove()
    try:
        st["K"].close()
    except Exception:
        pass
