"""C01 -- element forms are lossless, definition-true views of one state.

Monitors
  * reference model: every form's six numbers vs vmon.oracles.elements (vector definitions)
  * round trip: src -> dst -> src -> cartesian equals the truth cartesian state (all 10x10 pairs)
  * hook on all Form._x_to_y edges: the walked edge sequence is the unique tree path,
    the receiver of copy() is unchanged, outputs are finite
  * Infos relations (period, apsides, speed, energy, flight-path angle ...)
"""

import math

import numpy as np

from .. import gen, probe
from ..oracles import elements as el

RULE = (
    "case = one generated orbit (class of e, i, anomaly, central body, pericentre radius) pushed through all "
    "ordered (source form, target form) pairs defined for it; distinct = digest of the generated elements; "
    "non-trivial = at least one pair with source != target walked >= 1 conversion edge"
)
EXHAUSTIVE = ["10x10 ordered form pairs per generated orbit (8x8 for hyperbolic orbits: tle and mean_circular undefined)"]
ASSUMPTIONS = [
    "textbook definitions in vmon/oracles/elements.py are the truth",
    "body.mu, body.equatorial_radius of beyond.constants are data, not mechanism",
    "for hyperbolic orbits the forms 'tle' (n of a<0) and 'keplerian_mean_circular' (alpha reduced mod 2pi) are not defined",
]

FORMS = list(el.FORMS)
HYP_UNDEFINED = {"tle", "keplerian_mean_circular"}

# independent description of the form graph (a tree)
TREE_EDGES = [
    ("spherical", "cartesian"), ("cartesian", "keplerian"), ("keplerian", "keplerian_eccentric"),
    ("keplerian_eccentric", "keplerian_mean"), ("keplerian_mean", "tle"), ("equinoctial", "keplerian"),
    ("keplerian", "keplerian_circular"), ("keplerian_mean", "keplerian_mean_circular"), ("cartesian", "cylindrical"),
]


def tree_path(a, b):
    adj = {}
    for x, y in TREE_EDGES:
        adj.setdefault(x, []).append(y)
        adj.setdefault(y, []).append(x)
    prev = {a: None}
    queue = [a]
    while queue:
        n = queue.pop(0)
        for m in adj[n]:
            if m not in prev:
                prev[m] = n
                queue.append(m)
    path = [b]
    while path[-1] != a:
        path.append(prev[path[-1]])
    path.reverse()
    return list(zip(path, path[1:]))


def jobs(tier):
    n = 3000 if tier == "quick" else 96000
    return [{"name": "forms", "n": n, "eop": "zero"}]


def requirements(tier):
    req = {f"edge:{a}->{b}": 50 for a, b in TREE_EDGES}
    req.update({f"edge:{b}->{a}": 50 for a, b in TREE_EDGES})
    for k in gen.ECC_CLASSES:
        req["ecc:" + k] = 10
    for b in ("M2E:ell:minus", "M2E:ell:plus", "M2E:hyp<1.6:minus", "M2E:hyp<1.6:plus", "M2E:hyp<3.6:sign", "M2E:hyp:ratio"):
        req[b] = 20
    req["infos-evaluated"] = 100
    req["infos-evaluated:derived"] = 100
    req["infos-evaluated:original"] = 50
    req["form-name-spelling"] = 5000
    req["form-name-spelling:short-alias"] = 500
    return req


def setup(ctx, job):
    from beyond.orbits.forms import Form
    from beyond.frames.frames import Frame
    from beyond.frames import orient
    from beyond.frames.center import Center

    st = {"edges": [], "probes": []}

    for a, b in TREE_EDGES + [(b, a) for a, b in TREE_EDGES]:
        name = f"_{a}_to_{b}"

        def post(args, kw, res, a=a, b=b):
            st["edges"].append((a, b))
            ctx.count(f"edge:{a}->{b}")
            st["nonfinite"] = st.get("nonfinite", False) or (not np.all(np.isfinite(res)))

        st["probes"].append(probe.attach(Form, name, post=post))

    def m2e_pre(args, kw):
        # classify the start-value branch from the arguments (cls, e, M)
        e, M = args[1], args[2]
        if e < 1:
            ctx.count("M2E:ell:minus" if (-math.pi < M < 0 or M > math.pi) else "M2E:ell:plus")
        elif e < 1.6:
            ctx.count("M2E:hyp<1.6:minus" if (-math.pi < M < 0 or M > math.pi) else "M2E:hyp<1.6:plus")
        elif e < 3.6 and abs(M) > math.pi:
            ctx.count("M2E:hyp<3.6:sign")
        else:
            ctx.count("M2E:hyp:ratio")

    st["probes"].append(probe.attach(Form, "M2E", pre=m2e_pre))

    frames = {}
    for name, body in gen.bodies().items():
        if name == "Earth":
            from beyond.frames.frames import EME2000

            frames[name] = EME2000
        else:
            frames[name] = Frame(f"Vmon{name}Inertial", orient.EME2000, Center(f"Vmon{name}", body=body))
    st["frames"] = frames
    return st


def comp_tol(kind, truth, c, rscale, vscale):
    """Tolerance of one component by kind (DESIGN C01 Tol)."""
    e, i = c["e"], c["i"]
    nscale = math.sqrt(c["mu"] / abs(c["a"]) ** 3)
    cond_e = max(1.0, 1.0 / min(e, 1.0))
    cond_i = max(1.0, 1.0 / math.sin(i))
    base = 1e-10
    if kind == "len":
        return 1e-9 * max(abs(truth), rscale)
    if kind == "vel":
        return 1e-9 * max(abs(truth), vscale)
    if kind == "num":
        return 1e-9 * max(1.0, abs(truth))
    if kind == "ang_i":
        return base * 10
    if kind == "ang":
        # longitude / latitude of the position: the same rounding of the cartesian state seen from the polar axis
        rho = max(math.hypot(c["r"][0], c["r"][1]), 1e-300)
        return base * 10 + 64 * 2.220446049250313e-16 * rscale / rho
    if kind == "ang_node":
        return base * cond_i
    if kind in ("ang_peri",):
        return base * cond_e * cond_i
    if kind in ("ang_anom", "ang_anomE", "ang_anomM"):
        tol = base * cond_e * max(1.0, abs(truth))
        if e > 1 and kind in ("ang_anomE", "ang_anomM"):
            # the form tree reaches H and M through the true anomaly; far out on a hyperbola dH/dnu = r/b and
            # dM/dnu = (r/|a|)(r/b) (b = |a| sqrt(e^2-1)), so the 4.4e-16 rad resolution of nu ~ 2 rad is amplified:
            # measured 1.0e-6 rad on M = 5497 at e = 1.0012 (r/|a| = 5.5e3, r/b = 1.1e5, i.e. 1.7e-15 rad on nu),
            # while M computed directly from (r, v) moves by 1e-11 under 1-ulp perturbations of the state.
            a_, b_ = abs(c["a"]), abs(c["a"]) * math.sqrt(e * e - 1)
            amp = rscale / b_ if kind == "ang_anomE" else (rscale / a_) * (rscale / b_)
            tol += 100 * 4.4e-16 * amp
        return tol
    if kind == "ang_u":
        return base * cond_i
    if kind == "rate_n":
        return 1e-9 * nscale
    if kind == "angrate":
        # theta_dot = (x vy - y vx) / rho^2 and phi_dot carry 1/rho (rho = distance to the polar axis): over the poles the
        # rounding of the cartesian state (<= 64 ulp of |r|, |v|: measured 1 ulp) is amplified by |v|/rho^2 and 1/rho.
        # Observed 3.5e-13 rad/s (6.8e-9 relative) at rho = 5.6 km, r = 25 000 km, i = pi/2 - 1.6e-8.
        rho = max(math.hypot(c["r"][0], c["r"][1]), 1e-300)
        vxy = math.hypot(c["v"][0], c["v"][1])
        amp = 64 * 2.220446049250313e-16 * (rscale * (vxy / rho ** 2 + 2 * abs(truth) / rho) + vscale / rho)
        return 1e-9 * max(abs(truth), vscale / rscale) + amp
    raise ValueError(kind)


def compare_form(ctx, form, got, truth, c, rscale, vscale, hyper, witness, tag):
    kinds = el.FORMS[form]
    ok = True
    for k, (kind, g, t) in enumerate(zip(kinds, got, truth)):
        if kind.startswith("ang") and kind != "angrate" and not (hyper and kind in ("ang_anomE", "ang_anomM") and form != "keplerian_mean_circular"):
            d = el.angdiff(g, t)
        else:
            d = abs(g - t)
        tol = comp_tol(kind, t, c, rscale, vscale)
        if math.isnan(d):
            key = "C01/definition-nan" + ("-hyperbolic" if hyper else "")
        else:
            key = f"C01/definition-{form}" + ("-hyperbolic" if hyper else "")
        w = dict(witness, form=form, component=k, got=float(g), expected=float(t), tag=tag)
        ok &= ctx.resid(f"def:{form}[{k}]" + (":hyp" if hyper else ""), d, tol, key=key, witness=w,
                        msg=f"{tag}: {form}[{k}] = {g!r}, textbook definition gives {t!r}")
    return ok


def run_case(ctx, job, idx, rng, st):
    from beyond.orbits import StateVector
    from beyond.dates import Date

    # rotate deterministically through the classes so that every class is populated
    ecc_class = list(gen.ECC_CLASSES)[idx % len(gen.ECC_CLASSES)]
    inc_class = list(gen.INC_CLASSES)[(idx // len(gen.ECC_CLASSES)) % len(gen.INC_CLASSES)]
    c = gen.orbit_case(rng, ecc_class=ecc_class, inc_class=inc_class)
    hyper = c["e"] > 1
    ctx.count("ecc:" + c["ecc_class"])
    ctx.count("inc:" + c["inc_class"])
    ctx.count("anomaly:" + ("hyp:" if hyper else "ell:") + c["anomaly_class"])
    ctx.count("body:" + c["body"])
    descr = {k: c[k] for k in ("body", "a", "e", "i", "raan", "argp", "M", "ecc_class", "inc_class", "anomaly_class")}
    ctx.case(descr)
    frame = st["frames"][c["body"]]
    mu = c["mu"]
    r, v = np.array(c["r"]), np.array(c["v"])
    rscale, vscale = float(np.linalg.norm(r)), float(np.linalg.norm(v))
    date = Date(2020, 1, 1)
    truth_cart = np.concatenate([r, v])
    forms = [f for f in FORMS if not (hyper and f in HYP_UNDEFINED)]
    truth = {f: el.form_values(f, r, v, mu) for f in forms}
    # the oracle's own M (reduced mod 2pi for ellipses); for hyperbolas the generated M
    sv_cart = StateVector(truth_cart, date, "cartesian", frame)
    witness = dict(descr, r=c["r"], v=c["v"], mu=mu)
    p_semi = abs(c["a"]) * abs(1 - c["e"] ** 2)

    def roundtrip_check(z, tag, w):
        if z is None:
            return
        zc = probe.arr(z)
        bad_nan = not np.all(np.isfinite(zc))
        dr = float(np.linalg.norm(zc[:3] - r)) if not bad_nan else float("nan")
        dv = float(np.linalg.norm(zc[3:] - v)) if not bad_nan else float("nan")
        key = "C01/roundtrip" + ("-nan" if bad_nan else "") + ("-hyperbolic" if hyper else "")
        # far out on a hyperbola (|H| large) 1 + e cos(nu) = p/r cancels: one rounding of an angle moves the position by
        # eps r/p relative (same term as in C05's state tolerance); 64 roundings allowed, never below the flat 1e-9
        rel = max(1e-9, 64 * 2.220446049250313e-16 * rscale / p_semi)
        ctx.resid("roundtrip:pos" + (":hyp" if hyper else ""), dr, rel * rscale, key=key, witness=w,
                  msg=f"{tag}: position not restored, |dr|={dr!r} m (|r|={rscale:.6g})")
        ctx.resid("roundtrip:vel" + (":hyp" if hyper else ""), dv, rel * vscale, key=key, witness=w,
                  msg=f"{tag}: velocity not restored, |dv|={dv!r} m/s")

    for src in forms:
        # source object: alternately converted by the library from cartesian, or built from the oracle's numbers
        from_oracle = rng.random() < 0.5
        try:
            if from_oracle:
                vals = list(truth[src])
                if src in ("keplerian_mean", "tle") and not hyper:
                    # keep the generated (possibly negative / > pi) mean anomaly: exercises the M2E branches
                    vals[5 if src == "keplerian_mean" else 4] = c["M"]
                x_src = StateVector(vals, date, src, frame)
            else:
                st["edges"].clear()
                x_src = sv_cart.copy(form=src)
                exp = tree_path("cartesian", src)
                ctx.expect(st["edges"] == exp, "C01/path-not-tree-chain", dict(witness, src="cartesian", dst=src, walked=st["edges"]),
                           f"cartesian->{src} walked {st['edges']}, tree path is {exp}")
                compare_form(ctx, src, probe.arr(x_src), truth[src], c, rscale, vscale, hyper, witness, f"cartesian->{src}")
        except Exception as exc:
            ctx.violation("C01/conversion-raises" + ("-hyperbolic" if hyper else ""), dict(witness, src="cartesian", dst=src, exc=repr(exc)),
                          f"cartesian->{src} raised {exc!r}")
            continue
        for dst in forms:
            w = dict(witness, src=src, dst=dst, from_oracle=from_oracle)
            tag = f"{src}->{dst}"
            try:
                st["edges"].clear()
                inplace = rng.random() < 0.4
                fp0 = probe.fingerprint(x_src)
                if inplace:
                    y = x_src.copy()
                    y.form = dst
                else:
                    y = x_src.copy(form=dst)
                    ctx.expect(probe.fingerprint(x_src) == fp0, "C01/copy-mutates-receiver", w, f"{tag}: receiver of copy(form=) changed")
                exp = tree_path(src, dst) if src != dst else []
                ctx.expect(st["edges"] == exp, "C01/path-not-tree-chain", dict(w, walked=st["edges"]),
                           f"{tag} walked {st['edges']}, tree path is {exp}")
                ctx.expect(y.form.name == dst, "C01/form-label", w, f"{tag}: result labelled {y.form.name}")
                if src != dst and exp:
                    ctx.count("pairs-nontrivial")
                ctx.count("path-inplace" if inplace else "path-copy")
                # definition of the target form's numbers (only meaningful when the source is exact)
                compare_form(ctx, dst, probe.arr(y), truth[dst], c, rscale, vscale, hyper, w, tag)
                # and back
                z = y.copy(form=src).copy(form="cartesian")
                roundtrip_check(z, f"{src}->{dst}->{src}->cartesian", w)
            except Exception as exc:
                ctx.violation("C01/conversion-raises" + ("-hyperbolic" if hyper else ""), dict(w, exc=repr(exc)), f"{tag} raised {exc!r}")

    # ---- the other documented spellings of the form names (short aliases, any letter case): the same form, the same numbers
    ALIASES = {"keplerian_circular": "circular", "keplerian_mean": "mean", "keplerian_mean_circular": "mean_circular", "keplerian_eccentric": "eccentric"}
    for full in forms:
        spellings = [full.upper(), full.title()] + ([ALIASES[full], ALIASES[full].upper()] if full in ALIASES else [])
        name = rng.choice(spellings)
        w = dict(witness, form=full, spelling=name)
        try:
            how = rng.choice(["copy", "setter", "constructor"])
            if how == "copy":
                y = sv_cart.copy(form=name)
            elif how == "setter":
                y = sv_cart.copy()
                y.form = name
            else:
                y = StateVector(list(truth[full]), date, name, frame)
            ctx.count("form-name-spelling")
            if full in ALIASES and name.lower() == ALIASES[full]:
                ctx.count("form-name-spelling:short-alias")
            ctx.expect(y.form.name == full, "C01/form-name-spelling-resolves-to-another-form", dict(w, how=how, got=y.form.name),
                       f"form asked as {name!r} ({how}): got the form {y.form.name!r}")
            compare_form(ctx, full, probe.arr(y), truth[full], c, rscale, vscale, hyper, dict(w, how=how), f"form asked as {name!r} ({how})")
            roundtrip_check(y.copy(form="cartesian"), f"{name!r} ({how}) -> cartesian", dict(w, how=how))
        except Exception as exc:
            ctx.violation("C01/conversion-raises" + ("-hyperbolic" if hyper else ""), dict(w, exc=repr(exc)), f"form asked as {name!r} raised {exc!r}")

    infos_check(ctx, sv_cart, c, r, v, mu, rscale, vscale, hyper, witness, rng, forms)


def infos_check(ctx, sv_cart, c, r, v, mu, rscale, vscale, hyper, witness, rng, forms):
    infos_one(ctx, sv_cart.copy(form=rng.choice(forms)), c, r, v, mu, hyper, dict(witness, history="fresh"), "fresh")
    # history: the infos of a state are consulted, then a state DERIVED from it (copy, in-place edit) is asked for its own
    # infos: they must describe the derived state, not the one consulted before
    src = sv_cart.copy()
    _ = (src.infos.r, src.infos.v, src.infos.energy, src.infos.fpa)
    k_r, k_v = rng.uniform(1.05, 1.6), rng.uniform(0.7, 0.95) if not hyper else rng.uniform(1.05, 1.3)
    r2, v2 = r * k_r, v * k_v
    e2 = el.classical(r2, v2, mu)["e"]
    if (e2 < 0.999 or e2 > 1.001) and e2 > 1e-4:
        c2 = dict(c)
        how = rng.choice(["copy-then-edit", "edit-in-place", "copy-form-then-edit"])
        if how == "copy-then-edit":
            dst = src.copy()
        elif how == "edit-in-place":
            dst = src
        else:
            dst = src.copy(form="spherical").copy(form="cartesian")
        dst[:3] = r2
        dst[3:] = v2
        ctx.count("infos-history:" + how)
        infos_one(ctx, dst, c2, r2, v2, mu, e2 > 1, dict(witness, history=how, k_r=k_r, k_v=k_v), "derived")
        if how != "edit-in-place":
            # and the state consulted first still reports its own quantities
            infos_one(ctx, src, c, r, v, mu, hyper, dict(witness, history="original-after-" + how), "original")


def infos_one(ctx, sv, c, r, v, mu, hyper, witness, tag):
    body = gen.bodies()[c["body"]]
    rscale, vscale = float(np.linalg.norm(r)), float(np.linalg.norm(v))
    form = sv.form.name
    inf = sv.infos
    cl = el.classical(r, v, mu)
    a, e = cl["a"], cl["e"]
    ctx.count("infos-evaluated")
    ctx.count("infos-evaluated:" + tag)
    w = dict(witness, infos_form=form)
    ksuf = "" if tag == "fresh" else "-stale-after-history"

    def chk(name, got, exp, tol, keysuffix=None):
        try:
            g = float(got() if callable(got) else got)
        except Exception as exc:
            ctx.violation(f"C01/infos-{name}-raises", dict(w, exc=repr(exc)), f"infos.{name} raised {exc!r}")
            return
        d = abs(g - exp)
        ctx.resid(f"infos:{name}", d, tol, key=f"C01/infos-{keysuffix or name}{ksuf}", witness=dict(w, quantity=name, got=g, expected=exp),
                  msg=f"infos.{name} = {g!r}, defining relation gives {exp!r}")

    rel = 1e-9
    chk("r", lambda: inf.r, rscale, rel * rscale)
    chk("v", lambda: inf.v, vscale, rel * vscale)
    chk("energy", lambda: inf.energy, cl["energy"], rel * abs(cl["energy"]) + 1e-12 * mu / rscale)
    chk("n", lambda: inf.n, cl["n"], rel * cl["n"])
    rp = a * (1 - e)
    chk("rp", lambda: inf.rp, rp, rel * abs(rp))
    chk("pericenter", lambda: inf.pericenter, rp, rel * abs(rp))
    chk("zp", lambda: inf.zp, rp - body.equatorial_radius, rel * abs(rp))
    chk("vp", lambda: inf.vp, math.sqrt(mu * (2 / rp - 1 / a)), rel * vscale * 10)
    sin_fpa = cl["rv"] / (rscale * vscale)
    cos_fpa = cl["h"] / (rscale * vscale)
    chk("fpa", lambda: inf.fpa, math.atan2(sin_fpa, cos_fpa), 1e-9)
    chk("cos_fpa", lambda: inf.cos_fpa, cos_fpa, 1e-9, keysuffix="cos_sin_fpa")
    chk("sin_fpa", lambda: inf.sin_fpa, sin_fpa, 1e-9, keysuffix="cos_sin_fpa")
    typ = "hyperbolic" if hyper else "elliptic"
    try:
        ctx.expect(inf.type == typ and bool(inf.hyperbolic) == hyper and bool(inf.elliptic) == (not hyper) and not inf.parabolic,
                   "C01/infos-type", w, f"infos.type={inf.type!r} for e={e}")
    except Exception as exc:
        ctx.violation("C01/infos-type-raises", dict(w, exc=repr(exc)), repr(exc))
    if not hyper:
        T = 2 * math.pi * math.sqrt(a ** 3 / mu)
        chk("period", lambda: inf.period.total_seconds(), T, rel * T + 1e-6)  # timedelta: 1 us resolution
        ra = a * (1 + e)
        chk("ra", lambda: inf.ra, ra, rel * ra)
        chk("apocenter", lambda: inf.apocenter, ra, rel * ra)
        chk("za", lambda: inf.za, ra - body.equatorial_radius, rel * ra)
        chk("va", lambda: inf.va, math.sqrt(mu * (2 / ra - 1 / a)), rel * vscale * 10)
        for name in ("vinf", "dinf"):
            try:
                getattr(inf, name)
                ctx.violation("C01/infos-undefined-not-refused", dict(w, quantity=name), f"infos.{name} defined for an ellipse")
            except ValueError:
                ctx.ok("infos-refusal")
    else:
        chk("vinf", lambda: inf.vinf, math.sqrt(mu / abs(a)), rel * vscale)
        chk("dinf", lambda: inf.dinf, abs(a) * math.sqrt(e * e - 1), rel * abs(a) * e)
        for name in ("period", "apocenter", "ra", "za", "va"):
            try:
                getattr(inf, name)
                ctx.violation("C01/infos-undefined-not-refused", dict(w, quantity=name), f"infos.{name} defined for a hyperbola")
            except ValueError:
                ctx.ok("infos-refusal")


def finish(ctx, job, st):
    for p in st["probes"]:
        p.remove()
