"""C04 -- results depend on the instant, never on the Date's scale label.

Metamorphic / differential monitor: for a generated instant every date-consuming public operation
is run with all-UTC labels (baseline) and with the argument date and/or the object's epoch relabelled
in each of the 6 scales (the relabelled Date is built from the *oracle's* clock reading of the same
instant, vmon.oracles.timescales, not through the library's change_scale).  Results must agree.
Two configurations: real IERS tables and a constant EOP record (same cases in both: the PRNG of a case
does not depend on the job name).
"""

import datetime as dt
import math
import random

import numpy as np

from .. import env, probe
from ..oracles import elements as el
from ..oracles import timescales as ts

RULE = (
    "case = one generated instant (uniform 1973-2017, 35 % within +-70 s of a UTC midnight, leap windows excluded) + one generated "
    "orbit; every operation x 16 label variants (argument label, epoch label, both); distinct = digest of (instant, orbit); "
    "non-trivial = at least one variant with a label other than UTC was compared with the baseline"
)
ASSUMPTIONS = [
    "the all-UTC run is the baseline (the comparison is differential, not absolute)",
    "clock reading of an instant in another scale computed from own IERS parser (vmon/oracles/timescales.py)",
    "TLE epochs are generated on the 1e-8 day grid of the format (so that a <= 1 us relabelling cannot flip the printed epoch)",
]

T0 = dt.datetime(1858, 11, 17)
OMEGA_E = 7.2921159e-5
LABELS = ts.SCALES
_tables = None

OPS = ["sgp4", "sgp4beta", "kepler", "j2", "keplernum", "cw", "keplernum-man", "cw-man", "none", "sun", "moon", "frames", "station", "ephem", "ephem-nodes", "ephem-own", "events",
       "tle-text", "ccsds-opm", "ccsds-oem", "ccsds-man", "lambert", "ltan", "beta"]


def tables():
    global _tables
    if _tables is None:
        _tables = ts.Tables(env.repo_dir() / env.POLE)
    return _tables


def jobs(tier):
    n = 100 if tier == "quick" else 3000
    # labels-none: no tables at all (policy "pass"): every correction is zero, TAI = UTC = UT1 and only GPS, TT, TDB differ
    return [{"name": "labels-real", "n": n, "eop": "real"}, {"name": "labels-const", "n": n, "eop": "const"},
            {"name": "labels-none", "n": max(40, n // 3), "eop": "zero"}]


def requirements(tier):
    req = {f"op:{o}": 100 for o in OPS}
    req.update({f"label:{l}": 100 for l in LABELS})
    req["near-midnight"] = 30
    return req


def forced(job):
    if job["eop"] == "const":
        return dict(ut1_utc=0.01756018472222477, tai_utc=36.0)
    if job["eop"] == "zero":
        return dict(ut1_utc=0.0, tai_utc=0.0)
    return {}


def setup(ctx, job):
    from beyond.frames.stations import create_station

    st = {"station": create_station("VmonC04", (43.6, 1.44, 172.0))}
    return st


class Instant:
    """An instant known by its UTC clock reading (microsecond grid); .date(label) builds the labelled Date."""

    def __init__(self, utc_dt, job):
        self.utc = utc_dt
        d = utc_dt - T0
        self.mjd = d.days + (d.seconds + d.microseconds * 1e-6) / 86400.0
        self.job = job

    def shifted(self, seconds):
        return Instant(self.utc + dt.timedelta(microseconds=round(seconds * 1e6)), self.job)

    def clock(self, label):
        off = ts.offset_from_utc(label, self.mjd, tables(), **forced(self.job))
        return self.utc + dt.timedelta(seconds=off)

    def date(self, label):
        from beyond.dates import Date

        return Date(self.clock(label), scale=label)

    def label_day_differs(self, label):
        c = self.clock(label) - T0
        return c.days != math.floor(self.mjd)


def gen_instant(rng, job, lo_year=None):
    tb = tables()
    while True:
        day = rng.randint(tb.mjd_min + 40, tb.mjd_max - 40)
        near = rng.random() < 0.35
        sec = rng.uniform(-70, 70) if near else rng.uniform(0, 86400)
        us = int(round(sec * 1e6))
        mjd = day + us / 86400e6
        # keep the whole +-31 day neighbourhood used by the operations free of leap seconds? no: only the instants
        if tb.near_leap(mjd, 7300.0):
            continue
        return Instant(T0 + dt.timedelta(days=day, microseconds=us), job), near


def vec(x):
    return probe.arr(x)


def variants(rng):
    """(argument label, epoch label) pairs: baseline first."""
    out = [("UTC", "UTC")]
    out += [(l, "UTC") for l in LABELS if l != "UTC"]
    out += [("UTC", l) for l in LABELS if l != "UTC"]
    out += [(l, l) for l in LABELS if l != "UTC"]
    return out


def run_case(ctx, job, idx, rng, st):
    # the same cases in both configurations
    rng = random.Random(f"{ctx.seed}:c04:{idx}")
    from beyond.dates import Date, timedelta
    from beyond.orbits import Orbit, StateVector, Ephem
    from beyond.propagators.kepler import Kepler
    from beyond.propagators.j2 import J2
    from beyond.propagators.none import NonePropagator
    from beyond.propagators.keplernum import KeplerNum
    from beyond.propagators.cw import ClohessyWiltshire
    from beyond.propagators.listeners import NodeListener
    from beyond.env.solarsystem import get_body
    from beyond.io.tle import Tle
    from beyond.io import ccsds
    from beyond.orbits.man import ImpulsiveMan
    from beyond.utils.lambert import lambert
    from beyond.utils.ltan import raan2ltan
    from beyond.utils.beta import beta
    from beyond.constants import Earth

    real = job["eop"] == "real"
    epoch, near = gen_instant(rng, job)
    # TLE epoch on the 1e-8 day grid (864 us)
    us_of_day = (epoch.utc - epoch.utc.replace(hour=0, minute=0, second=0, microsecond=0)) // dt.timedelta(microseconds=1)
    us_of_day = (us_of_day // 864) * 864
    epoch = Instant(epoch.utc.replace(hour=0, minute=0, second=0, microsecond=0) + dt.timedelta(microseconds=us_of_day), job)
    off_s = rng.choice([0.0, rng.uniform(-1800, 1800), rng.uniform(-86400 * 3, 86400 * 3), rng.uniform(-70, 70)])
    arg = epoch.shifted(off_s)
    tb = tables()
    if tb.near_leap(arg.mjd, 7300.0) or any(epoch.mjd - 4 < l < epoch.mjd + 4 for l in tb.leap_mjds()):
        raise env.HarnessSkip()
    if near:
        ctx.count("near-midnight")

    mu = float(Earth.mu)
    e = rng.uniform(1e-3, 0.1)
    a = rng.uniform(6.65e6, 8.0e6) / (1 - e)  # perigee above the surface
    inc = rng.uniform(0.2, 2.8)
    raan, argp, M = (rng.uniform(0, 2 * math.pi) for _ in range(3))
    nu = el.nu_from_M(e, M)
    r, v = el.kep2cart(a, e, inc, raan, argp, nu, mu)
    cart = [float(x) for x in r] + [float(x) for x in v]
    n_rad_s = math.sqrt(mu / a ** 3)
    bstar = rng.choice([0.0, rng.uniform(-1e-4, 1e-3)])
    descr = {"epoch_utc": epoch.utc.isoformat(), "arg_utc": arg.utc.isoformat(), "a": a, "e": e, "i": inc, "raan": raan, "argp": argp, "M": M, "bstar": bstar}
    ctx.case(descr)
    vr = float(np.linalg.norm(v))
    rr = float(np.linalg.norm(r))

    def tle_orbit(le, propagator):
        return Orbit([inc, raan, e, argp, M, n_rad_s], epoch.date(le), "TLE", "TEME", propagator, bstar=bstar, ndot=0.0, ndotdot=0.0,
                     name="VMON", cospar_id="1998-067A", norad_id=25544, element_nb=999, revolutions=12345, type=0)

    def cart_orbit(le, propagator):
        return Orbit(cart, epoch.date(le), "cartesian", "EME2000", propagator)

    # ---- operations: each returns dict name -> ("vec", array) | ("text", str) | ("us", float microseconds) | ("sec", float)
    def op_sgp4(l, le):
        return {"pv": ("vec", vec(tle_orbit(le, "Sgp4").propagate(arg.date(l))))}

    def op_sgp4beta(l, le):
        from beyond.propagators.sgp4beta import Sgp4Beta

        p = Sgp4Beta()  # not a Propagator subclass: driven as the repository's own test does
        p.orbit = tle_orbit(le, "Sgp4")
        return {"pv": ("vec", vec(p.propagate(arg.date(l))))}

    def op_kepler(l, le):
        return {"pv": ("vec", vec(cart_orbit(le, Kepler()).propagate(arg.date(l))))}

    def op_j2(l, le):
        return {"pv": ("vec", vec(cart_orbit(le, J2()).propagate(arg.date(l))))}

    short = epoch.shifted(max(-1500.0, min(1500.0, off_s)))

    def op_keplernum(l, le):
        prop = KeplerNum(timedelta(seconds=60), get_body("Earth"))
        # <= 25 steps + 8 are needed; a logical-step budget turns an endless loop into an observation
        with probe.CallBudget(KeplerNum, "_make_step", 2000):
            return {"pv": ("vec", vec(cart_orbit(le, prop).propagate(short.date(l))))}

    def op_cw(l, le):
        o = Orbit([100.0, -500.0, 30.0, 0.1, -0.2, 0.05], epoch.date(le), "cartesian", "Hill", ClohessyWiltshire(7.0e6))
        return {"pv": ("vec", vec(o.propagate(short.date(l))))}

    # maneuvers dated with the label `l` on an orbit whose epoch is labelled `le` (the propagator derives its own dates
    # from the epoch): a burn window and an impulse, both off the step grid, strictly inside the propagated span
    # ... and at least 1 s away from every Runge-Kutta stage time of the 60 s grid (multiples of 30 s for the default rk4):
    # the integrator samples the burn window at its stage dates, so an edge within the time resolution of a stage would
    # turn a microsecond of relabelling into a whole stage of thrust (an artefact of the discretisation, not of labels)
    while True:
        b0 = round(rng.uniform(303.0, 350.0), 6)
        burn_dur = round(rng.uniform(90.0, 240.0), 6)
        if all(1.0 < (x % 30.0) < 29.0 for x in (b0, b0 + burn_dur)):
            break
    burn_start = epoch.shifted(b0)
    burn_acc = [rng.uniform(-1, 1) * 0.01 for _ in range(3)]
    imp_at = epoch.shifted(round(rng.uniform(663.0, 710.0), 6))
    imp_dv = [rng.uniform(-1, 1) for _ in range(3)]
    man_req = epoch.shifted(round(rng.uniform(900.0, 1100.0), 6))
    burn_pos = rng.choice(["start", "median", "stop"])

    def mans(l, frame):
        from beyond.orbits.man import ContinuousMan

        anchor = burn_start.shifted({"start": 0.0, "median": burn_dur / 2, "stop": burn_dur}[burn_pos])
        return [ContinuousMan(anchor.date(l), timedelta(seconds=burn_dur), accel=list(burn_acc), frame=frame, date_pos=burn_pos),
                ImpulsiveMan(imp_at.date(l), list(imp_dv), frame=frame)]

    def op_keplernum_man(l, le):
        prop = KeplerNum(timedelta(seconds=60), get_body("Earth"))
        o = cart_orbit(le, prop)
        o.maneuvers = mans(l, "TNW")
        with probe.CallBudget(KeplerNum, "_make_step", 2000):
            return {"pv": ("vec", vec(o.propagate(man_req.date(l))))}

    def op_cw_man(l, le):
        o = Orbit([100.0, -500.0, 30.0, 0.1, -0.2, 0.05], epoch.date(le), "cartesian", "Hill", ClohessyWiltshire(7.0e6))
        o.maneuvers = mans(l, None)
        # the request carries the label of the epoch, the maneuvers the other one
        in_burn = burn_start.shifted(round(burn_dur * 0.6, 6))
        return {"pv": ("vec", vec(o.propagate(man_req.date(le)))), "pv-in-burn": ("vec", vec(o.propagate(in_burn.date(le))))}

    def op_none(l, le):
        o = cart_orbit(le, NonePropagator()).propagate(arg.date(l))
        return {"pv": ("vec", vec(o)), "date": ("us", (o.date - arg.date("UTC")).total_seconds() * 1e6)}

    def op_sun(l, le):
        return {"pv": ("vec", vec(get_body("Sun").propagate(arg.date(l))))}

    def op_moon(l, le):
        return {"pv": ("vec", vec(get_body("Moon").propagate(arg.date(l))))}

    def op_frames(l, le):
        sv = StateVector(cart, arg.date(l), "cartesian", "EME2000")
        return {f: ("vec", vec(sv.copy(frame=f))) for f in ("ITRF", "PEF", "TOD", "MOD", "TEME", "TIRF", "CIRF", "GCRF", "G50")}

    def op_station(l, le):
        sv = StateVector(cart, arg.date(l), "cartesian", "EME2000")
        return {"topo": ("vec", vec(sv.copy(frame=st["station"])))}

    def op_ephem(l, le):
        o = cart_orbit(le, Kepler())
        eph = o.ephem(start=epoch.date(le), stop=timedelta(minutes=40), step=timedelta(minutes=2))
        q = epoch.shifted(rng_q)
        p = eph.interpolate(q.date(l))
        return {"pv": ("vec", vec(p))}

    rng_q = rng.uniform(0, 2400)
    node_k = rng.randrange(2, 40)  # strictly inside: a relabelled (microsecond-rounded) first node may fall just outside the table

    def op_ephem_nodes(l, le):
        # a 1 s table queried exactly at one of its own instants: the clock reading of that instant in another label
        # coincides with the clock reading of ANOTHER node (TAI-UTC, GPS-UTC are whole seconds), so anything keyed on
        # clock fields instead of the instant returns the wrong node
        o = cart_orbit(le, Kepler())
        eph = o.ephem(start=epoch.date(le), stop=timedelta(seconds=90), step=timedelta(seconds=1))
        out = {}
        for j in (node_k, node_k + 17, node_k + 36):
            q = epoch.shifted(float(j))
            out[f"node{j - node_k}"] = ("vec", vec(eph.interpolate(q.date(l))))
        return out

    # bounds at least 1 s away from every node of the 10 s table: neither a microsecond of relabelling nor the milliseconds of the
    # known UT1 day-lookup mechanism can move a node across them
    own_lo, own_hi = 10.0 * rng.randint(6, 20) + rng.uniform(1.0, 9.0), 10.0 * rng.randint(40, 87) + rng.uniform(1.0, 9.0)

    def op_ephem_own(l, le):
        # part of a 10 s table extracted with its own sampling (no step): which points lie between two INSTANTS does not depend
        # on the labels of the bounds nor on the label of the table
        o = cart_orbit(le, Kepler())
        eph = o.ephem(start=epoch.date(le), stop=timedelta(seconds=900), step=timedelta(seconds=10))
        pts = list(eph.iter(start=epoch.shifted(own_lo).date(l), stop=epoch.shifted(own_hi).date(l)))
        t0 = epoch.date("UTC")
        return {"count": ("text", str(len(pts))), "first": ("us", (pts[0].date - t0).total_seconds() * 1e6 if pts else -1.0),
                "last": ("us", (pts[-1].date - t0).total_seconds() * 1e6 if pts else -1.0)}

    def op_events(l, le):
        o = cart_orbit(le, Kepler())
        start = epoch.shifted(min(0.0, off_s) if abs(off_s) < 2000 else 0.0)
        evs = []
        # 37 samples + ~25 bisection steps per event: a budget of 3000 propagations is > 10x what is needed
        with probe.CallBudget(Kepler, "propagate", 3000):
            for p in o.iter(start=start.date(l), stop=timedelta(minutes=110), step=timedelta(minutes=3), listeners=[NodeListener()]):
                if p.event is not None:
                    evs.append(((p.date - epoch.date("UTC")).total_seconds() * 1e6, str(p.event.info)))
        out = {"n-events": ("text", " ".join(i for _, i in evs))}
        for k, (t, info) in enumerate(evs):
            out[f"event{k}"] = ("us", t)
        return out

    def op_tle_text(l, le):
        return {"tle": ("text", Tle.from_orbit(tle_orbit(le, "Sgp4")).text)}

    def ccsds_roundtrip(obj, fmt):
        return ccsds.loads(ccsds.dumps(obj, fmt=fmt))

    def op_ccsds_opm(l, le):
        out = {}
        for fmt in ("kvn", "xml"):
            sv = StateVector(cart, epoch.date(le), "cartesian", "EME2000", name="VMON", cospar_id="1998-067A")
            back = ccsds_roundtrip(sv, fmt)
            out[f"{fmt}:epoch"] = ("us", (back.date - epoch.date("UTC")).total_seconds() * 1e6)
            out[f"{fmt}:pv"] = ("vec", vec(back))
        return out

    def op_ccsds_oem(l, le):
        out = {}
        o = cart_orbit(le, Kepler())
        o.name, o.cospar_id = "VMON", "1998-067A"
        eph = o.ephem(start=epoch.date(le), stop=timedelta(minutes=20), step=timedelta(minutes=2))
        for fmt in ("kvn", "xml"):
            back = ccsds_roundtrip(eph, fmt)
            out[f"{fmt}:start"] = ("us", (back.start - epoch.date("UTC")).total_seconds() * 1e6)
            out[f"{fmt}:stop"] = ("us", (back.stop - epoch.date("UTC")).total_seconds() * 1e6)
            out[f"{fmt}:pv-last"] = ("vec", vec(back[-1]))
        return out

    def op_ccsds_man(l, le):
        # maneuver date labelled `l`, orbit epoch labelled `le`
        out = {}
        for fmt in ("kvn", "xml"):
            o = cart_orbit(le, Kepler())
            o.name, o.cospar_id = "VMON", "1998-067A"
            o.maneuvers = [ImpulsiveMan(arg.date(l), [1.0, 0.0, 0.0], frame="TNW")]
            back = ccsds_roundtrip(o, fmt)
            out[f"{fmt}:man-date"] = ("us", (back.maneuvers[0].date - arg.date("UTC")).total_seconds() * 1e6)
        return out

    # second position for Lambert: a quarter orbit later on a slightly different orbit
    r1, v1 = el.kep2cart(a * 1.2, e, inc, raan, argp, (nu + 1.7) % (2 * math.pi), mu)
    tof = 0.3 * 2 * math.pi / n_rad_s
    arrival = epoch.shifted(tof)

    def op_lambert(l, le):
        o0 = Orbit(cart, epoch.date(le), "cartesian", "EME2000", Kepler())
        o1 = Orbit([float(x) for x in r1] + [float(x) for x in v1], arrival.date(l), "cartesian", "EME2000", Kepler())
        n0, n1 = lambert(o0, o1)
        return {"v0": ("vel", vec(n0)[3:]), "v1": ("vel", vec(n1)[3:])}

    def op_ltan(l, le):
        return {"mean": ("sec", float(raan2ltan(arg.date(l), raan, "mean"))), "true": ("sec", float(raan2ltan(arg.date(l), raan, "true")))}

    def op_beta(l, le):
        return {"beta": ("rad", float(beta(StateVector(cart, arg.date(l), "cartesian", "EME2000"), "Sun")))}

    ops = dict(zip(OPS, [op_sgp4, op_sgp4beta, op_kepler, op_j2, op_keplernum, op_cw, op_keplernum_man, op_cw_man, op_none, op_sun, op_moon, op_frames, op_station,
                         op_ephem, op_ephem_nodes, op_ephem_own, op_events, op_tle_text, op_ccsds_opm, op_ccsds_oem, op_ccsds_man, op_lambert, op_ltan, op_beta]))

    # which instants does each operation hand to the library as labelled dates
    involved = {
        "arg": [arg], "epoch": [epoch], "short": [short], "arrival": [arrival], "man": [burn_start, imp_at, man_req],
    }
    dates_of = {
        "sgp4": (["arg"], ["epoch"]), "sgp4beta": (["arg"], ["epoch"]), "kepler": (["arg"], ["epoch"]), "j2": (["arg"], ["epoch"]),
        "keplernum": (["short"], ["epoch"]), "cw": (["short"], ["epoch"]), "keplernum-man": (["man"], ["epoch"]), "cw-man": (["man"], ["epoch"]), "none": (["arg"], ["epoch"]), "sun": (["arg"], []), "moon": (["arg"], []),
        "frames": (["arg"], []), "station": (["arg"], []), "ephem": (["epoch"], ["epoch"]), "ephem-nodes": (["epoch"], ["epoch"]), "ephem-own": (["epoch"], ["epoch"]), "events": (["epoch", "arg"], ["epoch"]),
        "tle-text": ([], ["epoch"]), "ccsds-opm": ([], ["epoch"]), "ccsds-oem": ([], ["epoch"]), "ccsds-man": (["arg"], ["epoch"]),
        "lambert": (["arrival"], ["epoch"]), "ltan": (["arg"], []), "beta": (["arg"], []),
    }
    eop_sensitive = {"frames", "station", "ltan", "sun", "beta"}
    lo_short, hi_short = min(0.0, short.mjd - epoch.mjd) * 86400 - 600, max(0.0, short.mjd - epoch.mjd) * 86400 + 600
    span_of = {  # operations that derive further dates from the ones they are given (start + k.step, bisection, extra steps)
        "keplernum": (lo_short, hi_short), "cw": (lo_short, hi_short), "keplernum-man": (-1200.0, 1800.0), "cw-man": (-1200.0, 1200.0), "ephem": (0.0, 2400.0), "ephem-nodes": (0.0, 90.0), "ephem-own": (0.0, 900.0), "events": (-2000.0, 6600.0 + 2000.0),
        "ccsds-oem": (0.0, 1200.0),
    }

    def day_boundary_within(name, labels):
        # is there a midnight of the UTC clock or of a label clock inside the time span the operation touches (+-70 s)?
        lo, hi = span_of.get(name, (0.0, 0.0))
        insts = [i for nm in dates_of[name][0] + dates_of[name][1] for i in involved[nm]]
        for inst in insts:
            for lab in set(labels) | {"UTC"}:
                c = inst.clock(lab)
                sod = (c - c.replace(hour=0, minute=0, second=0, microsecond=0)).total_seconds()
                a, b = sod + lo - 75.0, sod + hi + 75.0
                if a <= 0.0 or b >= 86400.0:
                    return True
        return False

    # tolerances: relabelling through UT1/TDB is microsecond-resolved (oracle rounding 0.5 us + library 1 us) ...
    t_res = 5e-6
    # ... but quantities the library derives from a float Julian date (sidereal time, Sun/Moon series, LTAN) inherit the
    # resolution of jd = mjd + 2400000.5 : ulp(2.45e6 d) = 4.66e-10 d = 40 us, two roundings => 1e-4 s (measured: 39 us)
    t_res_jd = 1e-4
    # known mechanism bound: one day's change of UT1-UTC around the dates involved (own IERS parser), + the jd resolution
    if real:
        diffs = []
        for inst in (epoch, arg, arrival, man_req):
            day = math.floor(inst.mjd)
            for k in (-1, 0, 1, 2):
                dd = tb.f1980[day + k]["ut1_utc"] - tb.f1980[day + k - 1]["ut1_utc"]
                if abs(dd) > 0.5:
                    dd -= math.copysign(1.0, dd)
                diffs.append(abs(dd))
        kt = max(diffs) + t_res_jd
    else:
        kt = 0.0

    for name in OPS:
        f = ops[name]
        try:
            base = f("UTC", "UTC")
        except Exception as exc:
            ctx.violation(f"C04/baseline-raises-{name}", dict(descr, exc=repr(exc)), f"{name} with UTC labels raised {exc!r}")
            continue
        ctx.count(f"op:{name}")
        for (l, le) in variants(rng)[1:]:
            arg_names, epoch_names = dates_of[name]
            if not arg_names and l != "UTC" and le == "UTC":
                continue  # the operation takes no argument date
            if not epoch_names and le != "UTC" and l == "UTC":
                continue
            ctx.count(f"label:{l}")
            ctx.count(f"label:{le}")
            w = dict(descr, op=name, arg_label=l, epoch_label=le, eop=job["eop"])
            try:
                got = f(l, le)
            except probe.BudgetExceeded as exc:
                mism = real and "UT1" in (l, le) and day_boundary_within(name, (l, le))
                ctx.violation("C04/eop-day-lookup-by-label-endless-bisection" if (mism and name == "events") else f"C04/{name}-endless-loop", dict(w, exc=repr(exc)),
                              f"{name} with labels ({l},{le}) loops without end (step budget exhausted); terminates with UTC labels")
                continue
            except Exception as exc:
                ctx.violation(f"C04/raises-{name}", dict(w, exc=repr(exc)), f"{name} with labels ({l},{le}) raised {exc!r}, not with UTC")
                continue
            # does a label clock fall on another calendar day than the UTC clock (EOP day-indexed lookup)?
            # known mechanism (S-20): EOP is a day-indexed step function looked up with the MJD of the *label*; it can only
            # act when a calendar-day boundary of the UTC clock or of a label clock lies within the dates the operation
            # touches, and only through EOP-dependent frames or through a UT1 label (whose offset itself is day-indexed)
            mism = real and (name in eop_sensitive or "UT1" in (l, le)) and day_boundary_within(name, (l, le))
            for k in sorted(set(base) | set(got)):
                if k not in base or k not in got:
                    ctx.violation(f"C04/label-{name}-structure", dict(w, item=k), f"{name}: item {k} present in only one of baseline/variant")
                    continue
                kind, b = base[k]
                _, g = got[k]
                wk = dict(w, item=k)
                if kind == "text":
                    key = f"C04/label-{name}"
                    if b != g and mism and name == "tle-text":
                        # known mechanism: only the printed epoch (line 1, columns 19-32, unit 1e-8 d = 864 us) moves, by <= one day's dUT1
                        lb, lg = b.splitlines(), g.splitlines()
                        try:
                            same_rest = len(lb) == len(lg) == 2 and lb[1] == lg[1] and lb[0][:18] == lg[0][:18] and lb[0][32:68] == lg[0][32:68]
                            d_epoch = abs(float(lb[0][18:32]) - float(lg[0][18:32])) * 86400.0
                            if same_rest and d_epoch <= kt + 864e-6:
                                key = "C04/eop-day-lookup-by-label"
                        except ValueError:
                            pass
                    ctx.expect(b == g, key, dict(wk, baseline=b, got=g), f"{name}[{k}] differs with labels ({l},{le}):\n{b}\n{g}")
                    continue
                if kind != "text" and not np.all(np.isfinite(np.asarray(b, dtype=float))):
                    ctx.count("baseline-not-finite")
                    continue
                if kind == "vec":
                    d_pos = float(np.linalg.norm(g[:3] - b[:3]))
                    rn, vn = float(np.linalg.norm(b[:3])), float(np.linalg.norm(b[3:]))
                    if name in ("frames", "station"):
                        # the state is given, only the rotation depends on the date (through a float jd)
                        tol = OMEGA_E * rn * t_res_jd + 1e-6 + 1e-12 * rn
                    elif name in ("sun", "moon"):
                        tol = vn * t_res_jd + 1e-6 + 1e-12 * rn
                    elif name == "sgp4":
                        # the sgp4 package takes a calendar date and works on a float Julian date: its own time resolution is
                        # 40 us (the |v| x 50 us of property C07); a 1 us relabelling can flip that rounding (observed 39 us)
                        tol = vn * 5.5e-5 + 1e-6 + 1e-12 * rn
                    else:
                        tol = vn * t_res + 1e-6 + 1e-12 * rn
                    if name in ("keplernum-man", "cw-man"):
                        # a burn window / an impulse moved by the time resolution: (acceleration x span + dv) x resolution
                        tol += 2 * (0.0174 * 1100.0 + 1.74) * t_res
                    known_bound = (vn + OMEGA_E * rn) * kt + 1e-7 * rn
                    if name in ("keplernum-man", "cw-man"):
                        known_bound += 2 * (0.0174 * 1100.0 + 1.74) * kt
                    if name in ("keplernum", "keplernum-man", "ephem", "ephem-nodes", "ccsds-oem", "events"):
                        # these interpolate (order 8) over nodes dated by label arithmetic: a node table with a one-day-dUT1
                        # step in its dates is amplified by the Lebesgue constant of the window (< 4 for order 8, uniform)
                        known_bound *= 4.0
                    val, unit = d_pos, "m"
                elif kind == "vel":
                    # Lambert velocities change with the transfer time at about the gravitational acceleration: mu/r^2 x time resolution
                    val, tol, known_bound, unit = float(np.linalg.norm(g - b)), 1e-6 + 4 * (mu / rr ** 2) * t_res, 4 * (mu / rr ** 2) * kt, "m/s"
                elif kind == "us":
                    # written/parsed/relabelled dates: up to 4 microsecond roundings (see C03); event dates: + 1 us bisection resolution x2
                    val, tol, known_bound, unit = abs(g - b), 10.0 if name == "events" else 6.0, kt * 1e6, "us"
                elif kind == "sec":
                    # LTAN is read from a UT1 clock and a sidereal time computed from a float jd (40 us resolution)
                    val, tol, known_bound, unit = abs(((g - b) + 43200) % 86400 - 43200), 2 * t_res_jd, 1.01 * kt, "s"
                else:  # rad
                    val, tol, known_bound, unit = abs(g - b), 1e-9, 1e-7, "rad"
                key = f"C04/label-{name}"
                if mism and val <= known_bound:
                    key = "C04/eop-day-lookup-by-label"
                ctx.resid(f"{name}:{k.split(':')[-1] if kind != 'us' else 'date'}", val, tol, key=key,
                          witness=dict(wk, delta=val, unit=unit), msg=f"{name}[{k}] moves by {val:.6g} {unit} when labels are ({l},{le}) instead of UTC")
