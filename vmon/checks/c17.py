"""C17 -- local orbital frames and maneuvers follow their definitions.

Monitors
  * reference model (vmon.oracles.hill.qsw_rows / tnw_rows, written from the definitions
    q^ = r/|r|, w^ = r x v/|r x v|, s^ = w^ x q^ ;  t^ = v/|v|, n^ = w^ x t^): to_qsw / to_tnw / to_local
    are proper rotations with exactly these rows, for elliptic and hyperbolic states;
  * orbit-attached frames (Orbit.as_frame / orbit2frame, orientation None / QSW / TNW): the orbit sits at
    the origin at every date, parent -> frame -> parent is lossless, positions are R (x - x_ref);
  * ImpulsiveMan.dv / ContinuousMan.accel: the stated vector along the stated axes (direct calls and,
    through hooks, every call made by the numerical propagator);
  * invariant hooks on the real KeplerNum._make_step / KeplerNum._accel / ImpulsiveMan.dv /
    KeplerianImpulsiveMan.dv / ContinuousMan.accel during real propagations: an impulse dated strictly
    inside the span is applied exactly once, at the end of the step that contains its date (not before
    its date, not later than one step after it), the step result is "state + delta-v"; a burn enters
    the dynamics as an acceleration on exactly the stages dated inside [start, stop) and the
    Runge-Kutta quadrature of its on-time equals its duration to within the boundary steps;
  * dkep2dv / dkep2aol / KeplerianImpulsiveMan: finite, and the increments (da, di, dOmega) actually
    achieved (vmon.oracles.elements on the state after the delta-v) equal the request to first order.
"""

import math

import numpy as np

from .. import gen, probe
from ..oracles import elements as el
from ..oracles import hill

RULE = (
    "case = one generated state / scenario: (matrices) a cartesian state of any conic class; (frames) an orbit "
    "LEO..GEO with e <= 0.7 turned into frames of the three orientations and probed at 3 dates; (mandv) a state, "
    "a delta-v or acceleration vector 1e-6..1e3 and a frame tag; (dkep) a state on an orbit with e <= 0.7 and "
    "increments (da, di, dOmega) log-uniform from 1 m / 1e-6 rad to 1e6 m / 0.5 rad; (knum-*) a KeplerNum "
    "propagation (4 methods, steps 5..120 s, 8..40 steps) with 1..3 maneuvers dated on/off the grid strictly "
    "inside the span; distinct = digest of the generated numbers; non-trivial = non-degenerate state (|h| > 0)"
)
ASSUMPTIONS = [
    "definitions of QSW / TNW in vmon/oracles/hill.py (qsw_rows, tnw_rows) and the element definitions of "
    "vmon/oracles/elements.py are the truth; Earth.mu is data",
    "orbit-attached frames: the reference point at a date is the library's own propagation of the attached "
    "orbit (Kepler, checked by C05) and states are moved between named inertial frames by the library (C02)",
    "Runge-Kutta weights b_i of Euler / RK4 / RKF5(4) / DOPRI5 typed from the textbook tableaux (the step formula "
    "itself is C06's subject); dates of maneuvers and stages are compared on the microsecond grid with a "
    "2 us don't-care band around burn boundaries (Date ordering works on a float MJD, ulp 0.63 us)",
    "first-order realisation: |achieved - requested| <= C eps^2 + 1e-12 with eps = |da|/a + |di| + |dOmega|, "
    "C = 6 / ((1 - e) sin i) (second-order terms of the exact plane rotation and of vis-viva; calibrated, see DKEP_C); "
    "judged for increments >= 1 m / 1e-6 rad (the quantifier's 'metres / micro-radians'), smaller ones and the "
    "all-zero request are only counted; a plane change is applied at the argument of latitude returned by dkep2aol",
    "Center offsets / local orientations of an orbit-attached frame are probed through the public "
    "StateVector.copy(frame=) API",
]

T0_MJD_RANGE = (51544, 62502)

# Runge-Kutta weights (Hairer, Norsett, Wanner, Solving ODE I, tables II.1.2, II.5.1 (Fehlberg 4(5), 5th order
# weights), II.5.2 (Dormand-Prince 5(4))): used only to integrate the *observed* on/off pattern of a burn
RK_B = {
    "euler": [1.0],
    "rk4": [1 / 6, 1 / 3, 1 / 3, 1 / 6],
    "rkf54": [16 / 135, 0.0, 6656 / 12825, 28561 / 56430, -9 / 50, 2 / 55],
    "dopri54": [35 / 384, 0.0, 500 / 1113, 125 / 192, -2187 / 6784, 11 / 84, 0.0],
}
# largest |allocated - true| fraction of a step at a burn boundary lying inside the step (derived from the
# c_i / b_i of each tableau, see report): euler 1, rk4 1/3, rkf54 0.27, dopri54 0.39 ; x1.25 margin
BOUNDARY_FRACTION = {"euler": 1.25, "rk4": 0.42, "rkf54": 0.34, "dopri54": 0.49}


def jobs(tier):
    q = tier == "quick"
    out = [
        {"name": "matrices", "n": 4000 if q else 80000, "eop": "zero"},
        {"name": "mandv", "n": 4000 if q else 80000, "eop": "zero"},
        {"name": "dkep", "n": 4000 if q else 80000, "eop": "zero"},
        {"name": "knum-imp", "n": 480 if q else 9600, "eop": "zero"},
        {"name": "knum-burn", "n": 320 if q else 6400, "eop": "zero"},
    ]
    # 30 cases (90 frames) per subprocess: the global frame / orientation / center registries make every
    # further registration slower (Node._update is quadratic; 55 ms per link at 100 frames)
    if q:
        out.append({"name": "frames", "n": 240, "shards": 8, "eop": "zero"})
    else:
        for k in range(8):
            out.append({"name": f"frames-{k}", "n": 480, "shards": 16, "eop": "zero"})
    return out


def requirements(tier):
    k = 1 if tier == "quick" else 10
    req = {
        "matrix:qsw": 3000 * k, "matrix:tnw": 3000 * k, "matrix:hyperbolic": 1000 * k, "matrix:elliptic": 1000 * k,
        "matrix:expanded": 1000 * k,
        "frame:orientation-None": 100 * k, "frame:orientation-QSW": 100 * k, "frame:orientation-TNW": 100 * k,
        "dkep:keplerian-continuous-man": 2000 * k, "dkep:keplerian-continuous-man-second-state": 2000 * k, "knum:iter-from-later-start": 40 * k, "knum:several-bodies": 40 * k, "frame:working-name-reattached": 300 * k, "knum:maneuver-date-labelled-in-another-scale": 150 * k, "knum:later-start:applications-counted": 60 * k, "knum:later-start:impulse-far": 15 * k, "frame:reference-is-an-ephemeris": 15 * k, "frame:reference-orbit-about-the-moon": 20 * k, "frame:origin": 900 * k, "frame:roundtrip": 900 * k, "frame:axes": 900 * k, "frame:moving": 120 * k, "frame:static": 20 * k,
        "mandv:impulsive": 1500 * k, "mandv:continuous": 1500 * k, "mandv:tag-QSW": 500 * k, "mandv:tag-TNW": 500 * k, "mandv:tag-None": 500 * k,
        "mandv:hyperbolic": 300 * k, "mandv:duration-multi-day": 200 * k, "mandv:duration-whole-days": 200 * k, "mandv:check-tiling": 1000 * k,
        "dkep:judged": 3000 * k, "dkep:da": 1000 * k, "dkep:di": 1000 * k, "dkep:dOmega": 1000 * k, "dkep:realised": 2000 * k,
        "dkep:aol": 1500 * k, "dkep:small-increment": 300 * k, "dkep:large-increment": 300 * k, "dkep:keplerian-man": 300 * k,
        "knum:impulse-in-span": 600 * k, "knum:impulse-on-grid": 60 * k, "knum:impulse-off-grid": 200 * k, "knum:impulse-start-eps": 50 * k,
        "knum:step-effect-checked": 600 * k, "knum:dv-hook": 600 * k, "knum:multi-maneuver": 100 * k,
        "knum:burn": 300 * k, "knum:accel-hook": 3000 * k, "knum:accel-effect-checked": 10000 * k, "knum:ontime-checked": 300 * k,
        "knum:route-iter": 200 * k, "knum:route-propagate": 100 * k, "knum:keplerian-man": 20 * k,
    }
    for m in RK_B:
        req[f"knum:method-{m}"] = 60 * k
    return req


# ---------------------------------------------------------------------------------------------
def setup(ctx, job):
    from beyond.constants import Earth

    st = {"mu": float(Earth.mu), "probes": [], "log": [], "depth": 0}
    if job["name"].startswith("knum"):
        from beyond.orbits.man import ContinuousMan, ImpulsiveMan, KeplerianImpulsiveMan
        from beyond.propagators.keplernum import KeplerNum

        log = st["log"]

        def step_pre(a, k):
            log.append(("step-pre", a[1].date, a[2]))

        def step_post(a, k, res):
            log.append(("step-post", res[0], res[1].date, probe.arr(res[1])))

        def dv_post(a, k, res):
            log.append(("dv", a[0], probe.arr(a[1]), a[1].date, np.array(res, float), dict(k)))

        def accel_pre(a, k):
            log.append(("accel-pre", a[1].date, probe.arr(a[1])))

        def accel_post(a, k, res):
            log.append(("accel-post", np.array(res, float)))

        def thrust_post(a, k, res):
            log.append(("thrust", a[0], probe.arr(a[1]), a[1].date, np.array(res, float)))

        st["probes"] += [
            probe.attach(KeplerNum, "_make_step", pre=step_pre, post=step_post),
            probe.attach(KeplerNum, "_accel", pre=accel_pre, post=accel_post),
            probe.attach(ImpulsiveMan, "dv", post=dv_post),
            probe.attach(KeplerianImpulsiveMan, "dv", post=dv_post),
            probe.attach(ContinuousMan, "accel", post=thrust_post),
        ]
    return st


def finish(ctx, job, st):
    for p in st["probes"]:
        p.remove()


# ---------------------------------------------------------------------------------------------
def gen_epoch(rng):
    from beyond.dates import Date, timedelta

    mjd = rng.randint(*T0_MJD_RANGE)
    sec = rng.randint(0, 86399)
    us = rng.choice([0, rng.randint(0, 999999)])
    return Date(mjd, 0.0) + timedelta(seconds=sec, microseconds=us), (mjd, sec, us)


def date_at(epoch, us):
    from beyond.dates import timedelta

    return epoch + timedelta(microseconds=int(us))


def us_between(d, epoch):
    return round((d - epoch).total_seconds() * 1e6)


def rand_dir(rng):
    while True:
        v = np.array([rng.gauss(0, 1) for _ in range(3)])
        nv = np.linalg.norm(v)
        if nv > 1e-3:
            return v / nv


def rand_vec(rng, lo_exp, hi_exp):
    mag = 10 ** rng.uniform(lo_exp, hi_exp)
    if rng.random() < 0.25:
        return np.eye(3)[rng.randrange(3)] * rng.choice([-1, 1]) * mag
    return rand_dir(rng) * mag


def conditioning(r, v):
    """|r||v| / |r x v| >= 1: amplification of rounding in w^ (and in s^, n^) for nearly radial motion."""
    h = np.linalg.norm(np.cross(r, v))
    return float(np.linalg.norm(r) * np.linalg.norm(v) / h)


def bound_orbit(rng, st, e_max=0.7, i_range=(0.05, math.pi - 0.05)):
    """Earth orbit LEO..GEO with perigee above 6 600 km; returns elements dict."""
    e = rng.choice([rng.uniform(1e-4, 1e-2), rng.uniform(1e-2, e_max), rng.uniform(0.3, e_max)])
    rp = math.exp(rng.uniform(math.log(6.6e6), math.log(4.2164e7 * (1 - e) if 4.2164e7 * (1 - e) > 6.7e6 else 6.7e6)))
    a = rp / (1 - e)
    return dict(a=a, e=e, i=rng.uniform(*i_range), raan=rng.uniform(0, 2 * math.pi), argp=rng.uniform(0, 2 * math.pi),
                nu=rng.uniform(0, 2 * math.pi))


def local_rows(tag, r, v):
    return hill.qsw_rows(r, v) if tag.upper() == "QSW" else hill.tnw_rows(r, v)


# =============================================================================================
# matrices
# Tolerance: the rows are unit vectors built from <= 3 products/cross products: rounding ~ 4e-16 x cond
# (cond = |r||v|/|h|; measured worst 6e-16 x cond over 24 000 states)  ->  1e-13 x cond  (>150 x).
MAT_TOL = 1e-13


def case_matrices(ctx, job, idx, rng, st):
    from beyond.dates import Date
    from beyond.frames import local
    from beyond.orbits import StateVector

    ecc_class = list(gen.ECC_CLASSES)[idx % len(gen.ECC_CLASSES)]
    c = gen.orbit_case(rng, body_name=rng.choice(["Earth", "Earth", "Moon", "Sun", "Mars"]), ecc_class=ecc_class)
    r, v = np.array(c["r"]), np.array(c["v"])
    cond = conditioning(r, v)
    descr = {k: c[k] for k in ("body", "a", "e", "i", "raan", "argp", "M", "ecc_class")}
    if cond > 1e6:
        ctx.case(descr, nontrivial=False)
        raise_skip()
    ctx.case(descr)
    ctx.count("matrix:hyperbolic" if c["e"] > 1 else "matrix:elliptic")
    state = np.concatenate([r, v])
    kind = rng.choice(["ndarray", "list", "statevector"])
    ctx.count("matrix:input-" + kind)
    if kind == "list":
        arg = [float(x) for x in state]
    elif kind == "statevector":
        arg = StateVector(state, Date(2020, 1, 1), "cartesian", "EME2000")
    else:
        arg = state.copy()
    w = dict(descr, r=c["r"], v=c["v"], cond=cond, input_kind=kind)
    tol = MAT_TOL * cond
    for tag, fn in (("QSW", local.to_qsw), ("TNW", local.to_tnw)):
        ref = local_rows(tag, r, v)
        try:
            m = np.array(fn(arg), float)
            spelled = rng.choice([tag, tag.lower(), tag.capitalize()])
            m3 = np.array(local.to_local(spelled, arg, expanded=False), float)
            m6 = np.array(local.to_local(spelled, arg), float)
        except Exception as exc:
            ctx.violation(f"C17/{tag.lower()}-raises", dict(w, exc=repr(exc)), f"to_{tag.lower()} raised {exc!r}")
            continue
        ctx.count("matrix:" + tag.lower())
        low = tag.lower()
        if m.shape != (3, 3) or not np.all(np.isfinite(m)):
            ctx.violation(f"C17/{low}-nonfinite", dict(w, got=m), "matrix not finite 3x3")
            continue
        names = "qsw" if tag == "QSW" else "tnw"
        for k in range(3):
            ctx.resid(f"matrix:{low}:axis-{names[k]}", float(np.abs(m[k] - ref[k]).max()), tol, key=f"C17/{low}-axis-{names[k]}",
                      witness=dict(w, got=m[k], expected=ref[k]), msg=f"row {k} of to_{low} is not the defined {names[k]}^ axis")
        ctx.resid(f"matrix:{low}:orthonormal", float(np.abs(m @ m.T - np.eye(3)).max()), tol, key=f"C17/{low}-not-orthonormal", witness=dict(w, got=m),
                  msg=f"to_{low}: M M^T != I")
        ctx.resid(f"matrix:{low}:det", abs(float(np.linalg.det(m)) - 1.0), tol, key=f"C17/{low}-not-proper", witness=dict(w, got=m),
                  msg=f"to_{low}: det != +1")
        ctx.expect(np.array_equal(m3, m), f"C17/to-local-{low}-differs", dict(w, got=m3, expected=m), f"to_local('{spelled}') != to_{low}")
        blk = np.zeros((6, 6))
        blk[:3, :3] = m
        blk[3:, 3:] = m
        ctx.expect(m6.shape == (6, 6) and np.array_equal(m6, blk), "C17/to-local-expanded-blocks", dict(w, got=m6),
                   "expanded matrix is not blockdiag(M, M)")
        ctx.count("matrix:expanded")
    ctx.expect(np.array_equal(np.asarray(arg, float), state), "C17/local-mutates-input", w, "to_qsw/to_tnw modified their argument")
    if idx % 50 == 0:
        try:
            local.to_local("LVLH", state)
            ctx.violation("C17/to-local-unknown-frame-accepted", w, "to_local accepted an unknown local frame name")
        except ValueError:
            ctx.ok("unknown-frame-refused")


def raise_skip():
    from .. import env

    raise env.HarnessSkip()


# =============================================================================================
# orbit-attached frames
# Tolerance: one 3x3 rotation applied to a difference of two vectors of size L = |x_ref| + |delta|:
# measured worst 4e-9 m at L = 4e7 m (1e-16 L)  ->  1e-12 L + 1e-9 m positions, 1e-12 V + 1e-12 m/s velocities.
FRAME_REL = 1e-12


def case_frames(ctx, job, idx, rng, st):
    from beyond.frames.frames import get_frame, orbit2frame
    from beyond.orbits import Orbit, StateVector

    mu = st["mu"]
    k = bound_orbit(rng, st)
    epoch, edesc = gen_epoch(rng)
    ref_frame_name = rng.choice(["EME2000", "EME2000", "EME2000", "MOD", "TEME", "TOD"])
    mixed = ref_frame_name != "EME2000" and rng.random() < 0.4  # parent differs from the frame of the orbit
    parent_name = "EME2000" if mixed else ref_frame_name
    moving = rng.random() < 0.75
    lunar = idx % 6 == 5
    if lunar:
        # the reference orbit is given about another body (a lunar orbiter in the Moon-centred frame of
        # beyond.env.solarsystem), the frame is attached under the default parent EME2000: its centre hangs under the MOON
        from beyond.env import solarsystem
        from beyond.constants import Moon

        solarsystem.get_frame("Moon")
        ref_frame_name, parent_name, mixed, moving = "Moon", "EME2000", True, True
        mu = float(Moon.mu)
        k = dict(k, a=rng.uniform(1.9e6, 9e6), e=rng.uniform(1e-3, 0.05))
        ctx.count("frame:reference-orbit-about-the-moon")
    if not moving:
        # a fixed point has no date of its own: keep it in its own frame (the axes of a "static" local frame
        # seen from another, slowly rotating, frame are not defined by the statement)
        mixed, parent_name = False, ref_frame_name
    r, v = el.kep2cart(k["a"], k["e"], k["i"], k["raan"], k["argp"], k["nu"], mu)
    state = np.concatenate([r, v])
    descr = dict(k, job=job["name"], epoch=edesc, ref_frame=ref_frame_name, parent=parent_name, moving=moving)
    ctx.case(descr)
    ctx.count("frame:moving" if moving else "frame:static")
    ctx.count("frame:parent-" + ("mixed" if mixed else "same"))
    if moving:
        propagator = rng.choice(["Kepler", "Kepler", "Kepler", "J2", "KeplerNum"]) if not lunar else "Kepler"
        ctx.count("frame:propagator-" + propagator)
        if propagator == "KeplerNum":
            # a numerical propagator works (and answers) in its own frame, EME2000 by default, whatever the frame of the orbit
            from beyond.dates import timedelta as _td
            from beyond.env.solarsystem import get_body
            from beyond.propagators.keplernum import KeplerNum

            ref = Orbit(state, epoch, "cartesian", ref_frame_name, KeplerNum(_td(seconds=120), get_body("Earth")))
            descr["propagator"] = "KeplerNum(120 s, Earth), output frame EME2000"
            if ref_frame_name != "EME2000":
                ctx.count("frame:propagator-answers-in-another-frame")
        else:
            ref = Orbit(state, epoch, "cartesian", ref_frame_name, propagator)
    else:
        ref = StateVector(state, epoch, "cartesian", ref_frame_name)
    mech = ""
    T = 2 * math.pi * math.sqrt(k["a"] ** 3 / mu)
    as_ephem = moving and propagator in ("Kepler", "J2") and rng.random() < 0.25
    if as_ephem:
        # the reference is an ephemeris (orbit2frame / as_frame take "an Orbit or Ephem"): the frame follows the interpolated
        # trajectory, which is what "that orbit" is then
        from beyond.dates import timedelta as _td

        ref = ref.ephem(start=epoch - _td(seconds=1.2 * T), stop=_td(seconds=2.4 * T), step=_td(seconds=T / 60))
        ctx.count("frame:reference-is-an-ephemeris")
        descr["reference"] = "Ephem of 145 points over 2.4 periods"
    if rng.random() < 0.3 and not as_ephem:
        ref = ref.copy(form=rng.choice(["keplerian", "spherical", "equinoctial"]))
        ctx.count("frame:ref-noncartesian")
        if not moving:
            # separate mechanism: a fixed StateVector handed over in a non-cartesian form
            mech = "C17/orbit-frame-static-noncartesian-ref"
            ctx.count("frame:static-noncartesian-ref")
    parent = get_frame(parent_name)
    offsets = [0, int(rng.uniform(-1, 1) * T * 1e6), int(rng.uniform(-1, 1) * T * 1e6)]
    for ori in (None, "QSW", "TNW"):
        name = f"V17{job['name'].replace('-', '')}x{idx}{ori or 'None'}"
        spelled = ori if ori is None else rng.choice([ori, ori.lower()])
        w0 = dict(descr, r=r, v=v, orientation=spelled, frame_name=name)
        try:
            if rng.random() < 0.5:
                fr = ref.as_frame(name, orientation=spelled, parent=parent)
            else:
                fr = orbit2frame(name, ref, orientation=spelled, parent=parent)
        except Exception as exc:
            ctx.violation("C17/orbit-frame-creation-raises", dict(w0, exc=repr(exc)), f"as_frame raised {exc!r}")
            continue
        ctx.count(f"frame:orientation-{ori}")
        for us in offsets:
            d = date_at(epoch, us)
            w = dict(w0, dt_us=us)
            try:
                if moving:
                    ref_d = ref.propagate(d).copy(form="cartesian", frame=ref_frame_name)
                else:
                    ref_d = StateVector(probe.arr(ref.copy(form="cartesian")), d, "cartesian", ref_frame_name)
                ref_par = probe.arr(ref_d.copy(frame=parent))  # reference point in the parent frame (library, C02)
                ref_own = probe.arr(ref_d)
                L, V = float(np.linalg.norm(ref_par[:3])), float(np.linalg.norm(ref_par[3:]))
                # (a) the orbit sits at the origin
                z = probe.arr(ref_d.copy(frame=fr))
                ctx.resid("frame:origin:pos", float(np.linalg.norm(z[:3])), FRAME_REL * L + 1e-9, key=mech or "C17/orbit-frame-origin", witness=dict(w, got=z),
                          msg=f"orbit not at the origin of its own frame: |pos| = {np.linalg.norm(z[:3])!r} m")
                ctx.resid("frame:origin:vel", float(np.linalg.norm(z[3:])), FRAME_REL * V + 1e-12, key=mech or "C17/orbit-frame-origin", witness=dict(w, got=z),
                          msg=f"orbit not at rest in its own frame: |vel| = {np.linalg.norm(z[3:])!r} m/s")
                ctx.count("frame:origin")
                # (b) parent -> frame -> parent
                delta = np.concatenate([rand_vec(rng, 0, 7), rand_vec(rng, -3, 3)])
                X = StateVector(ref_par + delta, d, "cartesian", parent)
                Y = X.copy(frame=fr)
                back = probe.arr(Y.copy(frame=parent))
                Lx, Vx = L + float(np.linalg.norm(delta[:3])), V + float(np.linalg.norm(delta[3:]))
                ctx.resid("frame:roundtrip:pos", float(np.linalg.norm(back[:3] - probe.arr(X)[:3])), FRAME_REL * Lx + 1e-9, key=mech or "C17/orbit-frame-roundtrip",
                          witness=dict(w, x=probe.arr(X), back=back), msg="parent -> orbit frame -> parent does not restore the position")
                ctx.resid("frame:roundtrip:vel", float(np.linalg.norm(back[3:] - probe.arr(X)[3:])), FRAME_REL * Vx + 1e-12, key=mech or "C17/orbit-frame-roundtrip",
                          witness=dict(w, x=probe.arr(X), back=back), msg="parent -> orbit frame -> parent does not restore the velocity")
                ctx.count("frame:roundtrip")
                # (c) axes: position = R (x - x_ref); velocity = R (v - v_ref) (relative inertial velocity on the frame axes)
                Ya = probe.arr(Y)
                if ori is None:
                    # the frame keeps the orientation of the orbit's own frame: compare there
                    Xo = probe.arr(X.copy(frame=ref_frame_name))
                    exp = Xo - ref_own
                else:
                    R = local_rows(ori, ref_par[:3], ref_par[3:])
                    exp = np.concatenate([R @ delta[:3], R @ delta[3:]])
                ctx.resid("frame:axes:pos", float(np.linalg.norm(Ya[:3] - exp[:3])), FRAME_REL * Lx + 1e-9, key=mech or f"C17/orbit-frame-axes-{ori}",
                          witness=dict(w, got=Ya, expected=exp, delta=delta), msg=f"position in the {ori}-oriented orbit frame is not R (x - x_ref)")
                ctx.resid("frame:axes:vel", float(np.linalg.norm(Ya[3:] - exp[3:])), FRAME_REL * Vx + 1e-12, key=mech or f"C17/orbit-frame-velocity-axes-{ori}",
                          witness=dict(w, got=Ya, expected=exp, delta=delta), msg=f"velocity in the {ori}-oriented orbit frame is not R (v - v_ref)")
                ctx.count("frame:axes")
            except Exception as exc:
                ctx.violation("C17/orbit-frame-conversion-raises", dict(w, exc=repr(exc)), f"conversion to/from the orbit frame raised {exc!r}")


    working_name_scenario(ctx, job, idx, rng, st, epoch, edesc, T)


def working_name_scenario(ctx, job, idx, rng, st, epoch, edesc, T):
    """History: one working frame name ("target") attached in turn to several spacecraft at a common epoch (orbit2frame has an
    `exists_warning` switch for exactly this re-use): each time, the frame places the orbit it is NOW attached to at its
    origin, at the dates already asked for under that name as well."""
    import logging
    from beyond.frames.frames import orbit2frame
    from beyond.orbits import Orbit

    name = f"V17working{job['name'].replace('-', '')}"
    d = date_at(epoch, int(rng.uniform(-0.5, 0.5) * T * 1e6))
    lg = logging.getLogger("beyond.frames.frames")
    old_level = lg.level
    lg.setLevel(logging.ERROR)
    try:
        for k_ in range(3):
            kk, state = knum_orbit(rng, st, epoch, 60, 10)
            ori = rng.choice([None, "QSW", "TNW"])
            w = dict(kk, scenario="working frame name attached to another spacecraft", frame_name=name, spacecraft=k_, orientation=ori, epoch=edesc, date=str(d))
            try:
                sc = Orbit(state, epoch, "cartesian", "EME2000", "Kepler")
                fr = orbit2frame(name, sc, orientation=ori, exists_warning=False) if rng.random() < 0.5 else sc.as_frame(name, orientation=ori, exists_warning=False)
                at = sc.propagate(d)
                z = probe.arr(at.copy(frame=fr if rng.random() < 0.5 else name))
            except Exception as exc:
                ctx.violation("C17/orbit-frame-conversion-raises", dict(w, exc=repr(exc)), f"working frame name: {exc!r}")
                return
            L, V = float(np.linalg.norm(probe.arr(at)[:3])), float(np.linalg.norm(probe.arr(at)[3:]))
            ctx.count("frame:working-name-reattached")
            ctx.resid("frame:working-name:origin:pos", float(np.linalg.norm(z[:3])), FRAME_REL * L + 1e-9, key="C17/orbit-frame-origin-after-the-name-was-attached-to-another-orbit",
                      witness=dict(w, got=z), msg=f"spacecraft #{k_} is {np.linalg.norm(z[:3])!r} m from the origin of the frame {name!r} just attached to it")
            ctx.resid("frame:working-name:origin:vel", float(np.linalg.norm(z[3:])), FRAME_REL * V + 1e-12, key="C17/orbit-frame-origin-after-the-name-was-attached-to-another-orbit",
                      witness=dict(w, got=z), msg=f"spacecraft #{k_} moves at {np.linalg.norm(z[3:])!r} m/s in the frame {name!r} just attached to it")
    finally:
        lg.setLevel(old_level)


# =============================================================================================
# ImpulsiveMan.dv / ContinuousMan.accel (direct calls), check windows
TAGS = [None, "QSW", "TNW", "qsw", "tnw", "Qsw", "Tnw"]


def expected_projection(tag, vec, r, v):
    if tag is None:
        return np.array(vec, float)
    R = local_rows(tag, r, v)
    return R.T @ np.asarray(vec, float)


def case_mandv(ctx, job, idx, rng, st):
    from beyond.dates import timedelta
    from beyond.orbits import Orbit
    from beyond.orbits.man import ContinuousMan, ImpulsiveMan

    ecc_class = list(gen.ECC_CLASSES)[idx % len(gen.ECC_CLASSES)]
    c = gen.orbit_case(rng, body_name="Earth", ecc_class=ecc_class)
    r, v = np.array(c["r"]), np.array(c["v"])
    cond = conditioning(r, v)
    tag = TAGS[(idx // len(gen.ECC_CLASSES)) % len(TAGS)]
    vec = rand_vec(rng, -6, 3)
    epoch, edesc = gen_epoch(rng)
    kind = "impulsive" if idx % 2 == 0 else "continuous"
    descr = {k: c[k] for k in ("a", "e", "i", "raan", "argp", "M", "ecc_class")}
    descr.update(tag=tag, vec=vec, kind=kind, epoch=edesc)
    if cond > 1e6:
        ctx.case(descr, nontrivial=False)
        raise_skip()
    ctx.case(descr)
    ctx.count("mandv:" + kind)
    ctx.count("mandv:tag-" + (tag.upper() if tag else "None"))
    if c["e"] > 1:
        ctx.count("mandv:hyperbolic")
    orb = Orbit(np.concatenate([r, v]), epoch, "cartesian", "EME2000", "Kepler")
    form = "cartesian"
    if rng.random() < 0.3:
        form = rng.choice(["keplerian", "spherical", "cylindrical", "equinoctial", "keplerian_eccentric"])
        # what the maneuver sees is the cartesian view of this object (C01's subject): use it as the state
        try:
            other = orb.copy(form=form)
            cart = probe.arr(other.copy(form="cartesian"))
            if np.all(np.isfinite(cart)) and np.linalg.norm(cart[:3] - r) <= 1e-6 * np.linalg.norm(r):
                orb, r, v = other, cart[:3], cart[3:]
            else:
                form = "cartesian"
        except Exception:
            form = "cartesian"
        cond = conditioning(r, v)
    ctx.count("mandv:form-" + form)
    w = dict(descr, r=r, v=v, cond=cond, form=form)
    fp0 = probe.fingerprint(orb)
    nv = float(np.linalg.norm(vec))
    tol = 1e-13 * cond * nv  # rounding of the three unit rows (see matrices) times |vec|; measured < 1e-15 cond |vec|
    try:
        if kind == "impulsive":
            man = ImpulsiveMan(epoch, [float(x) for x in vec] if rng.random() < 0.5 else vec.copy(), frame=tag, comment="c17")
            got = np.array(man.dv(orb, step=timedelta(seconds=60)) if rng.random() < 0.5 else man.dv(orb), float)
            stated = vec
            what = "ImpulsiveMan.dv"
            key = "C17/impulsive-dv-projection"
        else:
            # seconds .. hours, and (low-thrust) multi-day burns incl. whole numbers of days
            dclass = rng.choice(["short", "short", "multi-day", "whole-days"])
            if dclass == "short":
                dur = timedelta(microseconds=rng.randint(1_000_000, 7_200_000_000))
            elif dclass == "multi-day":
                dur = timedelta(days=rng.randint(1, 20), microseconds=rng.randint(1, 86_399_999_999))
            else:
                dur = timedelta(days=rng.randint(1, 20))
            ctx.count("mandv:duration-" + dclass)
            pos = rng.choice(["start", "stop", "median"])
            if rng.random() < 0.5:
                man = ContinuousMan(epoch, dur, accel=vec.copy(), frame=tag, date_pos=pos)
                stated = vec
                ctx.count("mandv:continuous-accel-given")
            else:
                man = ContinuousMan(epoch, dur, dv=vec.copy(), frame=tag, date_pos=pos)
                stated = vec / dur.total_seconds()
                ctx.count("mandv:continuous-dv-given")
            got = np.array(man.accel(orb), float)
            what = "ContinuousMan.accel"
            key = "C17/continuous-accel-projection"
            # window: [start, stop) with stop - start = duration, anchored as date_pos says
            s_us, e_us = us_between(man.start, epoch), us_between(man.stop, epoch)
            d_us = round(dur.total_seconds() * 1e6)
            exp_start = {"start": 0, "stop": -d_us, "median": -(d_us / 2)}[pos]
            ctx.expect(abs(s_us - exp_start) <= 1 and abs((e_us - s_us) - d_us) <= 1, "C17/continuous-window-dates", dict(w, start_us=s_us, stop_us=e_us, dur_us=d_us, date_pos=pos),
                       "ContinuousMan start/stop do not bracket the stated duration at the stated date position")
            inside = rng.randint(s_us + 2, e_us - 2)
            ok = man.check(date_at(epoch, inside)) and not man.check(date_at(epoch, s_us - 2)) and not man.check(date_at(epoch, e_us + 2))
            ctx.expect(bool(ok), "C17/continuous-check-window", dict(w, start_us=s_us, stop_us=e_us, probe_us=inside), "ContinuousMan.check is not true exactly inside [start, stop)")
    except Exception as exc:
        ctx.violation(f"C17/{kind}-man-raises", dict(w, exc=repr(exc)), f"maneuver raised {exc!r}")
        return
    exp = expected_projection(tag, stated, r, v)
    if not np.all(np.isfinite(got)) or got.shape != (3,):
        ctx.violation(key + "-nonfinite", dict(w, got=got), f"{what} not a finite 3-vector")
        return
    ns = float(np.linalg.norm(stated))
    ctx.resid(f"mandv:{kind}:vector", float(np.linalg.norm(got - exp)), 1e-13 * cond * ns, key=key, witness=dict(w, got=got, expected=exp),
              msg=f"{what} with frame={tag!r} is not the stated vector along the {tag or 'frame'} axes")
    ctx.resid(f"mandv:{kind}:magnitude", abs(float(np.linalg.norm(got)) - ns), 1e-13 * cond * ns, key=key + "-magnitude", witness=dict(w, got=got, expected=exp),
              msg=f"|{what}| differs from the stated magnitude")
    ctx.expect(probe.fingerprint(orb) == fp0, "C17/maneuver-mutates-orbit", w, f"{what} modified the orbit it was given")
    # ImpulsiveMan.check windows tile the time axis: exactly one step of a grid contains the date
    from beyond.orbits.man import ImpulsiveMan as IM

    h_us = rng.choice([5, 10, 30, 60, 120]) * 1_000_000
    N = rng.randint(3, 12)
    m_us = rng.choice([rng.randint(1, N * h_us), rng.randint(1, N) * h_us, rng.randint(0, N - 1) * h_us + 1])
    m2 = IM(date_at(epoch, m_us), [1.0, 0.0, 0.0])
    hits = [kk for kk in range(N) if m2.check(date_at(epoch, kk * h_us), timedelta(microseconds=h_us))]
    exp_k = (m_us - 1) // h_us  # the step (t_k, t_k + h] that contains the date
    ctx.expect(hits == [exp_k], "C17/impulsive-check-window-tiling", dict(epoch=edesc, h_us=h_us, N=N, man_us=m_us, hits=hits, expected=[exp_k]),
               f"ImpulsiveMan.check true for steps {hits}, the date lies in step {exp_k} only")
    ctx.count("mandv:check-tiling")


# =============================================================================================
# dkep2dv / dkep2aol / KeplerianImpulsiveMan
#
# First-order criterion.  eps = |da|/a + |di| + |dOmega|.  The exact effect of the ideal manoeuvre
# (rotate the orbital plane by phi = sqrt(di^2 + (dOmega sin i)^2) about the radius vector at
# u* = atan2(dOmega sin i, di), change the speed by mu da / (2 v a^2) along the velocity) differs from the
# request only by second-order terms: curvature of the sphere of orbit normals (<= phi^2 / (2 tan i),
# phi^2 / 2 sin i ...) and of vis-viva (<= (da/a)^2 (1+e)/(1-e)).  DKEP_C was calibrated with an
# implementation that is first-order correct (scratch copy with the patch proposed in the report):
# worst observed (error / eps^2) x (1 - e) x sin i = 1.9 over 40 000 cases; C = 6 / ((1 - e) sin i).
# Floor 1e-12 (rad, or relative to a): rounding of el.classical (measured 2e-15).
DKEP_C = 6.0
DKEP_FLOOR = 1e-12


def log_signed(rng, lo, hi):
    return rng.choice([-1, 1]) * math.exp(rng.uniform(math.log(lo), math.log(hi)))


def case_dkep(ctx, job, idx, rng, st):
    from beyond.orbits import Orbit
    from beyond.orbits.man import KeplerianImpulsiveMan, dkep2aol, dkep2dv

    mu = st["mu"]
    k = bound_orbit(rng, st, i_range=(0.2, math.pi - 0.2))
    epoch, edesc = gen_epoch(rng)
    a, e, inc = k["a"], k["e"], k["i"]
    # which increments are requested
    pattern = [("a",), ("i",), ("O",), ("a", "i"), ("a", "O"), ("i", "O"), ("a", "i", "O")][idx % 7]
    size = ["small", "mid", "large", "sub"][(idx // 7) % 4]
    rng_a = {"small": (1.0, 1e2), "mid": (1e2, 1e4), "large": (1e4, 1e6), "sub": (1e-3, 1.0)}[size]
    rng_ang = {"small": (1e-6, 1e-4), "mid": (1e-4, 1e-2), "large": (1e-2, 0.5), "sub": (1e-9, 1e-6)}[size]
    da = log_signed(rng, *rng_a) if "a" in pattern else 0.0
    di = log_signed(rng, *rng_ang) if "i" in pattern else 0.0
    dO = log_signed(rng, *rng_ang) if "O" in pattern else 0.0
    if not (0.1 < inc + di < math.pi - 0.1):
        di = -di
    judged = size != "sub"  # the quantifier starts at metres / micro-radians
    descr = dict(k, job="dkep", da=da, di=di, dOmega=dO, size=size, epoch=edesc)
    ctx.case(descr)
    w = dict(descr)
    # location on the orbit: the argument of latitude returned by dkep2aol when the plane is to be changed
    o_ref = Orbit([a, e, inc, k["raan"], k["argp"], k["nu"]], epoch, "keplerian", "EME2000", "Kepler")
    if di != 0.0 or dO != 0.0:
        try:
            u = float(dkep2aol(o_ref, di, dO))
        except Exception as exc:
            ctx.violation("C17/dkep2aol-raises", dict(w, exc=repr(exc)), f"dkep2aol raised {exc!r}")
            return
        u_exp = math.atan2(dO * math.sin(inc), di)
        if judged:
            ctx.resid("dkep:aol", el.angdiff(u, u_exp) if math.isfinite(u) else float("nan"), 1e-12, key="C17/dkep2aol", witness=dict(w, got=u, expected=u_exp),
                      msg=f"dkep2aol = {u!r}, Gauss' equations give atan2(dOmega sin i, di) = {u_exp!r}")
            ctx.count("dkep:aol")
        if not math.isfinite(u):
            return
        nu = u - k["argp"]
    else:
        nu = k["nu"]
    r, v = el.kep2cart(a, e, inc, k["raan"], k["argp"], nu, mu)
    c0 = el.classical(r, v, mu)
    gamma = math.asin(max(-1.0, min(1.0, c0["rv"] / (c0["r"] * c0["v"]))))
    orb = Orbit(np.concatenate([r, v]), epoch, "cartesian", "EME2000", "Kepler")
    w.update(r=r, v=v, nu=nu, fpa=gamma)
    try:
        dv_tnw = np.array(dkep2dv(orb, da=da, di=di, dOmega=dO), float)
    except Exception as exc:
        ctx.violation("C17/dkep2dv-raises", dict(w, exc=repr(exc)), f"dkep2dv raised {exc!r}")
        return
    w.update(dv_tnw=dv_tnw)
    finite = bool(np.all(np.isfinite(dv_tnw))) and dv_tnw.shape == (3,)
    if not judged:
        ctx.count("dkep:info-sub-quantifier")
        if not finite:
            ctx.count("dkep:info-sub-quantifier-nonfinite")
        return
    ctx.count("dkep:judged")
    for name, val in (("da", da), ("di", di), ("dOmega", dO)):
        if val != 0.0:
            ctx.count("dkep:" + name)
    ctx.count("dkep:small-increment" if size == "small" else ("dkep:large-increment" if size == "large" else "dkep:mid-increment"))
    if not ctx.expect(finite, "C17/dkep2dv-nonfinite", w, f"dkep2dv(da={da!r}, di={di!r}, dOmega={dO!r}) = {dv_tnw!r}"):
        return
    # achieved increments
    R = hill.tnw_rows(r, v)
    v2 = v + R.T @ dv_tnw
    c1 = el.classical(r, v2, mu)
    got_da, got_di, got_dO = c1["a"] - c0["a"], c1["i"] - c0["i"], el.wrap(c1["raan"] - c0["raan"])
    eps = abs(da) / a + abs(di) + abs(dO)
    C = DKEP_C / ((1 - e) * math.sin(inc))
    bound = C * eps * eps + DKEP_FLOOR
    errs = {"a": abs(got_da - da) / a, "i": abs(got_di - di), "Omega": abs(got_dO - dO) * math.sin(inc)}
    w.update(achieved=dict(da=got_da, di=got_di, dOmega=got_dO), eps=eps, bound=bound)
    # mechanism classification of a breach (deterministic predicate over the witness)
    phi_req = math.hypot(di, dO * math.sin(inc))
    phi_got = math.hypot(got_di, got_dO * math.sin(inc))
    # The semi-major axis only depends on the speed: neither of the two plane-change mechanisms below
    # can explain an error there, so it keeps its own key.
    predicted = phi_req * (1.0 / math.cos(gamma) - 1.0)  # rotating the velocity instead of the plane
    if phi_req > 0 and predicted > bound and abs((phi_got - phi_req) - predicted) <= 0.1 * predicted + bound:
        # achieved plane rotation = requested / cos(flight-path angle): the velocity vector is rotated instead of
        # the orbital plane (exact only where the velocity is perpendicular to the radius)
        plane_key = "C17/dkep2dv-plane-change-off-apsis"
    elif eps < 1e-3:
        plane_key = "C17/dkep2dv-small-increment-cancellation"
    else:
        plane_key = "C17/dkep2dv-plane-not-first-order"
    for name, err in errs.items():
        key = "C17/dkep2dv-sma-not-first-order" if name == "a" else plane_key
        ctx.resid(f"dkep:realised:{name}:{size}", err, bound, key=key, witness=dict(w, component=name, error=err),
                  msg=f"requested (da, di, dOmega) = ({da!r}, {di!r}, {dO!r}), achieved ({got_da!r}, {got_di!r}, {got_dO!r}) "
                      f"at flight-path angle {gamma:.4f} rad: error in {name} {err:.3e} > {bound:.3e} (eps = {eps:.3e})")
    ctx.count("dkep:realised")
    # KeplerianImpulsiveMan: the same delta-v, expressed in the frame of the orbit
    try:
        man = KeplerianImpulsiveMan(epoch, da=da, di=di, dOmega=dO)
        dv_in = np.array(man.dv(orb), float)
    except Exception as exc:
        ctx.violation("C17/keplerian-impulsive-man-raises", dict(w, exc=repr(exc)), f"KeplerianImpulsiveMan.dv raised {exc!r}")
        return
    ctx.count("dkep:keplerian-man")
    nd = float(np.linalg.norm(dv_tnw))
    ctx.resid("dkep:keplerian-man:vector", float(np.linalg.norm(dv_in - R.T @ dv_tnw)), 1e-12 * nd + 1e-300, key="C17/keplerian-impulsive-dv-axes",
              witness=dict(w, got=dv_in, expected=R.T @ dv_tnw), msg="KeplerianImpulsiveMan.dv is not the dkep2dv vector along the TNW axes")
    # KeplerianContinuousMan: the same increments spread over a duration -- acceleration x duration is that delta-v
    try:
        from beyond.dates import timedelta as _td
        from beyond.orbits.man import KeplerianContinuousMan

        dur = rng.choice([60.0, 600.0, 5400.0, 86400.0, 2.5 * 86400.0, 90.5])
        cman = KeplerianContinuousMan(epoch, _td(seconds=dur), da=da, di=di, dOmega=dO)
        acc = np.array(cman.accel(orb), float)
        ctx.count("dkep:keplerian-continuous-man")
        ctx.resid("dkep:keplerian-continuous-man:accel x duration", float(np.linalg.norm(acc * dur - R.T @ dv_tnw)), 1e-12 * nd + 1e-300,
                  key="C17/keplerian-continuous-accel-times-duration-is-not-the-delta-v", witness=dict(w, duration_s=dur, accel=acc, expected_dv=R.T @ dv_tnw),
                  msg=f"KeplerianContinuousMan over {dur} s: accel x duration differs from the dkep2dv vector by {np.linalg.norm(acc * dur - R.T @ dv_tnw):.3e} m/s")
        ctx.expect(cman.check(epoch + _td(seconds=dur / 2)) and not cman.check(epoch + _td(seconds=dur)) and not cman.check(epoch - _td(seconds=1)),
                   "C17/continuous-check-window", dict(w, duration_s=dur), "KeplerianContinuousMan.check is not true exactly on [start, stop[")
        # history: the same maneuver object evaluated on ANOTHER state (later in the burn, or shared by Orbit.copy() with
        # another orbit): the acceleration is that of the increments at the state it is asked for
        kb = bound_orbit(rng, st, i_range=(0.2, math.pi - 0.2))
        rb, vb = el.kep2cart(kb["a"], kb["e"], kb["i"], kb["raan"], kb["argp"], kb["nu"], mu)
        orb_b = Orbit(np.concatenate([rb, vb]), epoch, "cartesian", "EME2000", "Kepler")
        exp_b = hill.tnw_rows(rb, vb).T @ np.array(dkep2dv(orb_b, da=da, di=di, dOmega=dO), float)
        acc_b = np.array(cman.accel(orb_b), float)
        ctx.count("dkep:keplerian-continuous-man-second-state")
        nb_ = float(np.linalg.norm(exp_b))
        ctx.resid("dkep:keplerian-continuous-man:second state", float(np.linalg.norm(acc_b * dur - exp_b)), 1e-12 * nb_ + 1e-300,
                  key="C17/keplerian-continuous-accel-is-that-of-an-earlier-state", witness=dict(w, duration_s=dur, second_state=np.concatenate([rb, vb]), accel=acc_b, expected_dv=exp_b),
                  msg="KeplerianContinuousMan evaluated on a second state: accel x duration is not the dkep2dv vector of that state")
    except Exception as exc:
        ctx.violation("C17/keplerian-continuous-man-raises", dict(w, exc=repr(exc)), f"KeplerianContinuousMan raised {exc!r}")
    if idx % 5 == 0:
        # the same orbit handed over in another form (the argument is an Orbit; ImpulsiveMan.dv converts it)
        form = rng.choice(["keplerian", "spherical", "equinoctial"])
        try:
            dv_f = np.array(KeplerianImpulsiveMan(epoch, da=da, di=di, dOmega=dO).dv(orb.copy(form=form)), float)
            ctx.resid("dkep:keplerian-man:other-form", float(np.linalg.norm(dv_f - dv_in)), 1e-8 * nd + 1e-300, key="C17/keplerian-impulsive-dv-noncartesian-form",
                      witness=dict(w, form=form, got=dv_f, expected=dv_in),
                      msg=f"KeplerianImpulsiveMan.dv of the same orbit given in form {form!r} differs from the cartesian one")
            ctx.count("dkep:keplerian-man-other-form")
        except Exception as exc:
            ctx.violation("C17/keplerian-impulsive-dv-noncartesian-form", dict(w, form=form, exc=repr(exc)), f"raised {exc!r}")


# =============================================================================================
# numerical propagation with maneuvers (hooks)
METHODS = ["rk4", "rk4", "rk4", "euler", "rkf54", "dopri54"]


def knum_orbit(rng, st, epoch, h_s, n_steps):
    """Orbit whose period is long enough for the span to stay well inside one revolution is not required;
    only perigee above the surface (steps of 5..120 s resolve it)."""
    k = bound_orbit(rng, st)
    r, v = el.kep2cart(k["a"], k["e"], k["i"], k["raan"], k["argp"], k["nu"], st["mu"])
    return k, np.concatenate([r, v])


def parse_log(log):
    """Group the flat hook log into steps: each = dict(pre_date, req_step, accels=[(date, state, thrusts, result)],
    dvs=[...], real_step, post_date, post_state)."""
    steps, cur, acc = [], None, None
    for ev in log:
        tag = ev[0]
        if tag == "step-pre":
            cur = {"pre_date": ev[1], "req_step": ev[2], "accels": [], "dvs": []}
        elif tag == "accel-pre":
            acc = {"date": ev[1], "state": ev[2], "thrusts": []}
        elif tag == "thrust":
            if acc is not None:
                acc["thrusts"].append(ev)
        elif tag == "accel-post":
            if acc is not None and cur is not None:
                acc["result"] = ev[1]
                cur["accels"].append(acc)
            acc = None
        elif tag == "dv":
            if cur is not None:
                cur["dvs"].append(ev)
        elif tag == "step-post":
            if cur is not None:
                cur.update(real_step=ev[1], post_date=ev[2], post_state=ev[3])
                steps.append(cur)
            cur = None
    return steps


def later_start_scenario(ctx, rng, st, epoch, edesc):
    """The same orbit and impulses iterated from a start LATER than the epoch: the propagator first marches from the epoch to
    the start (and past it, for its 8-point interpolation), then restarts from the start.
      (1) hook: in the chain that restarts at `start`, every impulse dated inside (start, stop) is applied exactly once;
      (2) end state vs the propagation from the epoch: equal up to the step-grid freedom of the statement ("no later than one
          integration step after its date": |dv| x h per impulse) -- unless an impulse lies within the 8 steps after the
          start, where the start state itself is interpolated across the velocity jump (known finding, recorded under its key:
          the difference is then unrelated to how many times the impulse is applied, which (1) decides)."""
    from beyond.dates import timedelta
    from beyond.env.solarsystem import get_body
    from beyond.orbits import Orbit
    from beyond.orbits.man import ImpulsiveMan
    from beyond.propagators.keplernum import KeplerNum

    h_s = rng.choice([10, 20])
    n_steps = rng.randint(40, 70)
    k, state = knum_orbit(rng, st, epoch, h_s, n_steps)
    span = n_steps * h_s
    start_s = rng.randint(1, 12) * h_s + rng.choice([0.0, rng.uniform(0.0, h_s)])
    near = rng.random() < 0.5
    t1 = start_s + (rng.uniform(0.05, 6.5) if near else rng.uniform(9.0, 14.0)) * h_s
    t2 = rng.uniform(t1 + 2 * h_s, span - 2 * h_s)
    mag = rng.uniform(1.0, 10.0)
    dv1, dv2 = rand_dir(rng) * mag, rand_dir(rng) * mag
    tag = rng.choice([None, "TNW", "QSW"])
    mans = []

    def fresh():
        o = Orbit(state, epoch, "cartesian", "EME2000", KeplerNum(timedelta(seconds=h_s), get_body("Earth"), method="rk4"))
        o.maneuvers = [ImpulsiveMan(epoch + timedelta(seconds=t1), dv1.copy(), frame=tag), ImpulsiveMan(epoch + timedelta(seconds=t2), dv2.copy(), frame=tag)]
        return o

    w = dict(k, scenario="iter(start=later) vs the propagation from the epoch", h_s=h_s, span_s=span, start_s=start_s, impulses_s=[t1, t2], dv=[dv1, dv2], frame_tag=tag, epoch=edesc)
    log = st["log"]
    del log[:]
    start_date = epoch + timedelta(seconds=start_s)
    try:
        with probe.CallBudget(KeplerNum, "_make_step", 100 * n_steps + 100):
            oa = fresh()
            a = list(oa.iter(start=start_date, stop=epoch + timedelta(seconds=span), step=timedelta(seconds=h_s)))[-1]
            steps = parse_log(log)
            del log[:]
            b = fresh().propagate(a.date)
    except Exception as exc:
        del log[:]
        ctx.violation("C17/knum-propagation-raises", dict(w, exc=repr(exc)), f"iteration from a later start raised {exc!r}")
        return
    del log[:]
    ctx.count("knum:iter-from-later-start")
    ctx.count("knum:later-start:impulse-" + ("within-8-steps" if near else "far"))
    # (1) the chain that restarts at the start date
    first = [j for j, s_ in enumerate(steps) if abs(us_between(s_["pre_date"], epoch) - round(start_s * 1e6)) <= 1]
    if not first:
        ctx.count("knum:later-start:restart-not-identified (not judged)")
    else:
        chain = steps[first[-1]:]
        for name, man, t in (("first", oa.maneuvers[0], t1), ("second", oa.maneuvers[1], t2)):
            napp = sum(1 for s_ in chain for ev in s_["dvs"] if ev[1] is man)
            ctx.count("knum:later-start:applications-counted")
            ctx.expect(napp == 1, "C17/knum-impulse-not-applied" if napp == 0 else "C17/knum-impulse-applied-more-than-once",
                       dict(w, impulse=name, impulse_s=t, applications_in_the_chain_restarted_at_start=napp),
                       f"iter(start=epoch+{start_s:.1f} s): the {name} impulse (epoch+{t:.1f} s) is applied {napp} times in the chain that restarts at the start")
    # (2) end state
    d = float(np.linalg.norm(probe.arr(a)[:3] - probe.arr(b)[:3]))
    allowed = 1.2 * 2 * mag * h_s + 1.0
    key = "C17/knum-later-start-state-interpolated-across-an-impulse" if near else "C17/knum-later-start-differs-from-epoch-start"
    ctx.resid("knum:later-start vs epoch-start (m)" + (" [impulse within 8 steps of the start]" if near else ""), d, allowed, key=key,
              witness=dict(w, last_state_from_later_start=probe.arr(a), same_date_from_epoch=probe.arr(b), difference_m=d, effect_of_one_impulse_m=mag * (span - t1)),
              msg=f"the state at the end of iter(start=epoch+{start_s:.1f}s) differs by {d:.3f} m from the propagation from the epoch "
                  f"(step-grid freedom allows {allowed:.1f} m); first impulse {(t1 - start_s) / h_s:.2f} steps after the start")


def several_bodies_scenario(ctx, rng, st, epoch, edesc):
    """A burn under a force model with several attracting bodies (Earth + Moon [+ Sun]) delivers its stated delta-v, not a
    multiple of it.  Oracle without any model of the third-body terms: the same propagator run WITH and WITHOUT the burn; at
    the end of a short burn along fixed inertial axes the velocity difference is accel x duration, up to the differential
    gravity picked up by the displacement (bounded by 3 mu/r^3 |a| T^3 / 6 x 2) and the boundary steps of the quadrature.
    Hook side: in one evaluation of the derivative each active burn is asked for its acceleration exactly once."""
    from beyond.dates import timedelta
    from beyond.env.solarsystem import get_body
    from beyond.orbits import Orbit
    from beyond.orbits.man import ContinuousMan
    from beyond.propagators.keplernum import KeplerNum

    mu = st["mu"]
    method = rng.choice(["rk4", "rk4", "dopri54"])
    h_s = rng.choice([10, 20, 30])
    names = rng.choice([("Earth", "Moon"), ("Earth", "Moon", "Sun"), ("Earth", "Sun")])
    k, state = knum_orbit(rng, st, epoch, h_s, 40)
    T = rng.choice([4, 6, 8, 10]) * h_s
    t0 = rng.randint(2, 6) * h_s
    acc = rand_vec(rng, -3, -1)
    given = rng.choice(["accel", "dv"])
    w = dict(k, scenario="burn under several attracting bodies, with / without the burn", bodies=list(names), method=method, h_s=h_s, burn_start_s=t0,
             burn_duration_s=T, accel=acc, given=given, epoch=edesc)

    def run(with_burn):
        prop = KeplerNum(timedelta(seconds=h_s), [get_body(n_) for n_ in names], method=method)
        o = Orbit(state, epoch, "cartesian", "EME2000", prop)
        if with_burn:
            kw = dict(accel=acc.copy()) if given == "accel" else dict(dv=acc * float(T))
            o.maneuvers = [ContinuousMan(epoch + timedelta(seconds=t0), timedelta(seconds=T), frame=None, date_pos="start", **kw)]
        return o, probe.arr(o.propagate(epoch + timedelta(seconds=t0 + T)))

    log = st["log"]
    del log[:]
    try:
        with probe.CallBudget(KeplerNum, "_make_step", 4000):
            ob, with_ = run(True)
            steps = parse_log(log)
            del log[:]
            _o, without = run(False)
    except Exception as exc:
        del log[:]
        ctx.violation("C17/knum-propagation-raises", dict(w, exc=repr(exc)), f"propagation with several attracting bodies raised {exc!r}")
        return
    del log[:]
    ctx.count("knum:several-bodies")
    ctx.count("knum:several-bodies:" + "+".join(names))
    man = ob.maneuvers[0]
    worst = 0
    for s_ in steps:
        for a in s_["accels"]:
            worst = max(worst, sum(1 for ev in a["thrusts"] if ev[1] is man))
    ctx.expect(worst <= 1, "C17/knum-thrust-counted-once-per-attracting-body", dict(w, times_in_one_evaluation=worst),
               f"in one evaluation of the derivative the burn is asked for its acceleration {worst} times ({len(names)} attracting bodies)")
    dv_seen = with_[3:] - without[3:]
    dv_stated = acc * float(T)
    r = float(np.linalg.norm(without[:3]))
    rmin = min(r, float(np.linalg.norm(state[:3])), k["a"] * (1 - k["e"]))
    na = float(np.linalg.norm(acc))
    allowance = 2 * 3 * mu / rmin ** 3 * na * T ** 3 / 6 + 2 * BOUNDARY_FRACTION[method] * h_s * na + 1e-9
    d = float(np.linalg.norm(dv_seen - dv_stated))
    ctx.resid("knum:several-bodies:delivered-dv (m/s)", d, allowance, key="C17/knum-burn-delivers-a-multiple-of-its-dv-with-several-bodies",
              witness=dict(w, velocity_difference_with_minus_without=dv_seen, stated_dv=dv_stated, ratio=float(np.linalg.norm(dv_seen) / np.linalg.norm(dv_stated))),
              msg=f"{'+'.join(names)}: velocity gained by the burn {np.linalg.norm(dv_seen):.6g} m/s, stated {np.linalg.norm(dv_stated):.6g} m/s")


def case_knum(ctx, job, idx, rng, st):
    from beyond.dates import timedelta
    from beyond.env.solarsystem import get_body
    from beyond.orbits import Orbit
    from beyond.orbits.man import ContinuousMan, ImpulsiveMan, KeplerianImpulsiveMan
    from beyond.propagators.keplernum import KeplerNum

    burn_job = job["name"] == "knum-burn"
    mu = st["mu"]
    method = METHODS[idx % len(METHODS)]
    h_s = rng.choice([5, 10, 20, 30, 60, 90, 120])
    n_steps = rng.randint(8, 40)
    h_us = h_s * 1_000_000
    span_us = n_steps * h_us
    epoch, edesc = gen_epoch(rng)
    k, state = knum_orbit(rng, st, epoch, h_s, n_steps)
    fixed = method in ("euler", "rk4")
    route = "iter" if rng.random() < 0.65 else "propagate"
    mans_d = []
    if burn_job:
        nb = rng.choice([1, 1, 2])
        # burns inside the span, non-overlapping, >= 6 steps long when possible
        cuts = sorted(rng.sample(range(1, n_steps * 4), 2 * nb))
        for j in range(nb):
            lo, hi = cuts[2 * j], cuts[2 * j + 1]
            on_grid = fixed and rng.random() < 0.4
            s_us = (lo // 4) * h_us if on_grid else lo * h_us // 4 + rng.randint(1, h_us // 4 - 1)
            e_us = (hi // 4 + 1) * h_us if on_grid else hi * h_us // 4 + rng.randint(1, h_us // 4 - 1)
            s_us, e_us = max(1, s_us), min(span_us - 1, e_us)
            if on_grid:
                s_us, e_us = max(h_us, s_us), min(span_us - h_us, e_us)
            if e_us - s_us < 2_000_000:
                continue
            if (e_us - s_us) % 2:
                e_us -= 1
            if mans_d and s_us < mans_d[-1]["stop_us"]:
                continue
            mans_d.append({"kind": "burn", "t_us": s_us, "stop_us": e_us, "vec": rand_vec(rng, -5, -1), "tag": rng.choice([None, "QSW", "TNW", "tnw"]),
                           "given": rng.choice(["accel", "dv"]), "date_pos": rng.choice(["start", "stop", "median"]), "on_grid": on_grid})
        if not mans_d:
            mans_d.append({"kind": "burn", "t_us": h_us + 1, "stop_us": span_us - h_us - 1 - ((span_us - 2 * h_us - 2) % 2), "vec": rand_vec(rng, -5, -1), "tag": None,
                           "given": "accel", "date_pos": "start", "on_grid": False})
        if rng.random() < 0.3:
            mans_d.append({"kind": "imp", "t_us": rng.randint(1, span_us - 1), "vec": rand_vec(rng, -3, 1), "tag": rng.choice([None, "QSW", "TNW"]), "cls": "off-grid"})
    else:
        nm = rng.choice([1, 1, 2, 3])
        for j in range(nm):
            cls = rng.choice(["on-grid", "off-grid", "off-grid", "start-eps", "end-eps", "same-step"])
            if cls == "on-grid":
                t = rng.randint(1, n_steps - 1) * h_us
            elif cls == "off-grid":
                t = rng.randint(1, span_us - 1)
            elif cls == "start-eps":
                t = rng.choice([1, 2, rng.randint(1, h_us // 2)])
            elif cls == "end-eps":
                t = span_us - rng.choice([1, 2, rng.randint(1, h_us // 2)])
            else:
                t = (mans_d[-1]["t_us"] // h_us) * h_us + rng.randint(1, h_us - 1) if mans_d else rng.randint(1, span_us - 1)
                t = min(max(1, t), span_us - 1)
            kep = rng.random() < 0.15
            if kep:
                mans_d.append({"kind": "kep", "t_us": t, "da": log_signed(rng, 1e3, 1e5), "di": rng.choice([0.0, log_signed(rng, 1e-4, 1e-2)]), "cls": cls})
            else:
                mans_d.append({"kind": "imp", "t_us": t, "vec": rand_vec(rng, -3, 2), "tag": rng.choice([None, "QSW", "TNW", "qsw"]), "cls": cls})
    descr = dict(k, job=job["name"], method=method, h_s=h_s, n_steps=n_steps, epoch=edesc, route=route,
                 mans=[{kk: (vv.tolist() if isinstance(vv, np.ndarray) else vv) for kk, vv in m.items()} for m in mans_d])
    ctx.case(descr)
    ctx.count("knum:method-" + method)
    ctx.count("knum:route-" + route)
    if len(mans_d) > 1:
        ctx.count("knum:multi-maneuver")
    lib_mans = []
    # maneuver dates are instants: one case in three they come labelled in another time scale than the orbit's (a plan
    # delivered in TT or GPS time): the same instants, the same maneuvers
    relabel = idx % 3 == 2

    def mdate(t_us):
        d_ = date_at(epoch, t_us)
        if relabel:
            lab = rng.choice(["TT", "GPS", "TAI"])
            ctx.count("knum:maneuver-date-labelled-in-another-scale")
            return d_.change_scale(lab)
        return d_

    for m in mans_d:
        if m["kind"] == "imp":
            lib_mans.append(ImpulsiveMan(mdate(m["t_us"]), m["vec"].copy(), frame=m["tag"]))
        elif m["kind"] == "kep":
            lib_mans.append(KeplerianImpulsiveMan(mdate(m["t_us"]), da=m["da"], di=m["di"]))
        else:
            d_us = m["stop_us"] - m["t_us"]
            anchor = {"start": m["t_us"], "stop": m["stop_us"], "median": m["t_us"] + d_us // 2}[m["date_pos"]]
            dur = timedelta(microseconds=d_us)
            if m["given"] == "accel":
                lib_mans.append(ContinuousMan(mdate(anchor), dur, accel=m["vec"].copy(), frame=m["tag"], date_pos=m["date_pos"]))
            else:
                lib_mans.append(ContinuousMan(mdate(anchor), dur, dv=m["vec"] * (d_us * 1e-6), frame=m["tag"], date_pos=m["date_pos"]))
        m["obj"] = lib_mans[-1]
    prop = KeplerNum(timedelta(seconds=h_s), get_body("Earth"), method=method)
    orb = Orbit(state, epoch, "cartesian", "EME2000", prop)
    orb.maneuvers = lib_mans
    w0 = {kk: vv for kk, vv in descr.items()}
    w0["state"] = state
    log = st["log"]
    del log[:]
    # logical-step budget: fixed-step methods need n_steps (+ <= 8 scaffolding steps), adaptive ones may
    # shorten the step by (tol/2err)^(1/s) per retry; 100 x n_steps is far beyond anything legitimate, so an
    # endless loop becomes an observation instead of a watchdog timeout
    budget = 100 * n_steps + 100
    try:
        with probe.CallBudget(KeplerNum, "_make_step", budget):
            if route == "iter":
                yielded = [(o.date, probe.arr(o)) for o in orb.iter(stop=timedelta(microseconds=span_us))]
            else:
                res = orb.propagate(date_at(epoch, span_us))
                yielded = None
    except probe.BudgetExceeded as exc:
        del log[:]
        ctx.violation("C17/knum-propagation-does-not-terminate", dict(w0, budget=budget), f"KeplerNum with maneuvers: {exc}")
        return
    except Exception as exc:
        del log[:]
        ctx.violation("C17/knum-propagation-raises", dict(w0, exc=repr(exc)), f"KeplerNum propagation with maneuvers raised {exc!r}")
        return
    steps = parse_log(log)
    del log[:]
    if not steps:
        ctx.inconclusive_if(True, "hooks on KeplerNum._make_step saw no call")
        return
    if not burn_job and idx % 4 == 0:
        later_start_scenario(ctx, rng, st, epoch, edesc)
        del log[:]
    if burn_job and idx % 3 == 0:
        several_bodies_scenario(ctx, rng, st, epoch, edesc)
        del log[:]
    # ---- per step: "state + delta-v", thrust is an acceleration on the right stages ------------------
    applied = {}
    ontime = {}
    for s in steps:
        real_us = round(s["real_step"].total_seconds() * 1e6)
        t_post = us_between(s["post_date"], epoch)
        t_pre = us_between(s["pre_date"], epoch)
        # impulses
        if s["dvs"]:
            running = s["dvs"][0][2].copy()
            for ev in s["dvs"]:
                _, man, snap, sdate, dv, kw = ev
                applied.setdefault(id(man), []).append((t_pre, t_post, real_us))
                ctx.count("knum:dv-hook")
                vscale = float(np.linalg.norm(snap[3:]))
                ok = np.array_equal(snap[:3], running[:3]) and float(np.linalg.norm(snap[3:] - running[3:])) <= 1e-14 * vscale
                ctx.expect(ok, "C17/knum-impulse-effect", dict(w0, t_step_end_us=t_post, seen=snap, expected=running),
                           "state handed to the next maneuver of the same step is not 'state + previous delta-v'")
                md = next((m for m in mans_d if m.get("obj") is man), None)
                if md is not None and md["kind"] == "imp":
                    cond = conditioning(snap[:3], snap[3:])
                    exp = expected_projection(md["tag"], md["vec"], snap[:3], snap[3:])
                    nv = float(np.linalg.norm(md["vec"]))
                    ctx.resid("knum:dv:vector", float(np.linalg.norm(dv - exp)), 1e-13 * cond * nv, key="C17/impulsive-dv-projection",
                              witness=dict(w0, state=snap, got=dv, expected=exp, tag=md["tag"]), msg="delta-v applied by the integrator is not the stated vector along the stated axes")
                elif md is not None and md["kind"] == "kep":
                    if ctx.expect(bool(np.all(np.isfinite(dv))), "C17/dkep2dv-nonfinite", dict(w0, state=snap, got=dv), "KeplerianImpulsiveMan delivered a non-finite delta-v during propagation"):
                        c0 = el.classical(snap[:3], snap[3:], mu)
                        c1 = el.classical(snap[:3], snap[3:] + dv, mu)
                        eps = abs(md["da"]) / c0["a"] + abs(md["di"])
                        bound = DKEP_C / ((1 - c0["e"]) * math.sin(c0["i"])) * eps * eps + DKEP_FLOOR
                        ctx.resid("knum:keplerian-man:da", abs((c1["a"] - c0["a"]) - md["da"]) / c0["a"], bound, key="C17/dkep2dv-sma-not-first-order",
                                  witness=dict(w0, state=snap, dv=dv, da=md["da"], di=md["di"], achieved_da=c1["a"] - c0["a"]),
                                  msg="KeplerianImpulsiveMan applied during a propagation does not change the semi-major axis by da to first order")
                        ctx.count("knum:keplerian-man")
                running[3:] = running[3:] + dv
            post = s["post_state"]
            vscale = float(np.linalg.norm(post[3:])) + 1.0
            ok = np.array_equal(post[:3], running[:3]) and float(np.linalg.norm(post[3:] - running[3:])) <= 1e-14 * vscale
            ctx.expect(ok, "C17/knum-impulse-effect", dict(w0, t_step_end_us=t_post, got=post, expected=running),
                       "result of the step is not 'integrated state + delta-v' (velocity changed by something else, or position changed)")
            ctx.count("knum:step-effect-checked")
        # thrust: accepted iteration = the last len(b) stage evaluations
        b = RK_B[method]
        stages = s["accels"][-len(b):]
        for a in s["accels"]:
            r3 = a["state"][:3]
            g = -mu * r3 / np.linalg.norm(r3) ** 3
            thrust = sum((ev[4] for ev in a["thrusts"]), np.zeros(3))
            res = a["result"]
            gn = float(np.linalg.norm(g))
            ok = np.array_equal(res[:3], a["state"][3:]) and float(np.linalg.norm(res[3:] - thrust - g)) <= 1e-12 * gn + 1e-15
            ctx.expect(ok, "C17/knum-thrust-not-an-acceleration", dict(w0, state=a["state"], got=res, thrust=thrust, gravity=g),
                       "derivative returned by _accel is not (velocity, point-mass gravity + thrust of the active burns)")
            ctx.count("knum:accel-effect-checked")
            ta = us_between(a["date"], epoch)
            seen = {id(ev[1]) for ev in a["thrusts"]}
            for m in mans_d:
                if m["kind"] != "burn":
                    continue
                near = min(abs(ta - m["t_us"]), abs(ta - m["stop_us"])) <= 2
                if near:
                    continue
                should = m["t_us"] <= ta < m["stop_us"]
                ctx.expect((id(m["obj"]) in seen) == should, "C17/knum-burn-window", dict(w0, stage_us=ta, start_us=m["t_us"], stop_us=m["stop_us"], thrusting=id(m["obj"]) in seen),
                           "burn " + ("not " if should else "") + "thrusting at a stage dated " + ("inside" if should else "outside") + " [start, stop)")
            for ev in a["thrusts"]:
                _, man, snap, sdate, acc = ev
                md = next((m for m in mans_d if m.get("obj") is man), None)
                if md is None:
                    continue
                stated = md["vec"] if md["given"] == "accel" else md["vec"]  # vec is the acceleration in both cases
                cond = conditioning(snap[:3], snap[3:])
                exp = expected_projection(md["tag"], stated, snap[:3], snap[3:])
                ns = float(np.linalg.norm(stated))
                ctx.resid("knum:accel:vector", float(np.linalg.norm(acc - exp)), 1e-12 * cond * ns, key="C17/continuous-accel-projection",
                          witness=dict(w0, state=snap, got=acc, expected=exp, tag=md["tag"]), msg="thrust used by the integrator is not the stated acceleration along the stated axes")
                ctx.count("knum:accel-hook")
        if len(stages) == len(b):
            for m in mans_d:
                if m["kind"] != "burn":
                    continue
                on = [1.0 if any(ev[1] is m["obj"] for ev in a["thrusts"]) else 0.0 for a in stages]
                ontime[id(m["obj"])] = ontime.get(id(m["obj"]), 0.0) + real_us * 1e-6 * sum(bi * oi for bi, oi in zip(b, on))
    # ---- per maneuver -------------------------------------------------------------------------------------
    last_post = us_between(steps[-1]["post_date"], epoch)
    for m in mans_d:
        if m["kind"] in ("imp", "kep"):
            tm = m["t_us"]
            if not (0 < tm < min(span_us, last_post)):
                continue
            ctx.count("knum:impulse-in-span")
            ctx.count("knum:impulse-" + m["cls"])
            hits = applied.get(id(m["obj"]), [])
            wm = dict(w0, man_us=tm, man_class=m["cls"], applications=hits)
            if len(hits) == 0:
                ctx.violation("C17/knum-impulse-not-applied", wm, f"impulse dated {tm} us after the epoch (span {span_us} us) was never applied")
                continue
            if len(hits) > 1:
                ctx.violation("C17/knum-impulse-applied-more-than-once", wm, f"impulse applied {len(hits)} times")
                continue
            ctx.ok("impulse-once")
            t_pre, t_post, real_us = hits[0]
            ctx.expect(t_post >= tm - 1, "C17/knum-impulse-applied-before-its-date", wm, f"impulse dated {tm} us applied at the end of a step ending at {t_post} us")
            ctx.expect(t_post - tm <= real_us + 1, "C17/knum-impulse-later-than-one-step", wm,
                       f"impulse dated {tm} us applied at {t_post} us, more than one step ({real_us} us) after its date")
        else:
            ctx.count("knum:burn")
            tau = ontime.get(id(m["obj"]), 0.0)
            D = (m["stop_us"] - m["t_us"]) * 1e-6
            # tolerance: allocation error of the Runge-Kutta quadrature in the (at most two) steps that contain a
            # boundary, see BOUNDARY_FRACTION; every other step contributes exactly its length
            tol = 2 * BOUNDARY_FRACTION[method] * h_s + 4e-6
            ctx.resid(f"knum:burn-ontime:{method}", abs(tau - D), tol, key="C17/knum-burn-not-fully-delivered",
                      witness=dict(w0, start_us=m["t_us"], stop_us=m["stop_us"], ontime_s=tau, duration_s=D),
                      msg=f"Runge-Kutta on-time of the burn {tau!r} s, duration {D!r} s: delivered delta-v differs by more than the boundary steps allow")
            if m["on_grid"]:
                ctx.count("knum:burn-on-grid")
            ctx.count("knum:ontime-checked")
    # ---- API boundary: yielded nodes are the integrated states -----------------------------------------------
    if yielded is not None:
        posts = {us_between(s["post_date"], epoch): s["post_state"] for s in steps}
        bad = None
        for d, arr_ in yielded[1:]:
            p = posts.get(us_between(d, epoch))
            if p is None or not np.array_equal(p, arr_):
                bad = (us_between(d, epoch), arr_, p)
                break
        ctx.expect(bad is None, "C17/knum-yielded-state-differs-from-step-result", dict(w0, first_bad=bad), "a yielded node is not the state returned by the integration step")
        ctx.expect(len(yielded) >= 2 and np.array_equal(yielded[0][1], state), "C17/knum-first-yield-not-initial", dict(w0), "first yielded state is not the initial orbit")


def run_case(ctx, job, idx, rng, st):
    name = job["name"]
    if name == "matrices":
        case_matrices(ctx, job, idx, rng, st)
    elif name.startswith("frames"):
        case_frames(ctx, job, idx, rng, st)
    elif name == "mandv":
        case_mandv(ctx, job, idx, rng, st)
    elif name == "dkep":
        case_dkep(ctx, job, idx, rng, st)
    else:
        case_knum(ctx, job, idx, rng, st)
