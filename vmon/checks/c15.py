"""C15 -- state vectors have value semantics and change atomically.

Monitors (all attached from the harness; nothing in /repo is modified)
  * job 'histories': random operation sequences (length <= 6) on a pool of StateVector/Orbit objects of known
    provenance. Before and after every operation every pool object is digested twice -- probe.fingerprint (deep
    digest) and a structured, per-field snapshot (coordinates, form, frame, date, maneuvers, covariance values /
    frame / private state, every metadata entry, propagator type). Every object that is not the target of an
    in-place operation -- and the receiver of every operation that returns a new object -- must be unchanged.
    New objects made by copy()/copy(form=)/copy(frame=)/copy(same=) are additionally checked by identity:
    np.shares_memory on coordinates, covariance and the covariance's private state, `is` on the maneuvers list and
    on every mutable metadata container; a plain copy must be field-equal to its source; and both sides are "poked"
    (coordinates, maneuvers list, metadata containers, covariance element) to see that nothing shows across.
    pickle / as_orbit / as_statevector results must carry equal values and metadata.
  * job 'failpoints': a failure is made to happen inside a form / frame change (probe.attach(..., fail_at=k) on the
    Form._x_to_y edges, Orientation.convert_to, Center.convert_to -- the k-th call, k drawn over the calls of a dry
    run on a copy; naturally with frame="Hill"; naturally with a frame whose centre has no body, so that the elements
    cannot be rebuilt). After the exception the object must be in its previous form / frame / values, with its
    previous covariance, and must still convert to the same physical state as before.
  * job 'access': for every form, every parameter name of every form, every alias of Form.alt and every index:
    getattr / getitem / index agree, setattr / setitem write exactly that slot and create no metadata, names that do
    not belong to the current form raise AttributeError / KeyError.

What is judged and what is only recorded (DESIGN section 5, C15):
  * objects without public mutators (Date, Frame, Form, Man instances) may be shared between copies: recorded;
  * sharing through as_orbit / as_statevector / views (shallow `_data` copy) is recorded; only values + metadata
    equality and "the receiver is unchanged by the call" are judged for them;
  * values after a failed change are compared to 1e-9 of the component scale (the setter legitimately goes through
    cartesian and back; the conditioning of the Keplerian angles is 2^-52/e), the physical state to 1e-10;
  * a failure that strikes after the new frame has been committed leaves a consistent but *new* state: the oracle
    still demands "previous"; such cases get their own keys (late-failure-*).

Violation keys (mechanisms)
    C15/copy-shares-<coordinates|maneuvers-list|covariance|covariance-state|metadata-container>
    C15/copy-not-equal-<field>                plain copy differs from its source
    C15/poke-visible-<field>                  a mutation of a copy shows in the source or vice versa
    C15/bystander-changed-<field>-by-<op>     an object that was not the target changed
    C15/receiver-changed-<field>-by-<op>      a method returning a new object changed its receiver
    C15/assign-<how>-<what>                   item / attribute / alias assignment wrote something else than its slot
    C15/pickle-loses-<field>, C15/pickle-cov-unusable, C15/convert-loses-<field> (as_orbit / as_statevector)
    C15/unpickled-base-none-op-raises         copy/form=/frame=/as_orbit/... on an unpickled object (ndarray.base is None)
    C15/op-raises-<op>                        any other exception where a result is promised
    C15/atomicity-<op>-late-failure-form-restore | -late-failure-cov-drag | -completed-despite-exception
    C15/atomicity-<op>-form-not-restored | -mixed-state-at-<site family>
    C15/failed-<op>-state-corrupted           after the failure the object no longer describes the same physical state
    C15/failed-copy-changes-receiver
    C15/access-param-name-shadowed-by-alias, C15/access-<get|set>-<attr|item>-<what>
"""

import json
import math
import pickle

import numpy as np

from .. import env, probe
from ..oracles import cov_ref as cr
from ..oracles import elements as el

FORMS = list(el.FORMS)
INERTIAL = ["EME2000", "MOD", "TOD", "TEME", "G50", "CIRF", "GCRF"]
ROTATING = ["ITRF", "PEF", "TIRF"]
# GCRF costs 17 ms per conversion (IAU-2010 series): drawn rarely
FRAME_WEIGHTS = {"EME2000": 6, "MOD": 4, "TOD": 4, "TEME": 4, "G50": 3, "CIRF": 2, "GCRF": 1, "ITRF": 5, "PEF": 3, "TIRF": 3}
MU_EARTH = 3.986004418e14

RULE = (
    "histories: case = one generated pool (1-2 root objects: StateVector or Orbit, any of the 10 forms, 10 frames, "
    "with/without covariance (state frame / QSW / TNW / other frame), 0-2 maneuvers, scalar + dict + list metadata) and one "
    "random sequence of <= 6 operations drawn from 21 kinds; failpoints: case = one object, one form/frame change, one "
    "failure site and call index; access: case = one orbit pushed through all 10 forms x all names/aliases/indices. "
    "distinct = digest of the generated objects and operation list; non-trivial = at least one operation executed"
)
EXHAUSTIVE = [
    "access: 10 forms x (all parameter names of all forms + all aliases of Form.alt) x {getattr, getitem, setattr, setitem} + 6 indices, per generated orbit",
]
ASSUMPTIONS = [
    "parameter names, their order and the aliases are specified by the tables SPEC_PARAMS / SPEC_ALIASES of the check, typed "
    "from the documentation strings of beyond/orbits/forms.py (cylindrical: 'θ : azimuth (alias : theta)'); the library's "
    "Form.alt / param_names are read only to classify a breach",
    "Date, Frame, Form and Man instances are values (no public mutators): sharing them between copies is not judged",
    "aliasing through as_orbit/as_statevector/views is recorded, not judged (DESIGN 5/C15)",
    "the harness normalises a pool object once by reading .cov and .maneuvers (the getters add the keys 'cov': None / "
    "'maneuvers': [] to _data) so that digests do not depend on lazily created keys",
    "pickle protocol = pickle.DEFAULT_PROTOCOL of the interpreter (in-process round trip)",
]

# Independent specification of names (typed from the documentation strings of beyond/orbits/forms.py, not read from
# the objects): the six parameter names of each form in order, and the documented aliases.
SPEC_PARAMS = {
    "cartesian": ["x", "y", "z", "vx", "vy", "vz"],
    "keplerian": ["a", "e", "i", "Ω", "ω", "ν"],
    "keplerian_eccentric": ["a", "e", "i", "Ω", "ω", "E"],
    "keplerian_mean": ["a", "e", "i", "Ω", "ω", "M"],
    "keplerian_circular": ["a", "ex", "ey", "i", "Ω", "u"],
    "keplerian_mean_circular": ["a", "ex", "ey", "i", "Ω", "α"],
    "equinoctial": ["a", "ex", "ey", "ix", "iy", "l"],
    "tle": ["i", "Ω", "e", "ω", "M", "n"],
    "spherical": ["r", "θ", "φ", "r_dot", "θ_dot", "φ_dot"],
    "cylindrical": ["r", "θ", "z", "r_dot", "θ_dot", "vz"],  # documented: "θ : azimuth (alias : theta)"
}
SPEC_ALIASES = {
    "theta": "θ", "phi": "φ", "raan": "Ω", "Omega": "Ω", "omega": "ω", "nu": "ν", "theta_dot": "θ_dot", "phi_dot": "φ_dot",
    "aol": "u", "H": "E", "x_dot": "vx", "y_dot": "vy", "z_dot": "vz", "alpha": "α", "maol": "α",
}

# Failed change: "previous values" are compared component-wise relative to the component scale; the frame setter
# legitimately goes cartesian -> (failure) -> back, whose conditioning is 2^-52/e on the Keplerian angles (e >= 1e-3 in
# this workload: 2e-13). Probed noise floor over 4 seeds x 2800 failed changes: 7e-14 (values), 1.4e-13 (cartesian state).
# Tolerance = 1e-9 / 1e-10 (>= 700 x floor); a mixed state (cartesian numbers under another label, wrong frame) is O(1).
REL_VALUES = 1e-9
REL_STATE = 1e-10


def jobs(tier):
    from .. import repotests

    return _jobs(tier) + [repotests.job()]  # + the repository's own tests as a workload for invariant hooks


def _jobs(tier):
    if tier == "quick":
        return [
            {"name": "histories", "n": 9000, "eop": "real", "kind": "histories"},
            {"name": "failpoints", "n": 3000, "eop": "real", "kind": "failpoints"},
            {"name": "access", "n": 64, "eop": "zero", "kind": "access"},
        ]
    return [
        {"name": "histories", "n": 160000, "eop": "real", "kind": "histories"},
        {"name": "histories-const-eop", "n": 24000, "eop": "const", "kind": "histories"},
        {"name": "failpoints", "n": 80000, "eop": "real", "kind": "failpoints"},
        {"name": "access", "n": 640, "eop": "zero", "kind": "access"},
    ]


def requirements(tier):
    from .. import repotests

    return dict(_requirements(tier), **repotests.MIN["C15"])


def _requirements(tier):
    q = tier == "quick"
    req = {f"op:{o}": (100 if q else 2000) for o in OPS}
    req.update({
        "bystander-checks": 25000 if q else 500000,
        "copy-identity-checks": 3000 if q else 60000, "infos-check:compared": 10000 if q else 200000, "infos-consulted-before-op": 3000 if q else 60000, "copy-noop-conversion:form": 100 if q else 2000, "copy-noop-conversion:frame": 100 if q else 2000,
        "pickle-user-frame:after-name-reuse": 300 if q else 6000, "propagator-settings-checked": 1000 if q else 20000,
        "poke-checks": 1000,
        "pickle-compared": 200,
        "convert-compared": 300,
        "fail:injected": 1500 if q else 40000,
        "fail:natural-hill": 100,
        "fail:natural-no-body": 60,
        "fail-site:form-edge": 200,
        "fail-site:Orientation.convert_to": 150,
        "fail-site:Center.convert_to": 100,
        "fail-op:frame=": 300, "fail-op:form=": 100, "fail-op:copy(frame)": 100, "fail-op:copy(form)": 50,
        "atomic:rolled-back": 300,
        "access:names-checked": 5000,
        "with-cov": 300, "with-maneuvers": 300, "class:Orbit": 300, "class:StateVector": 300,
    })
    for f in FORMS:
        req["access:form:" + f] = 20
    return req


# ==========================================================================================================
# helpers
def fname(f):
    return f if isinstance(f, str) else getattr(f, "name", repr(f))


def date_key(d):
    return (int(d._d), float(d._s), d.scale.name)


def man_key(m):
    out = {"type": type(m).__name__}
    for k, v in sorted(vars(m).items()):
        out[k] = canon(v)
    return out


def canon(v):
    from beyond.dates import Date

    if v is None or isinstance(v, (bool, int, str)):
        return v
    if isinstance(v, float):
        return repr(v)
    if isinstance(v, Date):
        return list(date_key(v))
    if isinstance(v, np.ndarray):
        return ["ndarray", np.asarray(v, dtype=float).tobytes().hex()]
    if isinstance(v, np.generic):
        return canon(v.item())
    if isinstance(v, dict):
        return {str(k): canon(x) for k, x in sorted(v.items(), key=lambda kv: str(kv[0]))}
    if isinstance(v, (list, tuple)):
        return [canon(x) for x in v]
    if hasattr(v, "total_seconds"):
        return ["timedelta", v.total_seconds()]
    if hasattr(v, "name") and isinstance(v.name, str):
        return f"{type(v).__name__}:{v.name}"
    return type(v).__name__


RESERVED = ("date", "form", "frame", "cov", "maneuvers", "propagator", "infos")


def mans_of(o):
    m = o._data.get("maneuvers")
    if m is None:
        return []
    if not isinstance(m, (list, tuple)):
        return [m]
    return list(m)


def snap(o):
    """Structured snapshot from the raw _data (no getter is called)."""
    d = o._data
    cov = d.get("cov")
    s = {
        "type": type(o).__name__,
        "coordinates": probe.arr(o).tobytes(),
        "form": d["form"].name,
        "frame": fname(d["frame"]),
        "date": date_key(d["date"]),
        "maneuvers": json.dumps([man_key(m) for m in mans_of(o)], sort_keys=True),
        "propagator": type(d["propagator"]).__name__ if "propagator" in d else None,
        "covariance": None,
        "covariance-frame": None,
        "covariance-state": None,
    }
    if cov is not None:
        s["covariance"] = np.asarray(cov, dtype=float).tobytes()
        cd = getattr(cov, "_data", None)
        if cd is None:
            s["covariance-frame"] = "<lost>"
        else:
            s["covariance-frame"] = fname(cd.get("frame"))
            orb = cd.get("orb")
            if orb is not None:
                s["covariance-state"] = (probe.arr(orb).tobytes(), fname(orb._data["frame"]), orb._data["form"].name, date_key(orb._data["date"]))
    for k in d:
        if k not in RESERVED:
            s["metadata:" + str(k)] = json.dumps(canon(d[k]), sort_keys=True)
    return s


VALUE_FIELDS_EXCLUDED = ("covariance-state",)  # private bookkeeping: unchanged-ness is judged, equality of copies is not


def diff(a, b, exclude=()):
    keys = set(a) | set(b)
    return sorted(k for k in keys if k not in exclude and a.get(k) != b.get(k))


def fkey(field):
    return field.split(":")[0] if field.startswith("metadata:") else field


def containers(o):
    """id-bearing mutable containers of an object: name -> object."""
    d = o._data
    out = {}
    if isinstance(d.get("maneuvers"), list):
        out["maneuvers-list"] = d["maneuvers"]
    if d.get("cov") is not None:
        out["covariance"] = d["cov"]
    for k, v in d.items():
        if k not in RESERVED and isinstance(v, (dict, list, set, np.ndarray)):
            out["metadata-container:" + str(k)] = v
    return out


class Entry:
    def __init__(self, obj, label, group, allow_rot, unpickled=False):
        self.obj = obj
        self.label = label
        self.group = group  # as_orbit / as_statevector relatives share a group (shared containers are recorded only)
        self.allow_rot = allow_rot
        self.unpickled = unpickled


def normalise(o):
    o.cov  # noqa: B018  (getter creates the key)
    o.maneuvers  # noqa: B018


def allowed_frames(entry):
    fr = list(INERTIAL)
    if entry.allow_rot:
        fr += ROTATING
    return fr


def pick_frame(rng, entry, exclude=None):
    fr = [f for f in allowed_frames(entry) if f != exclude]
    return rng.choices(fr, weights=[FRAME_WEIGHTS[f] for f in fr])[0]


# ==========================================================================================================
# generators
def gen_state(rng, label):
    from beyond.dates import Date, timedelta

    a = math.exp(rng.uniform(math.log(6.8e6), math.log(4.2e7)))
    allow_rot = a <= 1.2e7
    e = rng.uniform(1e-3, min(0.3, 1 - 6.6e6 / a))
    inc = rng.uniform(0.2, 2.9)
    raan, argp, nu = (rng.uniform(0.1, 2 * math.pi - 0.1) for _ in range(3))
    r, v = el.kep2cart(a, e, inc, raan, argp, nu, MU_EARTH)
    fr = list(INERTIAL) + (ROTATING if allow_rot else [])
    frame = rng.choices(fr, weights=[FRAME_WEIGHTS[f] for f in fr])[0]
    form = rng.choice(FORMS)
    day = rng.randrange(env.EOP_MJD_MIN + 30, env.EOP_MJD_MAX - 30)
    usec = rng.randrange(0, 86400 * 10 ** 6)
    cls = rng.choice(["StateVector", "Orbit"])
    nman = rng.choice([0, 0, 1, 2])
    mans = []
    for _ in range(nman):
        mans.append(dict(kind=rng.choice(["impulsive", "continuous"]), dt=rng.uniform(10, 5000),
                         dv=[rng.uniform(-1, 1) for _ in range(3)], frame=rng.choice([None, "TNW", "QSW"]),
                         comment=rng.choice([None, "burn"])))
    covk = rng.choice([None, None, "state", "state", "QSW", "TNW", "other"])
    cov_frame = None
    if covk == "state":
        cov_frame = frame
    elif covk in ("QSW", "TNW"):
        cov_frame = covk
    elif covk == "other":
        cov_frame = rng.choice([f for f in INERTIAL[:5] if f != frame])
    meta = {"name": f"sat-{label}"}
    if rng.random() < 0.5:
        meta["ccsds_user_defined"] = {"K1": "v1", "K2": "v2"}
    if rng.random() < 0.5:
        meta["tags"] = ["a", "b"]
    if rng.random() < 0.3:
        meta["cospar_id"] = "1998-067A"
    if rng.random() < 0.4:
        # metadata whose value is "empty" in the boolean sense is metadata all the same (ndotdot = 0.0 and type = 0 of every
        # orbit read from a TLE, a drag area of 0.0, a flag set to False ...)
        meta.update(rng.choice([{"ndotdot": 0.0, "type": 0}, {"drag_area": 0.0, "tracked": False}, {"comment": "", "passes": 0}]))
    descr = dict(label=label, a=a, e=e, i=inc, raan=raan, argp=argp, nu=nu, frame=frame, form=form, mjd_day=day, usec=usec,
                 cls=cls, maneuvers=mans, cov_frame=cov_frame, meta=meta, r=[float(x) for x in r], v=[float(x) for x in v])
    if cov_frame is not None:
        C, cd = cr.random_spd(rng, "mild")
        descr["cov"] = [[float(x) for x in row] for row in C]
    descr["allow_rot"] = allow_rot
    return descr


def build(descr):
    from beyond.dates import Date, timedelta
    from beyond.frames.frames import get_frame
    from beyond.orbits import Orbit, StateVector
    from beyond.orbits.cov import Cov
    from beyond.orbits.man import ContinuousMan, ImpulsiveMan
    from beyond.propagators.kepler import Kepler

    date = Date(descr["mjd_day"], 0.0) + timedelta(microseconds=descr["usec"])
    coords = descr["r"] + descr["v"]
    meta = {k: (dict(v) if isinstance(v, dict) else list(v) if isinstance(v, list) else v) for k, v in descr["meta"].items()}
    if descr["cls"] == "Orbit":
        o = Orbit(coords, date, "cartesian", descr["frame"], Kepler(), **meta)
    else:
        o = StateVector(coords, date, "cartesian", descr["frame"], **meta)
    if descr["form"] != "cartesian":
        o.form = descr["form"]
    mans = []
    for m in descr["maneuvers"]:
        d = date + timedelta(seconds=m["dt"])
        if m["kind"] == "impulsive":
            mans.append(ImpulsiveMan(d, m["dv"], frame=m["frame"], comment=m["comment"]))
        else:
            mans.append(ContinuousMan(d, timedelta(seconds=120), dv=m["dv"], frame=m["frame"], comment=m["comment"]))
    if mans:
        o.maneuvers = mans
    if descr["cov_frame"] is not None:
        cf = descr["cov_frame"]
        o.cov = Cov(o, np.array(descr["cov"]), cf if cf in ("QSW", "TNW") else get_frame(cf))
    normalise(o)
    return o


def new_man(rng, o):
    from beyond.dates import timedelta
    from beyond.orbits.man import ImpulsiveMan

    return ImpulsiveMan(o.date + timedelta(seconds=rng.uniform(1, 1000)), [rng.uniform(-1, 1) for _ in range(3)],
                        frame=rng.choice([None, "TNW", "QSW"]), comment="added")


# ==========================================================================================================
# job: histories
NEW_OPS = ["copy()", "copy(form)", "copy(frame)", "copy(same)", "pickle", "as_orbit", "as_statevector", "view"]
INPLACE_OPS = ["form=", "frame=", "item-index=", "item-name=", "attr=", "alias=", "maneuvers.append", "maneuvers=",
               "cov=", "cov.frame=", "cov[i,j]=", "del-cov", "metadata-scalar=", "metadata-container-mutate", "date=",
               'frame="Hill"']
OPS = NEW_OPS + INPLACE_OPS


class Pool:
    def __init__(self, ctx, witness):
        self.ctx = ctx
        self.entries = []
        self.witness = witness
        self.oplog = []
        self.ngroups = 0

    def add(self, obj, label, group=None, allow_rot=False, unpickled=False):
        if group is None:
            self.ngroups += 1
            group = self.ngroups
        e = Entry(obj, label, group, allow_rot, unpickled)
        self.entries.append(e)
        return e

    def digests(self):
        return [(probe.fingerprint(e.obj), snap(e.obj), {k: id(v) for k, v in containers(e.obj).items()}) for e in self.entries]

    def wit(self, **kw):
        w = dict(self.witness)
        w["operations"] = list(self.oplog)
        w.update(kw)
        return w


def compare_unchanged(pool, before, after, target_idx, op, new_object_op):
    """Every pool object except the target of an in-place op must be unchanged."""
    ctx = pool.ctx
    tgt = pool.entries[target_idx]
    for j, e in enumerate(pool.entries[: len(before)]):
        if j == target_idx and not new_object_op:
            continue
        fp0, s0, ids0 = before[j]
        fp1, s1, ids1 = after[j]
        ctx.count("bystander-checks")
        changed = diff(s0, s1)
        if not changed and fp0 == fp1:
            ctx.ok()
            continue
        role = "receiver" if j == target_idx else "bystander"
        if not changed:
            changed = ["unclassified"]
        for f in changed:
            # sharing through as_orbit/as_statevector (same group, identical container before the op): recorded only
            if role == "bystander" and e.group == tgt.group:
                tids = before[target_idx][2]
                shared = False
                if f == "maneuvers":
                    shared = ids0.get("maneuvers-list") is not None and ids0.get("maneuvers-list") == tids.get("maneuvers-list")
                elif f.startswith("covariance"):
                    shared = ids0.get("covariance") is not None and ids0.get("covariance") == tids.get("covariance")
                elif f.startswith("metadata:"):
                    k = "metadata-container:" + f.split(":", 1)[1]
                    shared = ids0.get(k) is not None and ids0.get(k) == tids.get(k)
                if shared:
                    ctx.count(f"recorded:shared-through-conversion:{fkey(f)}-changed-by:{op}")
                    continue
            ctx.violation(
                f"C15/{role}-changed-{fkey(f)}-by-{op}",
                pool.wit(changed_object=e.label, target=tgt.label, field=f, before=str(s0.get(f))[:300], after=str(s1.get(f))[:300]),
                f"{op} on {tgt.label}: {role} {e.label} changed in field {f}",
            )


def identity_checks(pool, src, new, op):
    """A copy shares no mutable data with its source."""
    ctx = pool.ctx
    ctx.count("copy-identity-checks")
    R, N = src.obj, new
    w = lambda **kw: pool.wit(source=src.label, op=op, **kw)  # noqa: E731
    ctx.expect(N is not R, "C15/copy-returns-the-receiver", w(), f"{op} returned the receiver itself")
    ctx.expect(not np.shares_memory(np.asarray(R), np.asarray(N)), "C15/copy-shares-coordinates", w(), f"{op}: coordinates share memory")
    cr_, cn = containers(R), containers(N)
    for k in cr_:
        if k in cn and cr_[k] is cn[k]:
            name = k.split(":")[0]
            ctx.violation(f"C15/copy-shares-{name}", w(container=k), f"{op}: {k} is the same object in copy and source")
        else:
            ctx.ok()
    if R._data.get("cov") is not None and N._data.get("cov") is not None:
        rc, nc = R._data["cov"], N._data["cov"]
        ctx.expect(not np.shares_memory(np.asarray(rc), np.asarray(nc)), "C15/copy-shares-covariance", w(), f"{op}: covariance arrays share memory")
        ro, no = rc._data.get("orb"), nc._data.get("orb")
        if ro is not None and no is not None:
            ctx.expect(ro is not no and not np.shares_memory(np.asarray(ro), np.asarray(no)), "C15/copy-shares-covariance-state", w(),
                       f"{op}: the covariances share their private state copy")
    # values: recorded only
    if R._data["date"] is N._data["date"]:
        ctx.count("recorded:copy-shares-Date-instance")
    mr, mn = mans_of(R), mans_of(N)
    if mr and mn and any(a is b for a, b in zip(mr, mn)):
        ctx.count("recorded:copy-shares-Man-instances")
    if "propagator" in R._data and R._data["propagator"] is N._data.get("propagator"):
        ctx.violation("C15/copy-shares-propagator-settings", w(), f"{op}: the propagator object (and its settings) is the same in copy and source")


def poke(pool, rng, a_entry, b_obj, b_label, op):
    """Mutate `a` through every mutable channel and see that `b` does not change (then the caller swaps roles)."""
    ctx = pool.ctx
    A = a_entry if not isinstance(a_entry, Entry) else a_entry.obj
    a_label = a_entry.label if isinstance(a_entry, Entry) else "new"
    s0 = snap(b_obj)
    f0 = probe.fingerprint(b_obj)
    did = []
    i = rng.randrange(6)
    A[i] = float(A[i]) * (1 + 1e-9) + 1e-12
    did.append(f"coord[{i}]")
    if isinstance(A._data.get("maneuvers"), list):
        A._data["maneuvers"].append(new_man(rng, A))
        did.append("maneuvers.append")
    for k, v in list(A._data.items()):
        if k in RESERVED:
            continue
        if isinstance(v, dict):
            v["POKE"] = "x"
            did.append(f"{k}[POKE]")
        elif isinstance(v, list):
            v.append("poke")
            did.append(f"{k}.append")
    if A._data.get("cov") is not None:
        c = A._data["cov"]
        np.ndarray.__setitem__(c, (0, 0), float(np.asarray(c)[0, 0]) * (1 + 1e-9))
        did.append("cov[0,0]")
    ctx.count("poke-checks")
    s1 = snap(b_obj)
    changed = diff(s0, s1)
    if not changed and f0 != probe.fingerprint(b_obj):
        changed = ["unclassified"]
    if changed:
        for f in changed:
            ctx.violation(f"C15/poke-visible-{fkey(f)}", pool.wit(op=op, poked=a_label, observed=b_label, pokes=did, field=f),
                          f"after {op}: mutating {a_label} ({did}) shows in {b_label} field {f}")
    else:
        ctx.ok()


def coords_ok(o):
    return bool(np.all(np.isfinite(probe.arr(o))))


def param_slot(form_name, name):
    """Specification of name resolution: documented parameter names and aliases (SPEC_PARAMS / SPEC_ALIASES)."""
    names = SPEC_PARAMS[form_name]
    if name in names:
        return names.index(name)
    t = SPEC_ALIASES.get(name)
    if t is not None and t in names:
        return names.index(t)
    return None


def shadowed_by_alias(form, slot):
    """Mechanism classifier (library tables read as data): the name the library gives to `slot` is itself a key of
    Form.alt, so every lookup rewrites it to a name the form does not have."""
    from beyond.orbits.forms import Form

    lib = form.param_names[slot]
    return lib in Form.alt and Form.alt[lib] not in form.param_names


def run_histories(ctx, job, idx, rng, st):
    from beyond.frames.frames import get_frame
    from beyond.orbits import Orbit
    from beyond.orbits.cov import Cov
    from beyond.propagators.kepler import Kepler
    from beyond.dates import timedelta

    nroots = rng.choice([1, 1, 2])
    descrs = [gen_state(rng, f"root{k}") for k in range(nroots)]
    nops = rng.randint(1, 6)
    ctx.case({"roots": descrs, "nops": nops, "idx": idx})
    pool = Pool(ctx, {"roots": descrs})
    for d in descrs:
        o = build(d)
        pool.add(o, d["label"], allow_rot=d["allow_rot"])
        ctx.count("class:" + d["cls"])
        if d["cov_frame"] is not None:
            ctx.count("with-cov")
        if d["maneuvers"]:
            ctx.count("with-maneuvers")
        ctx.count("form0:" + d["form"])

    if idx % 4 == 0:
        pickle_user_frame(ctx, idx, rng, descrs[0])
        propagator_settings(ctx, idx, rng, descrs[0])

    for step in range(nops):
        ti = rng.randrange(len(pool.entries))
        te = pool.entries[ti]
        T = te.obj
        # applicable operations
        ops = list(OPS)
        if not isinstance(T, Orbit):
            ops.remove("as_statevector")
        if T._data.get("cov") is None:
            for o_ in ("cov.frame=", "cov[i,j]=", "del-cov"):
                ops.remove(o_)
        if not any(isinstance(v, (dict, list)) for k, v in T._data.items() if k not in RESERVED):
            ops.remove("metadata-container-mutate")
        if not any(t in SPEC_PARAMS[T.form.name] for t in SPEC_ALIASES.values()):
            ops.remove("alias=")
        op = rng.choice(ops)
        assert op in OPS
        rec = {"step": step, "op": op, "target": te.label}
        pool.oplog.append(rec)
        ctx.count("op:" + op)
        if te.unpickled:
            ctx.count("op-on-unpickled")
        if rng.random() < 0.5:
            # derived quantities consulted before the operation (they are computed from the object they are asked on)
            try:
                _ = (T.infos.kep.a, T.infos.r)
                ctx.count("infos-consulted-before-op")
            except Exception:
                ctx.count("infos-consult-raised")
        before = pool.digests()
        new_obj = None
        expect_fail = False
        try:
            if op == "copy()":
                new_obj = T.copy()
            elif op == "copy(form)":
                # one time in four the "conversion" asked for is the current form (orbit.copy(form="cartesian") on a
                # cartesian state is what the library itself does everywhere): still a copy
                noop = rng.random() < 0.25
                rec["form"] = f = T.form.name if noop else rng.choice([x for x in FORMS if x != T.form.name])
                if noop:
                    ctx.count("copy-noop-conversion:form")
                new_obj = T.copy(form=f if rng.random() < 0.5 else get_form_obj(f))
            elif op == "copy(frame)":
                noop = rng.random() < 0.25
                rec["frame"] = F = fname(T.frame) if noop else pick_frame(rng, te, exclude=fname(T.frame))
                if noop:
                    ctx.count("copy-noop-conversion:frame")
                new_obj = T.copy(frame=F if rng.random() < 0.5 else (T.frame if noop else get_frame(F)))
            elif op == "copy(same)":
                cands = [e for e in pool.entries if (te.allow_rot or fname(e.obj.frame) not in ROTATING)]
                oe = rng.choice(cands)
                rec["same"] = oe.label
                new_obj = T.copy(same=oe.obj)
            elif op == "pickle":
                new_obj = pickle.loads(pickle.dumps(T))
            elif op == "as_orbit":
                new_obj = T.as_orbit(Kepler())
            elif op == "as_statevector":
                new_obj = T.as_statevector()
            elif op == "view":
                # slices / arithmetics go through __array_finalize__ (shallow _data copy): aliasing is recorded only,
                # but creating them must not change anything (checked below like for every other operation)
                views = {"slice": T[0:6], "arithmetic": T * 1.0}
                for vk, vv in views.items():
                    if np.shares_memory(np.asarray(vv), np.asarray(T)):
                        ctx.count(f"recorded:{vk}-view-shares:coordinates")
                    vd = getattr(vv, "_data", None)
                    if vd is not None:
                        for ck, cv in containers(T).items():
                            if vd.get({"maneuvers-list": "maneuvers", "covariance": "cov"}.get(ck, ck.split(":", 1)[-1])) is cv:
                                ctx.count(f"recorded:{vk}-view-shares:{ck.split(':')[0]}")
                del views
            elif op == "form=":
                rec["form"] = f = rng.choice([x for x in FORMS if x != T.form.name])
                T.form = f
            elif op == "frame=":
                rec["frame"] = F = pick_frame(rng, te, exclude=fname(T.frame))
                T.frame = F if rng.random() < 0.5 else get_frame(F)
            elif op == 'frame="Hill"':
                expect_fail = True
                T.frame = "Hill"
            elif op in ("item-index=", "item-name=", "attr=", "alias="):
                assign_op(ctx, pool, rng, T, te, op, rec)
            elif op == "maneuvers.append":
                T.maneuvers.append(new_man(rng, T))
            elif op == "maneuvers=":
                T.maneuvers = new_man(rng, T) if rng.random() < 0.4 else [new_man(rng, T) for _ in range(rng.randint(0, 2))]
            elif op == "cov=":
                C, _ = cr.random_spd(rng, "mild")
                cf = rng.choice(["state", "QSW", "TNW"])
                rec["cov_frame"] = cf
                T.cov = Cov(T, C, T.frame if cf == "state" else cf)
            elif op == "cov.frame=":
                X = rng.choice(["QSW", "TNW", pick_frame(rng, te)])
                rec["cov_frame"] = X
                T.cov.frame = X
            elif op == "cov[i,j]=":
                i, j = rng.randrange(6), rng.randrange(6)
                c = T.cov
                val = float(np.asarray(c)[i, j]) * (1 + 1e-6)
                c[i, j] = val
                c[j, i] = val
            elif op == "del-cov":
                del T.cov
            elif op == "metadata-scalar=":
                k = rng.choice(["name", "norad_id", "comment"])
                rec["key"] = k
                setattr(T, k, f"value-{step}") if rng.random() < 0.5 else T.__setitem__(k, f"value-{step}")
            elif op == "metadata-container-mutate":
                k = rng.choice([k for k, v in T._data.items() if k not in RESERVED and isinstance(v, (dict, list))])
                rec["key"] = k
                v = getattr(T, k)
                if isinstance(v, dict):
                    v[f"N{step}"] = "new"
                else:
                    v.append(f"n{step}")
            elif op == "date=":
                T.date = T.date + timedelta(seconds=rng.uniform(-100, 100))
            if expect_fail:
                ctx.violation("C15/frame-hill-accepted", pool.wit(), 'frame = "Hill" did not raise')
        except Exception as exc:
            rec["raised"] = repr(exc)[:200]
            base_none = te.unpickled and T.base is None and isinstance(exc, (TypeError, AttributeError)) and "NoneType" in str(exc)
            if expect_fail and not base_none:
                ctx.count("fail:natural-hill")
                after = pool.digests()
                compare_unchanged(pool, before, after, ti, op, new_object_op=False)
                check_rolled_back(ctx, pool, te, before[ti][1], snap(T), op="frame-change", site="natural-hill")
                continue
            if base_none:
                ctx.violation("C15/unpickled-base-none-op-raises", pool.wit(exc=repr(exc), op=op),
                              f"{op} on an unpickled {type(T).__name__} raised {exc!r} (ndarray.base is None after __setstate__)")
            else:
                ctx.violation(f"C15/op-raises-{op}", pool.wit(exc=repr(exc)), f"{op} on {te.label} raised {exc!r}")
            after = pool.digests()
            compare_unchanged(pool, before, after, ti, op, new_object_op=True)  # a failed op must leave everything as it was
            continue

        if not coords_ok(T) or (new_obj is not None and not coords_ok(new_obj)):
            ctx.count("nonfinite-coordinates-abandoned")
            return
        after = pool.digests()
        is_new = op in NEW_OPS
        compare_unchanged(pool, before, after, ti, op, new_object_op=is_new)

        if op == "view":
            continue
        if is_new:
            label = f"{te.label}>{op}#{step}"
            if op.startswith("copy"):
                normalise(new_obj)
                identity_checks(pool, te, new_obj, op)
                sR, sN = before[ti][1], snap(new_obj)
                if op == "copy()":
                    for f in diff(sR, sN, exclude=VALUE_FIELDS_EXCLUDED):
                        ctx.violation(f"C15/copy-not-equal-{fkey(f)}", pool.wit(field=f, source=str(sR.get(f))[:300], copy=str(sN.get(f))[:300]),
                                      f"plain copy of {te.label} differs in {f}")
                    ctx.ok()
                else:
                    want_form = rec.get("form") or (pool_entry(pool, rec["same"]).obj.form.name if op == "copy(same)" else sR["form"])
                    want_frame = rec.get("frame") or (fname(pool_entry(pool, rec["same"]).obj.frame) if op == "copy(same)" else sR["frame"])
                    ctx.expect(sN["form"] == want_form and sN["frame"] == want_frame, f"C15/copy-label-{op}", pool.wit(got=[sN["form"], sN["frame"]]),
                               f"{op}: result labelled {sN['form']}/{sN['frame']}, wanted {want_form}/{want_frame}")
                    for f in diff(sR, sN, exclude=("coordinates", "form", "frame", "covariance", "covariance-frame", "covariance-state")):
                        ctx.violation(f"C15/copy-not-equal-{fkey(f)}", pool.wit(field=f, op=op), f"{op} of {te.label} lost/changed {f}")
                ne = pool.add(new_obj, label, allow_rot=te.allow_rot)
                if rng.random() < 0.6:
                    poke(pool, rng, ne.obj, T, te.label, op)
                    poke(pool, rng, te, ne.obj, label, op)
                    if not coords_ok(T):
                        return
            elif op == "pickle":
                ok = compare_pickle(ctx, pool, te, before[ti][1], new_obj)
                if ok:
                    normalise(new_obj)
                    pool.add(new_obj, label, allow_rot=te.allow_rot, unpickled=True)
            else:
                ctx.count("convert-compared")
                sR, sN = before[ti][1], snap(new_obj)
                excl = ("type", "propagator") + VALUE_FIELDS_EXCLUDED
                for f in diff(sR, sN, exclude=excl):
                    ctx.violation(f"C15/convert-loses-{fkey(f)}", pool.wit(field=f, op=op), f"{op} of {te.label}: {f} not preserved")
                want_type = "Orbit" if op == "as_orbit" else "StateVector"
                ctx.expect(type(new_obj).__name__ == want_type, f"C15/convert-type-{op}", pool.wit(), f"{op} returned {type(new_obj).__name__}")
                # aliasing through the shallow _data copy: recorded
                for k, v in containers(T).items():
                    if containers(new_obj).get(k) is v:
                        ctx.count(f"recorded:{op}-shares:{k.split(':')[0]}")
                if np.shares_memory(np.asarray(T), np.asarray(new_obj)):
                    ctx.count(f"recorded:{op}-shares:coordinates")
                normalise(new_obj)
                pool.add(new_obj, label, group=te.group, allow_rot=te.allow_rot)
        infos_check(pool, rng)
        if len(pool.entries) > 8:
            break


def infos_check(pool, rng):
    """What `.infos` reports for an object is computed from THAT object's current numbers: it equals what a brand-new
    state holding the same numbers reports (whatever was consulted, copied or edited before)."""
    from beyond.orbits import StateVector

    ctx = pool.ctx
    for e in pool.entries:
        o = e.obj
        if not coords_ok(o):
            continue
        try:
            fresh = StateVector(np.array(o, dtype=float), o.date, o.form.name, o.frame)
            exp = (float(fresh.infos.kep.a), float(fresh.infos.kep.e), float(fresh.infos.r), float(fresh.infos.v))
        except Exception:
            ctx.count("infos-check:fresh-object-raises")
            continue
        try:
            got = (float(o.infos.kep.a), float(o.infos.kep.e), float(o.infos.r), float(o.infos.v))
        except Exception as exc:
            if e.unpickled:
                ctx.count("infos-check:unpickled-raises")
                continue
            ctx.violation("C15/infos-raises", pool.wit(object=e.label, exc=repr(exc)), f"infos of {e.label} raised {exc!r}")
            continue
        ctx.count("infos-check:compared")
        ok = all(g == x or abs(g - x) <= 1e-12 * max(1.0, abs(x)) for g, x in zip(got, exp))
        ctx.expect(ok, "C15/derived-quantities-are-those-of-another-state", pool.wit(object=e.label, infos=list(got), of_a_fresh_state_with_the_same_numbers=list(exp)),
                   f"{e.label}.infos reports a={got[0]!r}, r={got[2]!r}; a new state with the same numbers reports a={exp[0]!r}, r={exp[2]!r}")


def propagator_settings(ctx, idx, rng, descr):
    """The propagator an orbit carries holds settings (step, method, attracting bodies): they are data of THAT orbit.
    Changed on a copy (plain or converted), they do not show in the original, and conversely."""
    from beyond.dates import timedelta
    from beyond.env.solarsystem import get_body
    from beyond.propagators.keplernum import KeplerNum

    d = dict(descr, cls="Orbit", cov_frame=None, cov=None)
    obj = build(d)
    step0, method0 = timedelta(seconds=rng.choice([30, 60, 120])), rng.choice(["rk4", "dopri54"])
    obj.propagator = KeplerNum(step0, get_body("Earth"), method=method0)
    kinds = {"copy()": {}, "copy(form)": {"form": "keplerian" if obj.form.name != "keplerian" else "cartesian"}, "copy(frame)": {"frame": "MOD" if obj.frame.name != "MOD" else "EME2000"}}
    for op, kw in kinds.items():
        w = {"state": d, "op": op, "step": str(step0), "method": method0}
        for who in ("copy", "original"):
            try:
                cp = obj.copy(**kw)
                a, b = (cp, obj) if who == "copy" else (obj, cp)
                before = (b.propagator.step, b.propagator.method, tuple(x.name for x in b.propagator.bodies))
                a.propagator.step = timedelta(seconds=600)
                a.propagator.method = "euler"
                after = (b.propagator.step, b.propagator.method, tuple(x.name for x in b.propagator.bodies))
                obj.propagator.step, obj.propagator.method = step0, method0
            except Exception as exc:
                ctx.violation("C15/propagator-settings-scenario-raises", dict(w, exc=repr(exc)), f"{op}: {exc!r}")
                return
            ctx.count("propagator-settings-checked")
            ctx.expect(before == after and a.propagator is not b.propagator, "C15/copy-shares-propagator-settings", dict(w, changed_on=who, before=str(before), after=str(after)),
                       f"{op}: step / method changed on the propagator of the {who} show in the other object ({before} -> {after})")


def pickle_user_frame(ctx, idx, rng, descr):
    """History: the state lives in a frame defined by the user; a DIFFERENT frame is later registered under the same name
    (the library allows it and says so: "already registered. Overriding").  The live object keeps its frame; so must the
    object that comes out of a pickle round trip (the frame is metadata: it decides which point of space the six numbers
    are)."""
    from beyond.frames.frames import Frame
    from beyond.frames import orient, center
    import logging

    orients = ["EME2000", "MOD", "TOD", "TEME", "G50"]
    o1, o2 = rng.sample(orients, 2)
    name = f"VmonC15User{idx}"
    lg = logging.getLogger("beyond.frames.frames")
    old_level = lg.level
    lg.setLevel(logging.ERROR)
    try:
        user = Frame(name, getattr(orient, o1), center.Earth)
        d = dict(descr, frame="EME2000", cov_frame=None if descr["cov_frame"] is None else "EME2000")
        obj = build(d)
        if obj._data.get("cov") is not None:
            del obj.cov
        obj._data["frame"] = user  # the numbers are now coordinates in the user's frame (orientation o1)
        w = {"state": d, "user_frame": name, "orientation_first": o1, "orientation_second": o2}

        def physical(x):
            return probe.arr(x.copy(frame="EME2000", form="cartesian"))

        ref = physical(obj)
        for stage in ("before-name-reuse", "after-name-reuse"):
            if stage == "after-name-reuse":
                Frame(name, getattr(orient, o2), center.Earth)
                if obj.frame is not user:
                    ctx.violation("C15/live-object-frame-replaced-by-registration", w, "registering a frame under a used name changed a live object's frame")
                    return
            ctx.count("pickle-user-frame:" + stage)
            try:
                back = pickle.loads(pickle.dumps(obj))
                got = physical(back)
            except Exception as exc:
                ctx.violation("C15/pickle-user-frame-raises", dict(w, stage=stage, exc=repr(exc)), f"pickle round trip in a user frame raised {exc!r}")
                return
            ok_meta = back.frame.name == name and back.frame.orientation.name == o1 and back.frame.center.name == "Earth"
            ctx.expect(ok_meta, "C15/pickle-changes-the-frame-of-the-state",
                       dict(w, stage=stage, got_orientation=back.frame.orientation.name, got_center=back.frame.center.name),
                       f"{stage}: unpickled state is in a frame oriented as {back.frame.orientation.name}, the original as {o1}")
            dr = float(np.linalg.norm(got[:3] - ref[:3]))
            ctx.resid("pickle-user-frame:position-in-EME2000", dr, 1e-6 + 1e-12 * float(np.linalg.norm(ref[:3])), key="C15/pickle-changes-the-frame-of-the-state",
                      witness=dict(w, stage=stage, original_in_EME2000=ref.tolist(), unpickled_in_EME2000=got.tolist()),
                      msg=f"{stage}: once expressed in EME2000 the unpickled state is {dr:.6g} m from the original")
    finally:
        lg.setLevel(old_level)


def get_form_obj(name):
    from beyond.orbits.forms import get_form

    return get_form(name)


def pool_entry(pool, label):
    return next(e for e in pool.entries if e.label == label)


def compare_pickle(ctx, pool, te, sR, N):
    ctx.count("pickle-compared")
    cov = N._data.get("cov")
    if cov is not None and getattr(cov, "_data", None) is None:
        ctx.violation("C15/pickle-cov-unusable", pool.wit(source=te.label),
                      "unpickled covariance has no _data (frame and private state lost; Cov defines no __reduce__/__setstate__): "
                      ".cov.frame / .copy() raise AttributeError")
        return False
    sN = snap(N)
    bad = diff(sR, sN, exclude=VALUE_FIELDS_EXCLUDED)
    for f in bad:
        ctx.violation(f"C15/pickle-loses-{fkey(f)}", pool.wit(field=f, source=str(sR.get(f))[:300], unpickled=str(sN.get(f))[:300]),
                      f"pickle round trip of {te.label} changed {f}")
    if not bad:
        ctx.ok()
    if N._data["frame"] is not te.obj._data["frame"]:
        ctx.count("recorded:unpickled-frame-is-a-new-object")
    if N.base is None:
        ctx.count("recorded:unpickled-base-is-None")
    return True


def assign_op(ctx, pool, rng, T, te, op, rec):
    names = SPEC_PARAMS[T.form.name]
    if op == "alias=":
        aliases = [a_ for a_, t in SPEC_ALIASES.items() if t in names]
        nm = rng.choice(aliases)
        i = names.index(SPEC_ALIASES[nm])
    else:
        i = rng.randrange(6)
        nm = names[i]
    old = probe.arr(T)
    keys0 = set(T._data)
    x = float(old[i]) * (1 + 1e-4) + 1e-9
    rec.update(slot=i, name=nm, value=x)
    try:
        if op == "item-index=":
            T[i] = x
        elif op == "item-name=":
            T[nm] = x
        elif op == "attr=":
            setattr(T, nm, x)
        else:
            if rng.random() < 0.5:
                setattr(T, nm, x)
            else:
                T[nm] = x
    except (AttributeError, KeyError) as exc:
        if shadowed_by_alias(T.form, i):
            ctx.violation("C15/access-param-name-shadowed-by-alias", pool.wit(form=T.form.name, name=nm, exc=repr(exc)),
                          f"{T.form.name}: slot {i} ({T.form.param_names[i]!r}) cannot be assigned by name {nm!r}: {exc!r}")
            return
        raise
    new = probe.arr(T)
    exp = old.copy()
    exp[i] = x
    ctx.expect(new.tobytes() == exp.tobytes(), f"C15/assign-{op}-wrong-slot", pool.wit(before=old.tolist(), after=new.tolist()),
               f"{op} {nm!r} -> slot {i}: coordinates are {new.tolist()}")
    ctx.expect(set(T._data) == keys0, f"C15/assign-{op}-creates-metadata", pool.wit(new_keys=sorted(set(T._data) - keys0)),
               f"{op} {nm!r} created metadata keys {sorted(set(T._data) - keys0)}")


# ==========================================================================================================
# atomicity
def comp_scale(form, pre):
    """Scale of each component = largest magnitude among the components of the same physical kind
    (lengths, velocities, rates), at least 1 for dimensionless numbers and angles."""
    kinds = el.FORMS[form]

    def grp(k):
        return "len" if k == "len" else "vel" if k == "vel" else "rate" if k in ("rate_n", "angrate") else "num"

    big = {}
    for k, x in zip(kinds, pre):
        big[grp(k)] = max(big.get(grp(k), 0.0), abs(float(x)))
    big["num"] = max(big.get("num", 0.0), 1.0)
    if "rate" in big and "len" in big:
        # spherical / cylindrical: r_dot vanishes at the apsides, the scale of a velocity is the speed r * theta_dot
        big["vel"] = max(big.get("vel", 0.0), big["len"] * big["rate"])
    return np.array([big[grp(k)] if big[grp(k)] > 0 else 1.0 for k in kinds])


def same_values(form, pre_bytes, post_bytes):
    pre = np.frombuffer(pre_bytes, dtype=float)
    post = np.frombuffer(post_bytes, dtype=float)
    if not (np.all(np.isfinite(pre)) and np.all(np.isfinite(post))):
        return False, float("nan")
    # angles may legitimately come back modulo 2 pi
    kinds = el.FORMS[form]
    d = np.abs(post - pre)
    for i, k in enumerate(kinds):
        if k.startswith("ang") and k != "angrate":
            d[i] = el.angdiff(float(post[i]), float(pre[i]))
    r = float(np.max(d / comp_scale(form, pre)))
    return r <= REL_VALUES, r


def classify_post(s_pre, s_post, s_success, target_frame=None):
    """Name the state an object was left in after a failed in-place change."""
    if target_frame is None and s_success is not None:
        target_frame = s_success["frame"]
    same_labels = s_post["form"] == s_pre["form"] and s_post["frame"] == s_pre["frame"]
    if same_labels:
        okv, r = same_values(s_pre["form"], s_pre["coordinates"], s_post["coordinates"])
        rest = diff(s_pre, s_post, exclude=("coordinates",))
        if okv and not rest:
            return "rolled-back", r
    if target_frame is not None and s_post["frame"] == target_frame != s_pre["frame"] and s_post["form"] == "cartesian" != s_pre["form"]:
        return "late-failure-form-restore", None
    if s_success is not None:
        if s_post["frame"] == s_success["frame"] != s_pre["frame"] and s_post["form"] == s_pre["form"]:
            okv, _ = same_values(s_post["form"], s_success["coordinates"], s_post["coordinates"])
            if okv:
                if s_post["covariance"] == s_pre["covariance"] and s_post["covariance-frame"] == s_pre["covariance-frame"] \
                        and s_success["covariance-frame"] != s_pre["covariance-frame"]:
                    return "late-failure-cov-drag", None
                if s_post["covariance-frame"] == s_success["covariance-frame"]:
                    return "completed-despite-exception", None
    if s_post["frame"] == s_pre["frame"] and s_post["form"] != s_pre["form"]:
        return "form-not-restored", None
    return "mixed-state", None


def physical_state(o, frame):
    """Cartesian coordinates in `frame` (used to compare before/after a failure)."""
    return probe.arr(o.copy(frame=frame, form="cartesian"))


def check_rolled_back(ctx, pool, te, s_pre, s_post, op, site, s_success=None, witness=None, target_frame=None):
    cls, r = classify_post(s_pre, s_post, s_success, target_frame)
    w = witness or pool.wit()
    if cls == "rolled-back":
        ctx.count("atomic:rolled-back")
        ctx.resid("failed-change:values-restored", r, REL_VALUES)
        return True
    family = site.split(":")[0]
    key = f"C15/atomicity-{op}-{cls}" + (f"-at-{family}" if cls == "mixed-state" else "")
    ctx.violation(key, dict(w, site=site, left_in=dict(form=s_post["form"], frame=s_post["frame"], covariance_frame=s_post["covariance-frame"]),
                            was=dict(form=s_pre["form"], frame=s_pre["frame"], covariance_frame=s_pre["covariance-frame"]),
                            changed_fields=diff(s_pre, s_post)),
                  f"failed {op} (failure at {site}) left the object as {s_post['form']}/{s_post['frame']} "
                  f"(cov {s_post['covariance-frame']}); it was {s_pre['form']}/{s_pre['frame']} (cov {s_pre['covariance-frame']}): {cls}")
    return False


SITES_EDGES = [
    ("spherical", "cartesian"), ("cartesian", "keplerian"), ("keplerian", "keplerian_eccentric"),
    ("keplerian_eccentric", "keplerian_mean"), ("keplerian_mean", "tle"), ("equinoctial", "keplerian"),
    ("keplerian", "keplerian_circular"), ("keplerian_mean", "keplerian_mean_circular"), ("cartesian", "cylindrical"),
]


def setup(ctx, job):
    st = {"probes": {}, "log": []}
    if job["kind"] != "failpoints":
        return st
    from beyond.frames import orient
    from beyond.frames.center import Center, Earth
    from beyond.frames.frames import Frame
    from beyond.frames.orient import Orientation
    from beyond.orbits.forms import Form

    def mk(owner, name, site):
        def pre(a, k, site=site):
            st["log"].append(site)

        p = probe.attach(owner, name, pre=pre)
        # the failpoint must strike *before* the call is logged as made: Probe._call raises before `pre`
        st["probes"][site] = p

    for a, b in SITES_EDGES + [(b, a) for a, b in SITES_EDGES]:
        mk(Form, f"_{a}_to_{b}", f"form-edge:{a}->{b}")
    mk(Orientation, "convert_to", "Orientation.convert_to")
    mk(Center, "convert_to", "Center.convert_to")

    # a frame whose centre has no body (like the library's own Lagrange-point frames): elements cannot be rebuilt there
    c = Center("VmonNoBody")
    c.add_link(Earth, orient.EME2000, np.zeros(6))
    st["nobody"] = Frame("VmonNoBody", orient.EME2000, c)
    return st


def finish(ctx, job, st):
    for p in st["probes"].values():
        p.remove()


def reset_probes(st):
    for p in st["probes"].values():
        p.calls = 0
        p.fail_at = None
    st["log"].clear()


def run_failpoints(ctx, job, idx, rng, st):
    from beyond.frames.frames import get_frame

    d = gen_state(rng, "obj")
    # make the interesting configurations frequent: non-cartesian form, covariance in the state frame
    if rng.random() < 0.5:
        d["form"] = rng.choice([f for f in FORMS if f != "cartesian"])
    if rng.random() < 0.5 and d["cov_frame"] is None:
        d["cov_frame"] = d["frame"]
        C, _ = cr.random_spd(rng, "mild")
        d["cov"] = [[float(x) for x in row] for row in C]
    mode = rng.choices(["injected", "natural-hill", "natural-no-body"], weights=[10, 1, 1])[0]
    opname = rng.choices(["frame=", "form=", "copy(frame)", "copy(form)"], weights=[6, 2, 2, 1])[0]
    if mode != "injected":
        opname = rng.choice(["frame=", "copy(frame)"])
    T = build(d)
    te = Entry(T, "obj", 1, d["allow_rot"])
    pool = Pool(ctx, {"object": d})
    pool.entries.append(te)
    if d["cov_frame"] is not None:
        ctx.count("with-cov")
    if d["maneuvers"]:
        ctx.count("with-maneuvers")
    ctx.count("class:" + d["cls"])

    if opname in ("frame=", "copy(frame)"):
        if mode == "natural-hill":
            arg = "Hill"
        elif mode == "natural-no-body":
            if d["form"] in ("cartesian", "spherical", "cylindrical"):
                d["form"] = "keplerian"
                T.form = "keplerian"
            arg = st["nobody"]
        else:
            arg = pick_frame(rng, te, exclude=d["frame"])
    else:
        arg = rng.choice([f for f in FORMS if f != T.form.name])
    argname = fname(arg)
    ctx.case({"object": d, "op": opname, "arg": argname, "mode": mode})
    ctx.count("fail-op:" + opname)

    def do(obj):
        if opname == "frame=":
            obj.frame = arg
            return obj
        if opname == "form=":
            obj.form = arg
            return obj
        if opname == "copy(frame)":
            return obj.copy(frame=arg)
        return obj.copy(form=arg)

    inplace = opname in ("frame=", "form=")
    opkey = {"frame=": "frame-change", "form=": "form-change", "copy(frame)": "copy-frame", "copy(form)": "copy-form"}[opname]
    ref_frame = d["frame"]
    s_success = None
    site = mode
    k = None
    if mode == "injected":
        # dry run on a copy: which instrumented calls does the successful operation make, in which order?
        reset_probes(st)
        dry = T.copy()
        st["log"].clear()
        for p in st["probes"].values():
            p.calls = 0
        res = do(dry)
        log = list(st["log"])
        if not log:
            ctx.count("fail:no-instrumented-call")
            raise env.HarnessSkip()
        s_success = snap(res)
        pos = rng.randrange(len(log))
        site = log[pos]
        k = log[: pos + 1].count(site)
        reset_probes(st)
        st["probes"][site].fail_at = k
        ctx.count("fail-site:" + site.split(":")[0])
        ctx.count(f"fail-stage:{pos + 1}-of-{len(log)}" if len(log) <= 3 else "fail-stage:long-chain")
    pool.oplog.append({"op": opname, "arg": argname, "mode": mode, "site": site, "call": k})

    phys_pre = physical_state(T, ref_frame) if mode != "injected" else None
    if mode == "injected":
        # physical_state() itself calls instrumented functions: take it with the failpoint disarmed
        st["probes"][site].fail_at = None
        phys_pre = physical_state(T, ref_frame)
        reset_probes(st)
        st["probes"][site].fail_at = k
    s_pre = snap(T)
    fp_pre = probe.fingerprint(T)
    raised = None
    try:
        do(T)
    except probe.InjectedFault as exc:
        raised = exc
    except Exception as exc:  # natural failures
        raised = exc
    finally:
        reset_probes(st)
    if raised is None:
        if mode == "injected":
            ctx.count("fail:failpoint-not-reached")
            return
        ctx.violation(f"C15/expected-failure-did-not-happen-{mode}", pool.wit(), f"{opname} {argname} did not raise")
        return
    if mode == "injected" and not isinstance(raised, probe.InjectedFault):
        ctx.violation(f"C15/op-raises-{opname}", pool.wit(exc=repr(raised)), f"{opname} {argname} raised {raised!r} before the failpoint")
        return
    ctx.count("fail:" + ("injected" if mode == "injected" else mode))
    s_post = snap(T)

    if inplace:
        ok = check_rolled_back(ctx, pool, te, s_pre, s_post, opkey, site, s_success,
                               target_frame=argname if opname == "frame=" else None)
        if ok:
            ctx.count(f"atomic:rolled-back:{opname}")
    else:
        same = not diff(s_pre, s_post) and fp_pre == probe.fingerprint(T)
        ctx.expect(same, "C15/failed-copy-changes-receiver", pool.wit(site=site, changed=diff(s_pre, s_post)),
                   f"failed {opname} changed its receiver in {diff(s_pre, s_post)}")
        if same:
            ctx.count("atomic:rolled-back")

    # whatever happened, the object must still describe the same physical state and still convert
    try:
        # an object left with inconsistent numbers may send the anomaly solver into an endless iteration: bounded
        with probe.AnomalySolverBudget(50000):
            phys_post = physical_state(T, ref_frame)
    except Exception as exc:
        ctx.violation(f"C15/failed-{opkey}-object-unusable", pool.wit(site=site, exc=repr(exc)),
                      f"after the failed {opname} the object cannot be converted any more: {exc!r}")
        return
    rn, vn = float(np.linalg.norm(phys_pre[:3])), float(np.linalg.norm(phys_pre[3:]))
    dr = float(np.linalg.norm(phys_post[:3] - phys_pre[:3])) / rn
    dv = float(np.linalg.norm(phys_post[3:] - phys_pre[3:])) / vn
    ctx.resid("failed-change:physical-state", max(dr, dv), REL_STATE, key=f"C15/failed-{opkey}-state-corrupted",
              witness=pool.wit(site=site, before=phys_pre.tolist(), after=phys_post.tolist()),
              msg=f"after the failed {opname} the object describes another physical state (relative change {max(dr, dv):.3g})")


# ==========================================================================================================
# job: access
def run_access(ctx, job, idx, rng, st):
    from beyond.dates import Date
    from beyond.orbits import StateVector
    from beyond.orbits.forms import Form, _cache

    forms = {f.name: f for f in _cache.values()}
    all_names = sorted({n for f in SPEC_PARAMS.values() for n in f} | set(SPEC_ALIASES))
    ctx.expect(sorted(forms) == sorted(SPEC_PARAMS), "C15/access-form-set", {"library": sorted(forms)}, "set of forms differs from the documented one")
    a = math.exp(rng.uniform(math.log(6.8e6), math.log(4.2e7)))
    e = rng.uniform(1e-3, min(0.5, 1 - 6.6e6 / a))
    inc = rng.uniform(0.2, 2.9)
    raan, argp, nu = (rng.uniform(0.1, 6.1) for _ in range(3))
    r, v = el.kep2cart(a, e, inc, raan, argp, nu, MU_EARTH)
    descr = dict(a=a, e=e, i=inc, raan=raan, argp=argp, nu=nu)
    ctx.case(descr)
    base = StateVector(list(r) + list(v), Date(2015, 6, 1, 12, 0, 0), "cartesian", "EME2000", name="acc")
    for fn in FORMS:
        form = forms[fn]
        sv0 = base.copy(form=fn)
        ctx.count("access:form:" + fn)
        vals = probe.arr(sv0)
        w0 = dict(descr, form=fn, param_names=list(form.param_names), documented_names=SPEC_PARAMS[fn], values=vals.tolist())
        # indices
        for i in range(6):
            ctx.expect(float(sv0[i]) == vals[i], "C15/access-get-index-wrong-slot", dict(w0, index=i), f"{fn}[{i}]")
        for nm in all_names:
            ctx.count("access:names-checked")
            slot = param_slot(fn, nm)
            shadowed = slot is not None and shadowed_by_alias(form, slot)
            w = dict(w0, name=nm, expected_slot=slot)
            for how in ("attr", "item"):
                # ---- read
                try:
                    got = getattr(sv0, nm) if how == "attr" else sv0[nm]
                    err = None
                except (AttributeError, KeyError) as exc:
                    got, err = None, exc
                except Exception as exc:
                    ctx.violation(f"C15/access-get-{how}-raises-other", dict(w, exc=repr(exc)), repr(exc))
                    continue
                if slot is None:
                    good = err is not None and isinstance(err, AttributeError if how == "attr" else KeyError)
                    ctx.expect(good, f"C15/access-get-{how}-foreign-name-accepted", dict(w, got=repr(got), exc=repr(err)),
                               f"{fn}: reading {nm!r} (not a parameter of this form) gave {got!r} / {err!r}")
                elif err is not None:
                    key = "C15/access-param-name-shadowed-by-alias" if shadowed else f"C15/access-get-{how}-raises"
                    ctx.violation(key, dict(w, exc=repr(err), how=how), f"{fn}: reading parameter {nm!r} (slot {slot}) raised {err!r}")
                else:
                    ctx.expect(float(got) == vals[slot], f"C15/access-get-{how}-wrong-slot", dict(w, got=float(got)),
                               f"{fn}: {nm!r} returned {got!r}, slot {slot} holds {vals[slot]!r}")
                # ---- write
                sv = sv0.copy()
                keys0 = set(sv._data)
                x = (vals[slot] if slot is not None else 1.0) * (1 + 1e-3) + 1e-6
                try:
                    if how == "attr":
                        setattr(sv, nm, x)
                    else:
                        sv[nm] = x
                    err = None
                except (AttributeError, KeyError) as exc:
                    err = exc
                except Exception as exc:
                    ctx.violation(f"C15/access-set-{how}-raises-other", dict(w, exc=repr(exc)), repr(exc))
                    continue
                now = probe.arr(sv)
                if slot is None:
                    good = err is not None and isinstance(err, AttributeError if how == "attr" else KeyError) \
                        and now.tobytes() == vals.tobytes() and set(sv._data) == keys0
                    ctx.expect(good, f"C15/access-set-{how}-foreign-name-accepted", dict(w, exc=repr(err), new_keys=sorted(set(sv._data) - keys0)),
                               f"{fn}: assigning {nm!r} (not a parameter of this form): {err!r}, new keys {sorted(set(sv._data) - keys0)}")
                elif err is not None:
                    key = "C15/access-param-name-shadowed-by-alias" if shadowed else f"C15/access-set-{how}-raises"
                    ctx.violation(key, dict(w, exc=repr(err), how=how), f"{fn}: assigning parameter {nm!r} (slot {slot}) raised {err!r}")
                else:
                    exp = vals.copy()
                    exp[slot] = x
                    ctx.expect(now.tobytes() == exp.tobytes() and set(sv._data) == keys0, f"C15/access-set-{how}-wrong-slot",
                               dict(w, after=now.tolist(), new_keys=sorted(set(sv._data) - keys0)),
                               f"{fn}: assigning {nm!r} should write slot {slot} only; got {now.tolist()}")
                    ctx.expect(probe.arr(sv0).tobytes() == vals.tobytes(), "C15/access-set-changes-source-of-copy", w, "assignment on a copy changed the source")
        # index write
        for i in range(6):
            sv = sv0.copy()
            sv[i] = vals[i] * 1.001 + 1e-6
            exp = vals.copy()
            exp[i] = vals[i] * 1.001 + 1e-6
            ctx.expect(probe.arr(sv).tobytes() == exp.tobytes(), "C15/access-set-index-wrong-slot", dict(w0, index=i), f"{fn}[{i}] = x")


def run_case(ctx, job, idx, rng, st):
    kind = job["kind"]
    if kind == "histories":
        return run_histories(ctx, job, idx, rng, st)
    if kind == "failpoints":
        return run_failpoints(ctx, job, idx, rng, st)
    return run_access(ctx, job, idx, rng, st)
