"""C06 -- numerical propagation (KeplerNum) converges to the true two-body solution.

Monitors
  * invariant hook on the real `KeplerNum._make_step` (probe.attach): every step the library takes
    is logged (state in, requested step, returned step, state out, method, tol) and recomputed with
    the textbook Runge-Kutta stepper of oracles/rk_ref.py (own tableaux, own point-mass
    acceleration); for the embedded pairs the recomputed error estimate of every *accepted* step
    must be <= tol, the returned step must not exceed the configured one, and the true local error
    (vs the universal-variable solution over that step) must stay within a small multiple of tol
  * reference model on the logged chain (node times are exact sums of the returned steps, no Date
    arithmetic involved): global error vs oracles/kepler_uv at h, h/2, h/4 -> observed order
    (Euler 1, RK4 4); adaptive global error <= accumulated per-step allowance; energy and angular
    momentum drift (order for the fixed-step methods, accumulated per-step allowance for the
    adaptive ones)
  * API boundary: the state returned by propagate(Date|timedelta) / iter(step=s1) / iter(step=s2) /
    iter(own step) / ephem() for the same date: pairwise identical up to |v| * (difference of the
    float MJD of the returned dates); result vs the truth within what Lagrange interpolation of the
    logged nodes allows (node errors measured against the truth, truncation computed with an own
    Lagrange interpolation of the exact solution at the same node times, float-MJD jitter of the
    node dates)
  * hook on `KeplerNum._accel`: stage count per step and stage dates (recorded in the evidence, not
    judged: with a central body at rest in the integration frame the c nodes cannot influence any
    result the property speaks about)
"""

import math

import numpy as np

from .. import env, gen, probe
from ..oracles import elements as el
from ..oracles import rk_ref
from ..oracles import twobody_ref as tb

RULE = (
    "case = one bound orbit with perigee above the surface (class LEO/MEO/GTO/HEO, e <= 0.74, any inclination, "
    "any anomaly) x one integrator x one step in [5 s, 120 s] (x tol for the adaptive ones) x one target within "
    "+-3 orbits (forward by propagate/iter/ephem, backward by propagate) x one request pattern; distinct = "
    "digest of these inputs; non-trivial = at least one real _make_step call was logged and recomputed"
)
EXHAUSTIVE = []
ASSUMPTIONS = [
    "oracles/rk_ref.py: Euler, RK4, Fehlberg 4(5), Dormand-Prince 5(4) tableaux typed from the literature and "
    "verified at start-up against the exact rational order conditions; advancing with the 5th-order weights",
    "oracles/kepler_uv.py is the two-body truth; Earth.mu of beyond.constants is data",
    "the central body is the Earth of beyond.env.solarsystem (at rest at the origin of EME2000): point mass, autonomous",
    "node times of a logged chain = exact sums of the returned timedelta steps",
    "float MJD of the returned dates (Date._mjd, read as data) is the abscissa the library interpolates on: "
    "two results for the same instant may differ by |v| * (their MJD difference) ~ 5 mm per ulp at LEO speed",
    "Orbit constructor, Date arithmetic, timedelta of the library are used to drive it; observation of internal "
    "steps is by wrapping KeplerNum._make_step / _accel from the harness (no source change)",
    "iteration over a list of dates and backward iteration are C08's subject and are not driven here; "
    "chained propagate (restart of the step grid) is compared with the truth only, not with the direct result",
]

EPS = 2.220446049250313e-16
METHODS = ["euler", "rk4", "rkf54", "dopri54"]
MJD_ULP_S = 7.275957614183426e-12 * 86400.0  # ulp of a float MJD in [32768, 65536) in seconds = 0.63 us
LEBESGUE_FIXED = 12.0  # 8 equispaced nodes, end interval: 10.95
LEBESGUE_ADAPT = 60.0  # smoothly varying spacing; recomputed per window, this is only the cap of the estimate

# --- calibrated constants (unchanged tree, see evidence residual table; each >= 100x the measured floor) ---
STEP_REL_TOL = 1e-12  # textbook step vs library step, relative (measured floor 2e-16)
# measured over 3000 / 1200 cases: euler 0.96..1.05; rk4 3.68..4.94 -- the low end is pre-asymptotic (GTO arc ending at
# perigee with 85 s steps: 3.23 on the coarse pair, 3.68 on the fine pair); a tableau with a wrong weight gives <= 2
ORDER_WINDOW = {"euler": (0.7, 1.3), "rk4": (3.0, 5.5)}
DRIFT_K = {"euler": 200.0, "rk4": 10.0}  # measured max of drift / sum: euler 1.3 (energy) 0.5 (momentum); rk4 0.07, 0.008
LOCAL_ERR_MULT = 5.0  # true local error of an accepted adaptive step <= 5 tol (measured <= 0.5 tol)


# ---------------------------------------------------------------------------------------------
def jobs(tier):
    q = tier == "quick"
    return [
        {"name": "order-euler", "n": 120 if q else 3000, "eop": "zero", "kind": "order", "method": "euler"},
        {"name": "order-rk4", "n": 60 if q else 1200, "eop": "zero", "kind": "order", "method": "rk4"},
        {"name": "adaptive", "n": 80 if q else 2000, "eop": "zero", "kind": "adaptive"},
        {"name": "api", "n": 112 if q else 2400, "eop": "zero", "kind": "api"},
        # real IERS tables: integration chains that contain a leap second, epoch labelled UTC / TAI / TT
        {"name": "leap-second", "n": 24 if q else 480, "eop": "real", "kind": "leap", "shards": 2 if q else 16},
    ]


def requirements(tier):
    req = {
        "steps-recomputed:euler": 1000, "steps-recomputed:rk4": 5000, "steps-recomputed:rkf54": 3000,
        "steps-recomputed:dopri54": 3000, "order-observed:euler": 60, "order-observed:rk4": 20,
        "adaptive-accepted-steps-checked": 5000, "adaptive:target-within-8-steps": 20, "adaptive-reduced-steps": 100, "adaptive-global-checked": 60,
        "energy-drift-order:euler": 60, "energy-drift-order:rk4": 60, "drift-adaptive-checked": 60,
        "leap:judged": 20, "leap:label:TAI": 4, "leap:label:TT": 4, "leap:label:UTC": 8, "api:pairs-compared": 300, "api:reconfigured-instance": 30, "api:target-just-short-of-a-node": 15, "api:same-target-other-state": 30, "api:orbit-re-expressed-in-place": 15, "api:vs-truth": 150, "api:backward-propagate": 20, "api:forward-propagate": 50,
        "api:iter": 100, "api:ephem": 50, "api:arg:Date": 30, "api:arg:timedelta": 30,
        "direction:forward": 50, "direction:backward": 50, "stage-dates-recorded": 1000,
    }
    for m in METHODS:
        req["api:method:" + m] = 20
    for c in ("leo", "meo", "gto", "heo"):
        req["orbit:" + c] = 20
    return req


# ---------------------------------------------------------------------------------------------
def setup(ctx, job):
    from beyond.propagators.keplernum import KeplerNum
    from beyond.constants import Earth

    rk_ref.self_check()  # a typing error in the reference tableaux is a harness error, not a verdict
    st = {"log": [], "accel_dates": [], "probes": [], "mu": float(Earth.mu), "re": float(Earth.equatorial_radius)}

    def accel_pre(args, kw):
        st["accel_dates"].append(args[1].date)

    def step_post(args, kw, res):
        self_, orb, step = args[0], args[1], args[2]
        st["log"].append(
            dict(
                y=probe.arr(orb), d=orb.date, h_req=step.total_seconds(), h_ret=res[0].total_seconds(), y1=probe.arr(res[1]),
                d1=res[1].date, method=self_.method, tol=float(self_.tol), h_cfg=self_.step.total_seconds(),
                stage_dates=st["accel_dates"][:],
            )
        )
        st["accel_dates"].clear()

    st["probes"].append(probe.attach(KeplerNum, "_accel", pre=accel_pre))
    st["probes"].append(probe.attach(KeplerNum, "_make_step", post=step_post))
    st["f"] = rk_ref.accel_point_mass(st["mu"])
    return st


def finish(ctx, job, st):
    for p in st["probes"]:
        p.remove()


# ---------------------------------------------------------------------------------------------
def norm(x):
    return float(np.linalg.norm(x))


def us(x):
    return int(round(x * 1e6))


def td(seconds):
    from beyond.dates import timedelta

    return timedelta(microseconds=us(seconds))


def energy(y, mu):
    return 0.5 * float(np.dot(y[3:], y[3:])) - mu / norm(y[:3])


def angmom(y):
    return norm(np.cross(y[:3], y[3:]))


def gen_orbit(rng, st, idx):
    mu, re = st["mu"], st["re"]
    cls = ("leo", "meo", "gto", "heo")[idx % 4]
    if cls == "leo":
        rp, e = re + rng.uniform(180e3, 1500e3), gen.loguniform(rng, 1e-4, 0.05)
    elif cls == "meo":
        rp, e = re + rng.uniform(2000e3, 36000e3), gen.loguniform(rng, 1e-4, 0.3)
    elif cls == "gto":
        rp, e = re + rng.uniform(180e3, 600e3), rng.uniform(0.6, 0.74)
    else:
        rp, e = re + rng.uniform(400e3, 3000e3), rng.uniform(0.2, 0.72)
    a = rp / (1 - e)
    inc = rng.uniform(0.01, math.pi - 0.01)
    raan, argp = rng.uniform(0, 2 * math.pi), rng.uniform(0, 2 * math.pi)
    M = rng.uniform(0, 2 * math.pi) if rng.random() < 0.7 else rng.uniform(-0.3, 0.3)  # perigee passages over-sampled
    E = tb.anomaly_from_M(e, M)
    r, v = tb.cart_from_anomaly(a, e, inc, raan, argp, E, mu)
    return dict(cls=cls, a=a, e=e, i=inc, raan=raan, argp=argp, M=M, T=2 * math.pi * math.sqrt(a ** 3 / mu), rp=rp,
                r=np.array(r, float), v=np.array(v, float))


def make_orbit(o, date, h, method, tol, rng, st):
    from beyond.orbits import Orbit
    from beyond.propagators.keplernum import KeplerNum
    from beyond.env.solarsystem import get_body

    kw = {"method": method if rng.random() < 0.5 else method.upper()}
    if tol is not None:
        kw["tol"] = tol
    prop = KeplerNum(td(h), get_body("Earth"), **kw)
    return Orbit(np.concatenate([o["r"], o["v"]]), date, "cartesian", "EME2000", prop)


def split_chains(log):
    """Consecutive steps whose input is (bitwise) the previous output form one chain."""
    chains = []
    for rec in log:
        if chains and np.array_equal(rec["y"], chains[-1][-1]["y1"]):
            chains[-1].append(rec)
        else:
            chains.append([rec])
    return chains


def chain_nodes(chain):
    """(times in integer microseconds relative to the chain start, states) of a chain."""
    t, ts, ys = 0, [0], [chain[0]["y"]]
    for rec in chain:
        t += us(rec["h_ret"])
        ts.append(t)
        ys.append(rec["y1"])
    return ts, ys


# ---------------------------------------------------------------------------------------------
def verify_steps(ctx, st, log, W):
    """Recompute every logged step with the textbook stepper; adaptive acceptance rules."""
    mu, f = st["mu"], st["f"]
    for k, rec in enumerate(log):
        m = rec["method"]
        y, y1, h = rec["y"], rec["y1"], rec["h_ret"]
        if m not in rk_ref.TABLEAUX:
            raise RuntimeError(f"unknown method {m}")
        w = dict(W, step_index=k, y_in=y.tolist(), h_requested=rec["h_req"], h_returned=h, y_out=y1.tolist(), tol=rec["tol"])
        if not (np.all(np.isfinite(y1)) and np.all(np.isfinite(y))):
            ctx.violation(f"C06/step-nonfinite-{m}", w, "non-finite state in a step")
            continue
        yref, err = rk_ref.step(m, f, 0.0, y, h)
        ctx.count("steps-recomputed:" + m)
        rn, vn = norm(y1[:3]), norm(y1[3:])
        # same arithmetic up to summation order: floor 2e-16 relative; a tableau entry off by 1e-6 relative moves a
        # 5 s LEO step by 4e-2 m = 6e-9 relative
        ctx.resid(f"step:{m}:pos", norm(yref[:3] - y1[:3]), STEP_REL_TOL * rn, key=f"C06/step-differs-from-textbook-{m}", witness=dict(w, textbook=yref.tolist()),
                  msg=f"{m} step of {h} s differs from the textbook step by {norm(yref[:3] - y1[:3])!r} m")
        ctx.resid(f"step:{m}:vel", norm(yref[3:] - y1[3:]), STEP_REL_TOL * vn, key=f"C06/step-differs-from-textbook-{m}", witness=dict(w, textbook=yref.tolist()),
                  msg=f"{m} step of {h} s differs from the textbook step by {norm(yref[3:] - y1[3:])!r} m/s")
        # the new state must be dated t + h (everything downstream interpolates on these dates)
        dd = abs((rec["d1"] - rec["d"]).total_seconds() - h)
        ctx.expect(dd <= 1.5e-6, "C06/step-date-not-advanced-by-returned-step", dict(w, d_in=str(rec["d"]), d_out=str(rec["d1"])),
                   f"step of {h} s dated {rec['d']} -> {rec['d1']}")
        same_sign = (h > 0) == (rec["h_req"] > 0) and h != 0
        if m in rk_ref.ADAPTIVE:
            ctx.count("adaptive-accepted-steps-checked")
            est = norm(err[:3])
            # same numbers, same formula: only the summation order differs (h * sum(d_i k_i): terms ~ |h| |v|)
            ctx.resid(f"adaptive:{m}:estimate/tol", est, rec["tol"] * (1 + 1e-9) + 1e3 * EPS * abs(h) * vn,
                      key=f"C06/adaptive-accepted-step-estimate-above-tol-{m}", witness=dict(w, estimate=est),
                      msg=f"{m}: accepted step of {h} s has an embedded error estimate {est!r} m > tol {rec['tol']}")
            ctx.expect(same_sign and abs(h) <= abs(rec["h_req"]) * (1 + 1e-12) and abs(h) <= abs(rec["h_cfg"]) * (1 + 1e-12),
                       f"C06/adaptive-returned-step-exceeds-configured-{m}", w, f"{m}: requested {rec['h_req']} s, returned {h} s, configured {rec['h_cfg']} s")
            if abs(h) < abs(rec["h_req"]):
                ctx.count("adaptive-reduced-steps")
            # true local error over the step (5th order solution, so well below the 4th/5th order difference)
            rt, vt, *_ = tb.propagate_uv(y[:3], y[3:], h, mu)
            le = norm(y1[:3] - rt)
            ctx.resid(f"adaptive:{m}:local-error/tol", le, LOCAL_ERR_MULT * rec["tol"] + 1e-13 * rn, key=f"C06/adaptive-local-error-above-tol-{m}",
                      witness=dict(w, local_error=le), msg=f"{m}: true local position error {le!r} m of an accepted step, tol {rec['tol']}")
            rec["local_err"] = le
        else:
            ctx.expect(same_sign and us(h) == us(rec["h_req"]), f"C06/fixed-step-size-changed-{m}", w, f"{m}: requested {rec['h_req']} s, returned {h} s")
        # stage evaluations of the accepted attempt: count and dates (recorded, not judged -- see module docstring)
        s = rk_ref.STAGES[m]
        sd = rec["stage_dates"]
        if len(sd) >= s and len(sd) % s == 0:
            ctx.count("stage-dates-recorded")
            cvec = [float(c) for c in rk_ref.TABLEAUX[m]["c"]]
            off = [(d - rec["d"]).total_seconds() for d in sd[-s:]]
            if any(abs(o - c * h) > 2e-6 for o, c in zip(off, cvec)):
                ctx.count("stage-dates-differ-from-textbook-c (not judged)")
        else:
            ctx.count("stage-count-unexpected (not judged)")


def node_errors(st, y0, ts, ys, idxs):
    mu = st["mu"]
    out = {}
    for k in idxs:
        rt, vt, *_ = tb.propagate_uv(y0[:3], y0[3:], ts[k] / 1e6, mu)
        out[k] = (norm(ys[k][:3] - rt), norm(ys[k][3:] - vt))
    return out


def lagrange(ts, ys, t):
    """Own Lagrange interpolation (barycentric-free, plain product form) of vectors ys at abscissae ts."""
    out = np.zeros_like(ys[0])
    lam = 0.0
    for j, tj in enumerate(ts):
        lj = 1.0
        for m_, tm in enumerate(ts):
            if m_ != j:
                lj *= (t - tm) / (tj - tm)
        out = out + lj * ys[j]
        lam += abs(lj)
    return out, lam


def interpolation_allowance(st, y0, t0_us, ts, ys, t_us, adaptive):
    """What an 8-point Lagrange interpolation of the logged nodes may differ from the truth at t.

    ts (integer us, relative to the chain start which is t0_us after the epoch of y0), ys: nodes.
    Returns (allowance position, allowance velocity, info).  Every window of 8 consecutive nodes that
    contains or abuts the bracketing interval is considered (the window choice itself is C09's).
    """
    mu = st["mu"]
    n = len(ts)
    order = min(8, n)
    lo, hi = min(ts), max(ts)
    if not (lo <= t_us <= hi):
        return None
    srt = sorted(range(n), key=lambda k: ts[k])
    tss = [ts[k] for k in srt]
    # bracketing interval
    b = 0
    while b + 1 < n - 1 and tss[b + 1] < t_us:
        b += 1
    worst_p = worst_v = 0.0
    lam_max = 1.0
    emax_p = emax_v = 0.0
    vmax = 0.0
    tt = (t0_us + t_us) / 1e6
    rt, vt, *_ = tb.propagate_uv(y0[:3], y0[3:], tt, mu)
    truth_cache = {}
    for start in range(max(0, b - order + 2), min(b, n - order) + 1):
        win = list(range(start, start + order))
        wt = [tss[k] / 1e6 for k in win]
        truth_nodes = []
        for k in win:
            if k not in truth_cache:
                r_, v_, *_ = tb.propagate_uv(y0[:3], y0[3:], (t0_us + tss[k]) / 1e6, mu)
                truth_cache[k] = np.concatenate([r_, v_])
            truth_nodes.append(truth_cache[k])
            e = ys[srt[k]] - truth_cache[k]
            emax_p, emax_v = max(emax_p, norm(e[:3])), max(emax_v, norm(e[3:]))
            vmax = max(vmax, norm(truth_cache[k][3:]))
        interp, lam = lagrange(wt, truth_nodes, t_us / 1e6)
        worst_p = max(worst_p, norm(interp[:3] - rt))
        worst_v = max(worst_v, norm(interp[3:] - vt))
        lam_max = max(lam_max, lam)
    lam_max = min(max(lam_max, LEBESGUE_FIXED), LEBESGUE_ADAPT if adaptive else 2 * LEBESGUE_FIXED)
    amax = mu / min(norm(truth_cache[k][:3]) for k in truth_cache) ** 2
    jitter_t = (0.5 * lam_max + 1.0) * MJD_ULP_S  # node dates rounded to the float MJD grid + the query itself
    ap = lam_max * emax_p + 3 * worst_p + vmax * jitter_t * 3 + 1e-6
    av = lam_max * emax_v + 3 * worst_v + amax * jitter_t * 3 + 1e-9
    return ap, av, dict(lebesgue=lam_max, node_err=emax_p, truncation=worst_p, jitter=vmax * jitter_t, truth_r=rt, truth_v=vt)


def initial_state_check(ctx, chains, y0, W):
    c0 = chains[0][0]["y"]
    d = norm(c0[:3] - y0[:3]) / norm(y0[:3]) + norm(c0[3:] - y0[3:]) / norm(y0[3:])
    ctx.expect(d <= 1e-12, "C06/integration-does-not-start-from-the-orbit-state", dict(W, first_step_input=c0.tolist()),
               f"first logged step starts {d!r} (relative) away from the orbit's cartesian state")


def descr_of(o, **kw):
    d = dict(orbit=o["cls"], a=o["a"], e=o["e"], i=o["i"], raan=o["raan"], argp=o["argp"], M=o["M"])
    d.update(kw)
    return d


# ---------------------------------------------------------------------------------------------
def run_case(ctx, job, idx, rng, st):
    from beyond.dates import Date

    kind = job["kind"]
    o = gen_orbit(rng, st, idx)
    ctx.count("orbit:" + o["cls"])
    date0 = Date(2006, 1, 1) + td(rng.randrange(0, 10 * 365 * 86400 * 1000) / 1000.0)
    if kind == "leap":
        return case_leap(ctx, job, idx, rng, st, o)
    if kind == "order":
        case_order(ctx, job, idx, rng, st, o, date0)
    elif kind == "adaptive":
        case_adaptive(ctx, job, idx, rng, st, o, date0)
    else:
        case_api(ctx, job, idx, rng, st, o, date0)


LEAP_MJD = [53736, 54832, 56109, 57204, 57754]  # 2006-01-01, 2009-01-01, 2012-07-01, 2015-07-01, 2017-01-01 (TAI-UTC steps)


def case_leap(ctx, job, idx, rng, st, o):
    """The time that enters the integration is the time elapsed between two instants.  The chain starts 2-25 min before a
    leap second and ends after it; the epoch carries the label UTC, TAI or TT (same instants).  Truth: two-body solution
    over the elapsed time (difference of the instants)."""
    from beyond.dates import Date

    mu = st["mu"]
    method = ("rk4", "dopri54", "rkf54")[idx % 3]
    label = ("UTC", "TAI", "TT", "UTC")[(idx // 3) % 4]
    h = rng.choice([20.0, 30.0, 60.0])
    leap = LEAP_MJD[idx % len(LEAP_MJD)]
    before = round(rng.uniform(120.0, 1500.0), 3)
    t0_tai = Date(leap, scale="UTC").change_scale("TAI") - td(before)  # `before` seconds of elapsed time before the new TAI-UTC
    date0 = t0_tai.change_scale(label)
    if abs((date0 - t0_tai).total_seconds()) > 1.5e-6:
        ctx.count("leap:not-judged-relabelling-moved-the-instant (C03's subject)")
        raise env.HarnessSkip()
    t = round(before + rng.uniform(300.0, 1200.0), 3)
    y0 = np.concatenate([o["r"], o["v"]])
    W = descr_of(o, method=method, h=h, epoch=str(date0), epoch_label=label, leap_second_after_s=before, target_s=t, r0=o["r"].tolist(), v0=o["v"].tolist(), mu=mu,
                 how="Orbit(r0+v0, epoch, 'cartesian', 'EME2000', KeplerNum(timedelta(h), Earth, method=method)).propagate(timedelta(target_s)); real IERS tables")
    ctx.case({k_: W[k_] for k_ in ("orbit", "a", "e", "method", "h", "epoch", "epoch_label", "target_s")})
    ctx.count("leap:label:" + label)
    orb = make_orbit(o, date0, h, method, None, rng, st)
    try:
        res, log = run_logged(st, lambda: orb.propagate(td(t)))
    except Exception as exc:
        ctx.violation(f"C06/propagate-raises-{method}", dict(W, exc=repr(exc)), f"propagate raised {exc!r}")
        return
    out = probe.arr(res)
    elapsed = (res.date - date0).total_seconds()
    rt, vt, *_ = tb.propagate_uv(y0[:3], y0[3:], elapsed, mu)
    d = norm(out[:3] - rt)
    vn = norm(vt)
    # integration + interpolation error of these step sizes on these orbits: measured <= 15 m (rk4, 60 s, GTO perigee);
    # one second of motion is >= 1.5 km on every orbit of the generator
    allow = 50.0
    one_second = vn * 1.0
    key = f"C06/propagate-result-vs-truth-across-a-leap-second-{label}"
    if label == "UTC" and d > allow and 0.5 * one_second <= d <= 2.0 * one_second:
        # known finding: the chain is dated by adding the step to the UTC LABEL (61 s of elapsed time per 60 s of label time
        # across the leap second) while the integrator advanced the state by the step
        key = "C06/utc-labelled-chain-across-a-leap-second-is-one-second-off"
    ctx.count("leap:judged")
    ctx.resid(f"leap:{label}:vs-truth:pos", d, allow, key=key,
              witness=dict(W, result=out.tolist(), result_date=str(res.date), elapsed_s=elapsed, truth_r=rt.tolist(), one_second_of_motion_m=one_second),
              msg=f"{method}, epoch labelled {label}, leap second {before} s after the epoch: {d:.1f} m from the two-body solution after {elapsed} s "
                  f"(one second of motion = {one_second:.0f} m)")
    ctx.expect(abs(elapsed - t) <= 1.5e-6 or label == "UTC", "C06/result-not-dated-at-the-target", dict(W, elapsed_s=elapsed),
               f"result dated {elapsed} s after the epoch, requested {t} s")


def run_logged(st, fn):
    st["log"].clear()
    st["accel_dates"].clear()
    res = fn()
    log = st["log"][:]
    st["log"].clear()
    return res, log


# ---------------------------------------------------------------------------------------------
def case_order(ctx, job, idx, rng, st, o, date0):
    """Fixed-step methods: observed order of the global error and of the energy / momentum drift."""
    mu = st["mu"]
    method = job["method"]
    p = rk_ref.ORDER[method]
    h0 = 4 * rng.randint(5000, 30000) / 1000.0  # 20 .. 120 s, h0/4 on the ms grid and >= 5 s
    sgn = 1 if (idx // 4) % 2 == 0 else -1
    if method == "euler":
        span = rng.uniform(h0, 600.0)  # asymptotic regime of a first-order method
    else:
        span = min(3 * o["T"], 180 * h0) * rng.uniform(0.1, 1.0)
    k = max(1, int(span // h0))
    t = sgn * k * h0
    W = descr_of(o, method=method, h0=h0, target_s=t, date0=str(date0), r0=o["r"].tolist(), v0=o["v"].tolist(), mu=mu,
                 how="Orbit(r0+v0, date0, 'cartesian', 'EME2000', KeplerNum(timedelta(h), get_body('Earth'), method=method)).propagate(timedelta(target_s)) for h = h0, h0/2, h0/4")
    ctx.case({k_: W[k_] for k_ in ("orbit", "a", "e", "i", "raan", "argp", "M", "method", "h0", "target_s")})
    ctx.count("direction:" + ("forward" if sgn > 0 else "backward"))
    y0 = np.concatenate([o["r"], o["v"]])
    rt, vt, *_ = tb.propagate_uv(o["r"], o["v"], t, mu)
    E0, H0 = energy(y0, mu), angmom(y0)
    errs, dE, dH, nst, sums = [], [], [], [], []
    for div in (1, 2, 4):
        h = h0 / div
        orb = make_orbit(o, date0, h, method, None, rng, st)
        try:
            res, log = run_logged(st, lambda: orb.propagate(td(t)))
        except Exception as exc:
            ctx.violation(f"C06/propagate-raises-{method}", dict(W, h=h, exc=repr(exc)), f"propagate raised {exc!r}")
            return
        if not log:
            raise RuntimeError("no step logged")
        verify_steps(ctx, st, log, dict(W, h=h))
        chains = split_chains(log)
        initial_state_check(ctx, chains, y0, W)
        ts, ys = chain_nodes(chains[0])
        if us(t) not in ts:
            ctx.violation("C06/no-integration-node-at-on-grid-target", dict(W, h=h, nodes_head=ts[:5], nodes_tail=ts[-5:]),
                          f"target {t} s = {k * div} steps of {h} s is not a node of the integration chain")
            return
        kn = ts.index(us(t))
        yk = ys[kn]
        errs.append(norm(yk[:3] - rt))
        dE.append(abs(energy(yk, mu) - E0) / abs(E0))
        dH.append(abs(angmom(yk) - H0) / H0)
        nst.append(kn)
        sE = sH = 0.0
        for yi in ys[:kn]:
            ri = norm(yi[:3])
            wh = (math.sqrt(mu / ri ** 3) * h) ** (p + 1)
            sE += wh * 2 * o["a"] / ri
            sH += wh * 2
        sums.append((sE, sH))
        # API result at an on-grid target = that node (up to the float-MJD abscissa: one ulp of the query)
        out = probe.arr(res)
        vk = norm(yk[3:])
        ctx.resid("api:on-grid-result-vs-node:pos", norm(out[:3] - yk[:3]), 3 * vk * MJD_ULP_S + 1e-6,
                  key=f"C06/propagate-result-differs-from-integration-node", witness=dict(W, h=h, node=yk.tolist(), result=out.tolist()),
                  msg=f"propagate({t} s) returns a state {norm(out[:3] - yk[:3])!r} m away from the integration node at that instant")
    # ---- observed order on the finest pair whose errors are above the rounding floor -------------
    rn = norm(rt)
    floor = 300 * EPS * rn * max(nst)  # accumulated rounding <= eps r N; x300 so that it inflates an error by < 1 %
    wo = dict(W, errors_m=errs, energy_drift=dE, angmom_drift=dH, steps=nst)
    est = {}
    if errs[1] > floor:
        est["h0:h0/2"] = math.log2(errs[0] / errs[1])
    if errs[2] > floor:
        est["h0/2:h0/4"] = math.log2(errs[1] / errs[2])
        est["h0:h0/4"] = 0.5 * math.log2(errs[0] / errs[2])
    if not est:
        ctx.count("order-not-observable-rounding-floor:" + method)
    else:
        # the error vector of one step size can come close to a zero of its leading terms (pre-asymptotic
        # cancellation), which depresses one of the pairwise estimates and inflates its neighbour; a method of
        # lower order depresses all of them.  The verdict uses the best estimate; the finest pair is recorded too.
        pobs = max(est.values())
        pfine = est.get("h0/2:h0/4", est.get("h0:h0/2"))
        lo, hi = ORDER_WINDOW[method]
        ctx.count("order-observed:" + method)
        wo["order_estimates"] = est
        ctx.resid(f"order:{method}:deficit", p - pobs, p - lo, key=f"C06/observed-order-too-low-{method}", witness=wo,
                  msg=f"{method}: errors {errs} m at h0, h0/2, h0/4 -> observed order {pobs:.3f} (nominal {p})")
        # faster-than-nominal decay is not a violation of "converges at the order"; recorded only
        ctx.resid(f"order:{method}:finest-pair-deficit (recorded)", p - pfine, p - lo)
        ctx.resid(f"order:{method}:excess (recorded)", pobs - p, hi - p)
        if errs[0] > 10 * floor:
            ctx.expect(errs[2] < errs[0], f"C06/error-not-decreasing-with-step-{method}", wo, f"{method}: errors {errs}")
    # ---- drift of the invariants: within the accumulated local truncation scale of an order-p method ------
    # one step changes the relative energy by <= K (w_i h)^(p+1) (2a/r_i), w_i^2 = mu/r_i^3 (local angular rate), and the
    # relative angular momentum by <= K (w_i h)^(p+1) * 2; the sums over the steps actually taken are the bounds.
    for j, div in enumerate((1, 2, 4)):
        sE, sH = sums[j]
        ctx.count(f"energy-drift-order:{method}")
        wd = dict(wo, h=h0 / div, sum_energy_scale=sE, sum_angmom_scale=sH)
        ctx.resid(f"drift:energy:{method}", dE[j], DRIFT_K[method] * sE + 1e3 * EPS * math.sqrt(nst[j]), key=f"C06/energy-drift-{method}", witness=wd,
                  msg=f"{method}: relative energy drift {dE[j]!r} after {nst[j]} steps of {h0 / div} s; truncation scale {sE!r}")
        ctx.resid(f"drift:angmom:{method}", dH[j], DRIFT_K[method] * sH + 1e3 * EPS * math.sqrt(nst[j]), key=f"C06/angular-momentum-drift-{method}", witness=wd,
                  msg=f"{method}: relative angular momentum drift {dH[j]!r} after {nst[j]} steps of {h0 / div} s; truncation scale {sH!r}")


# ---------------------------------------------------------------------------------------------
def growth(o, t, mu):
    """Bound of the amplification of a state error over |t| of two-body flow (secular along-track
    growth 3 n t da/a with da <= 2 (a/r)^2-ish of a position error at radius r)."""
    n = math.sqrt(mu / o["a"] ** 3)
    return 4.0 + 3.0 * n * abs(t) * 2.0 * (o["a"] / o["rp"]) ** 2


def case_adaptive(ctx, job, idx, rng, st, o, date0):
    mu = st["mu"]
    method = ("rkf54", "dopri54")[(idx // 4) % 2]
    h = round(rng.uniform(5.0, 120.0), 3)
    tol = gen.loguniform(rng, 1e-5, 1e-1) if rng.random() < 0.7 else None
    sgn = 1 if (idx // 8) % 2 == 0 else -1
    span = min(3 * o["T"], 700 * h) * rng.uniform(0.05, 1.0)
    if idx % 3 == 0:
        # target fewer than 8 steps away (often inside the first step), large nominal step: the integrator then adds
        # support points beyond the target for the 8-point interpolation -- they are steps like the others
        h = round(rng.uniform(60.0, 180.0), 3)
        span = h * (rng.uniform(0.02, 0.9) if rng.random() < 0.6 else rng.uniform(0.9, 6.8))
        ctx.count("adaptive:target-within-8-steps")
    t = sgn * round(span, 3)
    tol_eff = 1e-3 if tol is None else tol
    W = descr_of(o, method=method, h=h, tol=tol, target_s=t, date0=str(date0), r0=o["r"].tolist(), v0=o["v"].tolist(), mu=mu,
                 how="Orbit(r0+v0, date0, 'cartesian', 'EME2000', KeplerNum(timedelta(h), get_body('Earth'), method=method, tol=tol)).propagate(timedelta(target_s))")
    ctx.case({k_: W[k_] for k_ in ("orbit", "a", "e", "i", "raan", "argp", "M", "method", "h", "tol", "target_s")})
    ctx.count("direction:" + ("forward" if sgn > 0 else "backward"))
    ctx.count("adaptive:tol:" + ("default" if tol is None else "1e%d" % math.floor(math.log10(tol))))
    y0 = np.concatenate([o["r"], o["v"]])
    orb = make_orbit(o, date0, h, method, tol, rng, st)
    try:
        res, log = run_logged(st, lambda: orb.propagate(td(t)))
    except RuntimeError as exc:
        # "No convergence in step size after 10 iterations": never observed on the unchanged tree inside the
        # quantifier (the step shrinks by (tol/2err)^(1/5): one or two attempts suffice); the property promises a
        # state within tolerance for every such request, so a refusal is reported under its own mechanism key
        key = f"C06/adaptive-no-step-size-convergence-{method}" if "No convergence" in str(exc) else f"C06/propagate-raises-{method}"
        ctx.violation(key, dict(W, exc=repr(exc)), f"propagate raised {exc!r}")
        return
    except Exception as exc:
        ctx.violation(f"C06/propagate-raises-{method}", dict(W, exc=repr(exc)), f"propagate raised {exc!r}")
        return
    if not log:
        raise RuntimeError("no step logged")
    ctx.expect(all(abs(r_["tol"] - tol_eff) <= 1e-15 for r_ in log), "C06/adaptive-tolerance-not-the-configured-one",
               dict(W, tol_seen=sorted({r_["tol"] for r_ in log})), "steps taken with another tol than configured")
    verify_steps(ctx, st, log, W)
    chains = split_chains(log)
    initial_state_check(ctx, chains, y0, W)
    ts, ys = chain_nodes(chains[0])
    # ---- global error of the chain at its last node and at the node next to the target ----------
    kk = sorted({len(ts) - 1, min(range(len(ts)), key=lambda k: abs(ts[k] - us(t)))})
    ne = node_errors(st, y0, ts, ys, kk)
    E0, H0 = energy(y0, mu), angmom(y0)
    for k in kk:
        if k == 0:
            continue
        tk = ts[k] / 1e6
        g = growth(o, tk, mu)
        # every accepted step adds at most LOCAL_ERR_MULT*tol (monitored above); errors grow by at most g
        bound = g * k * LOCAL_ERR_MULT * tol_eff
        rmin = o["rp"]
        ctx.count("adaptive-global-checked")
        wg = dict(W, node_index=k, node_time=tk, node=ys[k].tolist(), steps=k)
        ctx.resid(f"adaptive:{method}:global-error", ne[k][0], bound + 1e3 * EPS * norm(ys[k][:3]) * math.sqrt(k), key=f"C06/adaptive-global-error-{method}", witness=wg,
                  msg=f"{method}: {ne[k][0]!r} m from the two-body solution after {k} accepted steps (tol {tol_eff})")
        # invariants: a position error dr and a velocity error dv change the energy by at most (mu/r^2) dr + v dv and
        # the angular momentum by v dr + r dv; with dv <= (v/r) dr * 4 (same local truncation behaviour, measured)
        vmax = math.sqrt(mu * (2 / rmin - 1 / o["a"]))
        # (the invariants do not amplify: the sum of the per-step allowances, without the growth factor)
        local_sum = k * LOCAL_ERR_MULT * tol_eff
        dE_allow = (mu / rmin ** 2 + 4 * vmax * vmax / rmin) * local_sum / abs(E0)
        dH_allow = (vmax + 4 * vmax) * local_sum / H0
        ctx.count("drift-adaptive-checked")
        ctx.resid(f"drift:energy:{method}", abs(energy(ys[k], mu) - E0) / abs(E0), dE_allow + 1e3 * EPS * math.sqrt(k), key=f"C06/energy-drift-{method}", witness=wg,
                  msg=f"{method}: relative energy drift {abs(energy(ys[k], mu) - E0) / abs(E0)!r} after {k} steps (tol {tol_eff})")
        ctx.resid(f"drift:angmom:{method}", abs(angmom(ys[k]) - H0) / H0, dH_allow + 1e3 * EPS * math.sqrt(k), key=f"C06/angular-momentum-drift-{method}", witness=wg,
                  msg=f"{method}: relative angular momentum drift {abs(angmom(ys[k]) - H0) / H0!r} after {k} steps (tol {tol_eff})")
    # ---- the returned state vs the truth ----------------------------------------------------------
    api_vs_truth(ctx, st, W, y0, 0, ts, ys, us(t), probe.arr(res), method, "propagate")
    # "the state returned does not depend on how the request is split": the returned orbit is what a split request is
    # continued from, so the propagator it carries must integrate with the configured tolerance (the accept / reject
    # criterion of every later step depends on it)
    if tol is not None and method in rk_ref.ADAPTIVE:
        ctx.count("split:carried-tolerance-checked")
        try:
            carried = float(res.propagator.tol)
        except Exception as exc:
            carried = None
        ctx.expect(carried is not None and carried == float(tol), "C06/split-request-continues-with-another-tolerance",
                   dict(W, configured_tol=tol, carried_tol=carried),
                   f"the orbit returned by propagate() carries a propagator with tol={carried!r}, configured {tol!r}: a request split in two is integrated with another tolerance")


def api_vs_truth(ctx, st, W, y0, t0_us, ts, ys, t_us, out, method, how):
    adaptive = method in rk_ref.ADAPTIVE
    al = interpolation_allowance(st, y0, t0_us, ts, ys, t_us, adaptive)
    if al is None:
        ctx.violation("C06/target-outside-integration-chain", dict(W, how=how, target_us=t_us, chain_from=min(ts), chain_to=max(ts)),
                      f"{how}: target not covered by the integration chain")
        return
    ap, av, info = al
    ctx.count("api:vs-truth")
    finite = bool(np.all(np.isfinite(out)))
    dp = norm(out[:3] - info["truth_r"]) if finite else float("nan")
    dv = norm(out[3:] - info["truth_v"]) if finite else float("nan")
    w = dict(W, how=how, result=out.tolist(), truth_r=info["truth_r"].tolist(), truth_v=info["truth_v"].tolist(),
             allowance={k: info[k] for k in ("lebesgue", "node_err", "truncation", "jitter")})
    key = f"C06/{how}-result-vs-truth-beyond-node-errors-and-interpolation"
    ctx.resid(f"api:{how}:vs-truth:pos", dp, ap, key=key, witness=w,
              msg=f"{how} ({method}): {dp!r} m from the two-body solution; nodes are within {info['node_err']!r} m, interpolation allows {ap!r} m")
    ctx.resid(f"api:{how}:vs-truth:vel", dv, av, key=key, witness=w,
              msg=f"{how} ({method}): {dv!r} m/s from the two-body solution; allowance {av!r}")


# ---------------------------------------------------------------------------------------------
def case_api(ctx, job, idx, rng, st, o, date0):
    """Same date through propagate / iter(step=s1) / iter(step=s2) / iter(own step) / ephem."""
    mu = st["mu"]
    method = METHODS[(idx // 4) % 4]
    if method == "euler":
        h = round(rng.uniform(5.0, 30.0), 3)
    else:
        h = round(rng.uniform(5.0, 120.0), 3)
    tol = None if method not in rk_ref.ADAPTIVE or rng.random() < 0.5 else gen.loguniform(rng, 1e-4, 1e-2)
    backward = (idx // 16) % 3 == 2
    y0 = np.concatenate([o["r"], o["v"]])
    ctx.count("api:method:" + method)
    nmax = 220 if method != "euler" else 120
    short = (not backward) and rng.random() < 0.12  # span shorter than the interpolation order (S-6 territory)
    if short:
        nsteps = rng.uniform(0.3, 6.8)
    else:
        nsteps = rng.uniform(8.5, min(nmax, 3 * o["T"] / h))
    # output steps: s1 arbitrary, s2 = s1 / m (so that the target k*s1 is on both output grids)
    k1 = rng.randint(1, 12)
    span = nsteps * h
    s1 = max(1e-3, round(span / k1, 3))
    mdiv = rng.choice([2, 3, 5])
    s1 = round(s1 / mdiv, 3) * mdiv
    if s1 <= 0:
        s1 = mdiv * 1e-3
    s2 = s1 / mdiv
    t = k1 * s1
    if backward:
        t = -t
    argtype = ("timedelta", "Date")[(idx // 2) % 2]
    W = descr_of(o, method=method, h=h, tol=tol, target_s=t, s1=s1, s2=s2, argtype=argtype, date0=str(date0), r0=o["r"].tolist(), v0=o["v"].tolist(), mu=mu,
                 how="orb = Orbit(r0+v0, date0, 'cartesian', 'EME2000', KeplerNum(timedelta(h), get_body('Earth'), method=method[, tol=tol])); "
                     "orb.propagate(target) | list(orb.iter(stop=timedelta(target_s), step=timedelta(s)))[-1] | orb.ephem(stop=..., step=...)[-1]")
    ctx.case({k_: W[k_] for k_ in ("orbit", "a", "e", "i", "raan", "argp", "M", "method", "h", "tol", "target_s", "s1", "s2", "argtype")})
    ctx.count("direction:" + ("backward" if backward else "forward"))
    ctx.count("api:arg:" + argtype)
    ctx.count("api:span:" + ("short" if short else "regular"))
    target_date = date0 + td(t)

    results = {}

    def at_target(seq, name):
        """The sample dated at the target (the library's iteration may run past the requested stop, up to the
        last integration node -- the date grid of an iteration is C08's subject, not judged here)."""
        best = None
        for x in seq:
            d = abs((x.date - date0).total_seconds() - t)
            if d <= 1.5e-6 and best is None:
                best = x
        if best is None:
            ctx.count("api:no-sample-at-target (iteration grid is C08's subject)")
        if len(seq) and (seq[-1].date - date0).total_seconds() - t > 1.5e-6:
            ctx.count("api:iteration-runs-past-requested-stop (C08's subject, not judged)")
        return best

    def attempt(name, fn, iterating):
        orb = make_orbit(o, date0, h, method, tol, rng, st)
        try:
            res, log = run_logged(st, lambda: fn(orb))
        except ValueError as exc:
            if iterating and "< order=" in str(exc):
                # S-6: the integration chain has fewer nodes than the Lagrange order of the re-sampling
                ctx.violation("C06/iter-span-shorter-than-8-steps-valueerror", dict(W, request=name, exc=repr(exc)),
                              f"{name}: {exc!r} (span {t} s = {nsteps:.2f} steps of {h} s)")
            else:
                ctx.violation(f"C06/{name.split('(')[0]}-raises", dict(W, request=name, exc=repr(exc)), f"{name} raised {exc!r}")
            return None
        except RuntimeError as exc:
            if "No convergence" in str(exc):
                ctx.violation(f"C06/adaptive-no-step-size-convergence-{method}", dict(W, request=name, exc=repr(exc)), f"{name} raised {exc!r}")
                return None
            ctx.violation(f"C06/{name.split('(')[0]}-raises", dict(W, request=name, exc=repr(exc)), f"{name} raised {exc!r}")
            return None
        except Exception as exc:
            ctx.violation(f"C06/{name.split('(')[0]}-raises", dict(W, request=name, exc=repr(exc)), f"{name} raised {exc!r}")
            return None
        if log:
            verify_steps(ctx, st, log, dict(W, request=name))
        return res, log

    # 1. propagate
    arg = td(t) if argtype == "timedelta" else target_date
    got = attempt("propagate", lambda orb: orb.propagate(arg), False)
    ctx.count("api:backward-propagate" if backward else "api:forward-propagate")
    if got is not None:
        res, log = got
        results["propagate"] = res
        if log:
            chains = split_chains(log)
            initial_state_check(ctx, chains, y0, W)
            ts, ys = chain_nodes(chains[0])
            api_vs_truth(ctx, st, W, y0, 0, ts, ys, us(t), probe.arr(res), method, "propagate")
    if not backward:
        # 2./3. iterate with two output steps, 4. with the propagator's own step, 5. ephem
        for name, s in (("iter(step=s1)", s1), ("iter(step=s2)", s2)):
            got = attempt(name, lambda orb, s=s: list(orb.iter(stop=td(t), step=td(s))), True)
            ctx.count("api:iter")
            if got is not None and got[0]:
                seq, log = got
                hit = at_target(seq, name)
                if hit is not None:
                    results[name] = hit
                if log and name == "iter(step=s2)":
                    chains = split_chains(log)
                    ts, ys = chain_nodes(chains[-1])
                    # an intermediate sample too (off the integration grid in general)
                    j = rng.randrange(len(seq))
                    tj = us((seq[j].date - date0).total_seconds())
                    api_vs_truth(ctx, st, W, y0, 0, ts, ys, tj, probe.arr(seq[j]), method, "iter")
        got = attempt("ephem(step=s1)", lambda orb: orb.ephem(stop=td(t), step=td(s1)), True)
        ctx.count("api:ephem")
        if got is not None and len(got[0]):
            hit = at_target(list(got[0]), "ephem(step=s1)")
            if hit is not None:
                results["ephem(step=s1)"] = hit
        # 6. iterate from a later start (two chains: extrapolation to start, then the march) -- vs truth only
        if not short and rng.random() < 0.5:
            off = round(min(rng.uniform(0.05, 0.6) * t, max(0.05 * t, t - 9.5 * h)), 3)
            got = attempt("iter(start=offset)", lambda orb: list(orb.iter(start=date0 + td(off), stop=target_date, step=td(s2))), True)
            ctx.count("api:iter-start-offset")
            if got is not None and got[0] and got[1]:
                seq, log = got
                chains = split_chains(log)
                if len(chains) >= 2:
                    ts, ys = chain_nodes(chains[-1])
                    j = rng.randrange(len(seq))
                    tj = us((seq[j].date - date0).total_seconds()) - us(off)
                    api_vs_truth(ctx, st, W, y0, us(off), ts, ys, tj, probe.arr(seq[j]), method, "iter-from-later-start")
    # ---- history: one propagator object, used, then re-configured through its public attributes (method, step, tol),
    # then used again: every step of the second run is a step of the integrator NOW chosen
    if idx % 2 == 0:
        m2 = rng.choice([m_ for m_ in METHODS if m_ != method])
        h2 = round(rng.uniform(5.0, 30.0 if m2 == "euler" else 120.0), 3)
        tol2 = gen.loguniform(rng, 1e-4, 1e-2)
        t2 = round((1 if not backward else -1) * rng.uniform(9.0, 40.0) * h2, 3)
        W2 = dict(W, history="same KeplerNum object after a first propagate(): .method, .step, .tol reassigned", method_2=m2, h_2=h2, tol_2=tol2, target_2_s=t2)
        orb2 = make_orbit(o, date0, h, method, tol, rng, st)
        try:
            run_logged(st, lambda: orb2.propagate(td(t)))
            orb2.propagator.method = m2
            orb2.propagator.step = td(h2)
            orb2.propagator.tol = tol2
            res2, log2 = run_logged(st, lambda: orb2.propagate(td(t2)))
        except Exception as exc:
            ctx.violation("C06/propagate-raises-after-reconfiguration", dict(W2, exc=repr(exc)), f"propagate after re-configuration raised {exc!r}")
            log2 = None
        if log2:
            ctx.count("api:reconfigured-instance")
            ctx.expect(all(r_["method"] == m2 and abs(r_["h_cfg"] - h2) < 1e-9 for r_ in log2), "C06/reconfiguration-ignored", W2,
                       "the steps after the re-configuration do not carry the new method / step")
            verify_steps(ctx, st, log2, W2)
            chains = split_chains(log2)
            ts, ys = chain_nodes(chains[0])
            api_vs_truth(ctx, st, W2, y0, 0, ts, ys, us(t2), probe.arr(res2), m2, "propagate")

    # ---- a target a fraction of a millisecond short of an integration node (neither on the grid nor far from it): the
    # state is the interpolated one, not the node re-dated
    if idx % 4 == 1 and not short:
        mN = method if method != "euler" else "rk4"
        kN = rng.randint(9, 40)
        delta = rng.choice([60, 150, 400, 800, 950]) * 1e-6
        sg = -1 if backward else 1
        tN = sg * (kN * h - delta)
        WN = dict(W, history=None, method=mN, target_s=tN, short_of_node_s=delta, request="propagate to a date just short of an integration node")
        orbN = make_orbit(o, date0, h, mN, tol if mN == method else None, rng, st)
        try:
            resN, logN = run_logged(st, lambda: orbN.propagate(td(tN) if argtype == "timedelta" else date0 + td(tN)))
        except Exception as exc:
            ctx.violation("C06/propagate-raises", dict(WN, exc=repr(exc)), f"propagate raised {exc!r}")
            logN = None
        if logN:
            ctx.count("api:target-just-short-of-a-node")
            chains = split_chains(logN)
            ts, ys = chain_nodes(chains[0])
            ddN = abs((resN.date - date0).total_seconds() - tN)
            ctx.expect(ddN <= 1.5e-6, "C06/result-not-dated-at-the-target", dict(WN, date=str(resN.date)), f"result dated {resN.date}, asked {tN} s after {date0}")
            api_vs_truth(ctx, st, WN, y0, 0, ts, ys, us(tN), probe.arr(resN), mN, "propagate")

    # ---- history: the same propagator object, the same epoch, the same target date -- and another initial state (the orbit
    # edited in place between two calls, or a second orbit handed to the same propagator object)
    if idx % 2 == 1:
        from beyond.orbits import Orbit

        mode = ("orbit-edited-in-place", "second-orbit-same-propagator-object")[(idx // 2) % 2]
        y0b = y0.copy()
        y0b[3:] *= 1 + rng.choice((-1, 1)) * rng.uniform(2e-4, 2e-3)
        WS = dict(W, history=f"propagate(target), then {mode} (velocity scaled), then propagate(target) again", second_state=y0b.tolist())
        orbS = make_orbit(o, date0, h, method, tol, rng, st)
        try:
            _r1, log1 = run_logged(st, lambda: orbS.propagate(arg))
            if mode == "orbit-edited-in-place":
                orbS[3:] = y0b[3:]
                second = orbS
            else:
                second = Orbit(y0b, date0, "cartesian", "EME2000", orbS.propagator)
            resS, logS = run_logged(st, lambda: second.propagate(arg))
        except Exception as exc:
            ctx.violation("C06/propagate-raises-after-state-change", dict(WS, exc=repr(exc)), f"{mode}: propagate raised {exc!r}")
            log1 = None
        if log1:
            ctx.count("api:same-target-other-state")
            ctx.count("api:same-target-other-state:" + mode)
            outS = probe.arr(resS)
            if logS:
                chains = split_chains(logS)
                initial_state_check(ctx, chains, y0b, WS)
                ts, ys = chain_nodes(chains[0])
                api_vs_truth(ctx, st, WS, y0b, 0, ts, ys, us(t), outS, method, "propagate-after-state-change")
            else:
                # nothing was integrated for the second request: judged against the truth with the allowance of the first chain
                ts, ys = chain_nodes(split_chains(log1)[0])
                al = interpolation_allowance(st, y0, 0, ts, ys, us(t), method in rk_ref.ADAPTIVE)
                rtb, vtb, *_ = tb.propagate_uv(y0b[:3], y0b[3:], t, mu)
                dpS = norm(outS[:3] - rtb)
                if al is not None:
                    ctx.resid("api:same-target-other-state:no-integration:pos", dpS, 4 * al[0] + 1e-3, key="C06/state-of-an-earlier-request-returned-for-another-initial-state",
                              witness=dict(WS, result=outS.tolist(), truth_r=rtb.tolist()),
                              msg=f"{mode}: no integration step was taken for the second request and its result is {dpS!r} m from the two-body solution of the second state")

    # ---- history: the same Orbit object, propagated once, then RE-EXPRESSED in place (another form, another frame: the same
    # point of space-time), then propagated again: the same trajectory
    if idx % 4 == 3:
        how = ("form", "frame-inertial", "frame-rotating", "form-and-back")[(idx // 4) % 4]
        WR = dict(W, history=f"propagate(target), then the orbit re-expressed in place ({how}), then propagate(target) again")
        orbR = make_orbit(o, date0, h, method, tol, rng, st)
        try:
            _r1, logA = run_logged(st, lambda: orbR.propagate(arg))
            if how == "form":
                orbR.form = rng.choice(["keplerian", "spherical", "equinoctial"])
            elif how == "frame-inertial":
                orbR.frame = rng.choice(["MOD", "TEME", "G50"])
            elif how == "frame-rotating":
                orbR.frame = "ITRF"
            else:
                orbR.form = "keplerian_mean"
                orbR.form = "cartesian"
            resR, logR = run_logged(st, lambda: orbR.propagate(arg))
            outR = probe.arr(resR.copy(form="cartesian", frame="EME2000"))
        except Exception as exc:
            ctx.violation("C06/propagate-raises-after-the-orbit-was-re-expressed", dict(WR, exc=repr(exc)), f"{how}: {exc!r}")
            logA = None
        if logA:
            ctx.count("api:orbit-re-expressed-in-place")
            tsA, ysA = chain_nodes(split_chains(logA)[0])
            al = interpolation_allowance(st, y0, 0, tsA, ysA, us(t), method in rk_ref.ADAPTIVE)
            rtR, vtR, *_ = tb.propagate_uv(y0[:3], y0[3:], t, mu)
            dpR = norm(outR[:3] - rtR) if np.all(np.isfinite(outR)) else float("nan")
            if al is not None:
                # allowance of the first chain (same settings, same state up to the rounding of the re-expression: 1e-9 relative,
                # amplified along the arc like any initial-state error)
                extra = 1e-9 * norm(y0[:3]) * growth(o, t, mu)
                ctx.resid("api:orbit-re-expressed-in-place:pos", dpR, 4 * al[0] + extra + 1e-3, key="C06/trajectory-changes-when-the-orbit-is-re-expressed-in-place",
                          witness=dict(WR, result_in_EME2000=outR.tolist(), truth_r=rtR.tolist(), first_input_of_second_run=(logR[0]["y"].tolist() if logR else None)),
                          msg=f"{how}: after the orbit was re-expressed in place the result is {dpR!r} m from the two-body solution")

    # ---- pairwise: the state returned for that date does not depend on the request pattern ----------
    names = sorted(results)
    for a_i in range(len(names)):
        for b_i in range(a_i + 1, len(names)):
            na, nb = names[a_i], names[b_i]
            ra, rb = results[na], results[nb]
            xa, xb = probe.arr(ra), probe.arr(rb)
            dmjd_s = abs(ra.date._mjd - rb.date._mjd) * 86400.0
            # both must be dated the target instant (1 us = datetime resolution)
            dda = abs((ra.date - date0).total_seconds() - t)
            ddb = abs((rb.date - date0).total_seconds() - t)
            wpair = dict(W, a=na, b=nb, state_a=xa.tolist(), state_b=xb.tolist(), date_a=str(ra.date), date_b=str(rb.date), mjd_diff_s=dmjd_s)
            if not ctx.expect(dda <= 1.5e-6 and ddb <= 1.5e-6 and dmjd_s <= 2.5e-6, "C06/result-not-dated-at-the-target", wpair,
                              f"{na}: {ra.date}, {nb}: {rb.date}, target {target_date}"):
                continue
            vv = max(norm(xa[3:]), norm(xb[3:]))
            acc = st["mu"] / min(norm(xa[:3]), norm(xb[:3])) ** 2
            ctx.count("api:pairs-compared")
            if dmjd_s > 0:
                ctx.count("api:pairs-with-different-float-mjd")
            ok = bool(np.all(np.isfinite(xa)) and np.all(np.isfinite(xb)))
            dp = norm(xa[:3] - xb[:3]) if ok else float("nan")
            dv = norm(xa[3:] - xb[3:]) if ok else float("nan")
            # same nodes, same arithmetic: identical unless the float abscissa of the query differs (then |v| dt);
            # 1e-6 m covers summation-order effects (never observed: 0.0)
            ctx.resid("api:pairwise:pos", dp, 1e-6 + 2 * vv * dmjd_s, key="C06/state-depends-on-output-step-or-request-pattern", witness=wpair,
                      msg=f"{na} vs {nb}: states for the same date differ by {dp!r} m")
            ctx.resid("api:pairwise:vel", dv, 1e-9 + 2 * acc * dmjd_s, key="C06/state-depends-on-output-step-or-request-pattern", witness=wpair,
                      msg=f"{na} vs {nb}: states for the same date differ by {dv!r} m/s")
