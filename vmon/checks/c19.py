"""C19 -- mission-design helpers are consistent with the dynamics they target.

Monitors
  * lambert : the velocities returned by the real `lambert(orb0, orb1, prograde)` are propagated for the transfer
              time with the independent universal-variable two-body solver (vmon/oracles/kepler_uv.py) and must
              arrive at the target position; direction of motion from (r0 x v0).z; an invariant hook on the
              module functions `_F` / `_dF` counts the Newton iterations of every call and records the last
              Newton step, so that a miss is attributed to its mechanism (loop left before convergence).
  * sso     : three modes are mutual inverses; the first-order J2 secular node rate of the solution (own formula,
              Earth.mu / Earth.r / Earth.J2 read as data) equals the mean solar rate; the node drift actually
              produced by the real J2 propagator over 10..300 d equals it too.
  * bplane  : S along the incoming asymptote (own perifocal construction from the *generated* elements and a
              far-field velocity direction), (S,T,R) orthonormal, B perpendicular to S and h, |B| = |a| sqrt(e^2-1).
  * ltan    : ltan2raan / raan2ltan are inverses of each other, both ways, mean and true.
  * walker  : EXHAUSTIVE over all Star and Delta triples t <= 60, p | t, f < p: fleet size, plane spacing,
              in-plane spacing, inter-plane phasing.
  * beta    : finite, in [-90 deg, 90 deg], equals asin(h^ . s^).
"""

import math

import numpy as np

from .. import gen, probe
from ..oracles import elements as el
from ..oracles import kepler_uv as uv

TWO_PI = 2 * math.pi
DEG = math.pi / 180
AU = 149597870700.0

RULE = (
    "lambert: case = one geometry (r0, r1, transfer time) about Earth or Sun, either an arc of a generated "
    "elliptic orbit (e<=0.8, any inclination, < 1 rev) or free end points with dt = 1.02..8 x parabolic time; solved "
    "with prograde=True and False where the requested way is an elliptic < 1 rev transfer; non-trivial = transfer "
    "angle in [5,175]U[185,355] deg and plane not perpendicular to the equator. sso/bplane/ltan/beta: case = one "
    "generated input tuple; walker: case = one (type, t, p, f) triple; distinct = digest of the generated inputs."
)
EXHAUSTIVE = ["WalkerStar and WalkerDelta for all t <= 60, p | t, 0 <= f < p (2 x 3 014 triples), every satellite of every fleet"]
ASSUMPTIONS = [
    "vmon/oracles/kepler_uv.py (universal-variable two-body propagation) is the truth for 'two-body dynamics'",
    "body.mu of beyond.constants (Earth, Sun, Moon, Mars), Earth.r, Earth.J2 are data the property is relative to",
    "parabolic transfer time from Euler's equation (own code) classifies a requested transfer as elliptic",
    "mean solar rate = 2 pi / year, with the year either sidereal (365.256363004 d: mean Sun w.r.t. inertial "
    "space, where the J2 node rate is measured) or tropical (365.2421897 d: mean Sun w.r.t. the equinox of date); "
    "both are textbook definitions and differ by 3.9e-5 -- each accepted to 1e-9, nothing in between",
    "beta with ref='Sun'/'Moon': the body direction is taken from the library's own solarsystem propagators "
    "and frame conversion (C18 / C02 check those); with an Orbit as ref the direction is the harness' own",
    "J2-propagator drift: node read from the output state with vmon/oracles/elements.py",
]

# ------------------------------------------------------------------------------------------------
# Walker enumeration (both tiers)
WALKER = [(cls, t, p, f) for cls in ("Star", "Delta") for t in range(1, 61) for p in range(1, t + 1) if t % p == 0 for f in range(p)]

YEAR_SIDEREAL = 365.256363004
YEAR_TROPICAL = 365.2421897


def jobs(tier):
    q = tier == "quick"
    return [
        {"name": "lambert", "n": 3000 if q else 160000, "eop": "real", "kind": "lambert"},
        {"name": "sso", "n": 2400 if q else 100000, "eop": "real", "kind": "sso"},
        {"name": "bplane", "n": 6000 if q else 240000, "eop": "real", "kind": "bplane"},
        {"name": "ltan", "n": 4000 if q else 120000, "eop": "real", "kind": "ltan"},
        {"name": "beta", "n": 4000 if q else 120000, "eop": "real", "kind": "beta"},
        {"name": "walker", "n": len(WALKER), "eop": "real", "kind": "walker"},
    ]


def requirements(tier):
    q = tier == "quick"
    k = 1 if q else 30
    return {
        "lambert:solved": 3000 * k,
        "lambert:body:Earth": 1000 * k, "lambert:body:Sun": 1000 * k,
        "lambert:prograde": 1000 * k, "lambert:retrograde": 1000 * k,
        "lambert:short-way": 800 * k, "lambert:long-way": 800 * k,
        "lambert:class:orbit-arc": 1000 * k, "lambert:class:free-geometry": 500 * k,
        "lambert:target-in-another-frame": 300 * k,
        "lambert:hook:newton-iterations-recorded": 3000 * k,
        "sso:mode-i": 2000 * k, "sso:mode-a": 2000 * k, "sso:mode-e": 2000 * k,
        "sso:node-rate-evaluated": 6000 * k, "sso:j2-propagator-drift": 500 * k, "sso:frozen": 200 * k,
        "bplane:evaluated": 5000 * k, "bplane:state-with-history": 2000 * k, "bplane:pre-periapsis": 1500 * k, "bplane:post-periapsis": 1500 * k,
        "bplane:e<2": 500 * k, "bplane:e>5": 500 * k,
        "ltan:mean": 1500 * k, "ltan:true": 1500 * k,
        "beta:orbit-about-the-moon": 300 * k, "beta:ref:Sun": 800 * k, "beta:ref:Moon": 600 * k, "beta:ref:orbit": 800 * k, "beta:ref:on-normal": 100 * k,
        "walker:Star": len(WALKER) // 2, "walker:Delta": len(WALKER) // 2, "walker:satellites": 100000,
    }


# ------------------------------------------------------------------------------------------------
def setup(ctx, job):
    from beyond.frames.frames import Frame, EME2000
    from beyond.frames import orient
    from beyond.frames.center import Center

    st = {"probes": []}
    kind = job["kind"]
    if kind in ("lambert", "bplane"):
        frames = {}
        for name, body in gen.bodies().items():
            if name == "Earth":
                frames[name] = EME2000
            else:
                frames[name] = Frame(f"Vmon{name}Inertial", orient.EME2000, Center(f"Vmon{name}", body=body))
        st["frames"] = frames
    if kind == "lambert":
        from beyond.utils import lambert as L

        st["L"] = L
        rec = st["rec"] = {"F": None, "ratios": [], "z": []}

        # invariant hook: every Newton iteration evaluates _F then _dF at the same z (module globals, looked up late)
        def post_F(a, k, res):
            rec["F"] = float(res)

        def post_dF(a, k, res):
            rec["ratios"].append(rec["F"] / float(res) if rec["F"] is not None and float(res) != 0 else float("nan"))
            rec["z"].append(float(a[3]))

        st["probes"].append(probe.attach(L, "_F", post=post_F))
        st["probes"].append(probe.attach(L, "_dF", post=post_dF))
    return st


def finish(ctx, job, st):
    for p in st["probes"]:
        p.remove()


def run_case(ctx, job, idx, rng, st):
    return {"lambert": case_lambert, "sso": case_sso, "bplane": case_bplane, "ltan": case_ltan, "beta": case_beta,
            "walker": case_walker}[job["kind"]](ctx, job, idx, rng, st)


def _unit(rng):
    while True:
        v = np.array([rng.gauss(0, 1), rng.gauss(0, 1), rng.gauss(0, 1)])
        n = float(np.linalg.norm(v))
        if n > 1e-3:
            return v / n


def _date(rng, lo=(1990, 2017), scale="UTC"):
    """Instant inside the IERS tables of the sandbox, on the microsecond grid.  Cases that add a duration to a
    date use scale="TAI": the library documents that it does not handle leap seconds, so `UTC date + timedelta`
    across a leap second is 1 s longer in elapsed time than the timedelta (harness trap, not a finding)."""
    from beyond.dates import Date
    from datetime import datetime

    y0 = (datetime(lo[0], 1, 2) - datetime(1858, 11, 17)).days
    y1 = (datetime(lo[1], 1, 1) - datetime(1858, 11, 17)).days
    d = rng.randrange(y0, y1)
    s = round(rng.uniform(0, 86399.0) * 1e6) / 1e6
    return Date(d, s, scale=scale), d, s


# ================================================================================================
# Lambert
def parabolic_time(r0, r1, dtheta, mu):
    """Euler's equation: time of flight of the parabola through r0, r1 sweeping dtheta (own code)."""
    a, b = float(np.linalg.norm(r0)), float(np.linalg.norm(r1))
    c = float(np.linalg.norm(np.asarray(r1) - np.asarray(r0)))
    s1, s2 = (a + b + c) ** 1.5, max(a + b - c, 0.0) ** 1.5
    return (s1 - s2 if dtheta < math.pi else s1 + s2) / (6 * math.sqrt(mu))


def swept_angle(r0, r1, prograde):
    """Transfer angle of the requested way: prograde = counter-clockwise seen from +z."""
    c = np.cross(r0, r1)
    ang = math.atan2(float(np.linalg.norm(c)), float(np.dot(r0, r1)))
    if (c[2] < 0) == prograde:
        ang = TWO_PI - ang
    return ang


def _angle_ok(ang):
    return 5 * DEG <= ang <= 355 * DEG and abs(ang - math.pi) >= 5 * DEG


def case_lambert(ctx, job, idx, rng, st):
    from beyond.orbits import Orbit
    from beyond.propagators.kepler import Kepler
    from beyond.dates import timedelta

    L = st["L"]
    body = "Earth" if idx % 2 == 0 else "Sun"
    frame = st["frames"][body]
    mu = float(gen.bodies()[body].mu)
    rscale = 6.8e6 if body == "Earth" else 0.4 * AU
    cls = "free-geometry" if idx % 3 == 2 else "orbit-arc"

    for _try in range(200):
        if cls == "orbit-arc":
            e = rng.uniform(0.0, 0.8)
            a = rscale * 10 ** rng.uniform(0, 0.5) / (1 - e)  # pericentre above the surface / >= 0.4 AU
            inc = rng.uniform(0.05, math.pi - 0.05)
            if abs(math.cos(inc)) < 0.05:
                continue
            r0, v0 = el.kep2cart(a, e, inc, rng.uniform(0, TWO_PI), rng.uniform(0, TWO_PI), rng.uniform(0, TWO_PI), mu)
            T = TWO_PI * math.sqrt(a ** 3 / mu)
            dt_true = round(T * rng.uniform(0.02, 0.97), 6)
            r1, _ = uv.propagate(r0, v0, dt_true, mu, reduce_period=False)
            dts = {True: dt_true, False: dt_true}
            true_dir = inc < math.pi / 2
        else:
            r0 = _unit(rng) * rscale * 10 ** rng.uniform(0, 0.8)
            r1 = _unit(rng) * rscale * 10 ** rng.uniform(0, 0.8)
            c = np.cross(r0, r1)
            if abs(c[2]) < 0.05 * float(np.linalg.norm(c)):
                continue
            dts = {}
            for flag in (True, False):
                ang = swept_angle(r0, r1, flag)
                dts[flag] = round(parabolic_time(r0, r1, ang, mu) * 10 ** rng.uniform(0.01, 0.9), 6)
            true_dir = None
        if _angle_ok(swept_angle(r0, r1, True)):
            break
    else:  # pragma: no cover
        raise RuntimeError("no admissible Lambert geometry generated")

    date0, d, s = _date(rng, (2000, 2016), "TAI")
    descr = {"body": body, "class": cls, "r0": [float(x) for x in r0], "r1": [float(x) for x in r1], "dt": dts, "mjd": [d, s]}
    ctx.case(descr)
    ctx.count("lambert:class:" + cls)
    nr0, nr1 = float(np.linalg.norm(r0)), float(np.linalg.norm(r1))

    for flag in (True, False):
        dt = dts[flag]
        ang = swept_angle(r0, r1, flag)
        tp = parabolic_time(r0, r1, ang, mu)
        if dt < 1.02 * tp:
            ctx.count("lambert:skipped-way-not-elliptic")
            continue  # the requested way would be parabolic / hyperbolic: outside the quantifier
        ratio = dt / tp
        # random placeholders for the velocities: the solver must not depend on them
        va = _unit(rng) * math.sqrt(mu / nr0)
        vb = _unit(rng) * math.sqrt(mu / nr1)
        orb0 = Orbit(np.concatenate([r0, va]), date0, "cartesian", frame, Kepler())
        date1 = date0 + timedelta(seconds=dt)
        orb1 = Orbit(np.concatenate([r1, vb]), date1, "cartesian", frame, Kepler())
        rec = st["rec"]
        rec["ratios"].clear()
        rec["z"].clear()
        rec["F"] = None
        w = dict(body=body, mu=mu, r0=[float(x) for x in r0], r1=[float(x) for x in r1], dt=dt, prograde=flag,
                 transfer_angle_deg=ang / DEG, dt_over_parabolic=ratio, date0=[d, s], cls=cls)
        # round-7 seed: the target may be handed over in another frame than the departure (the departure frame is the
        # computation frame); same physical point, expressed there by the library's own frame change (C02's subject)
        other = None
        if body == "Earth" and idx % 4 == 0:
            other = ("TEME", "ITRF", "MOD", "G50", "PEF")[(idx // 4 + (1 if flag else 0)) % 5]
            if other != getattr(frame, "name", str(frame)):
                orb1 = orb1.copy(frame=other)
                ctx.count("lambert:target-in-another-frame")
                ctx.count("lambert:target-frame:" + other)
                w["target_frame"] = other
            else:
                other = None
        try:
            s0, s1 = L.lambert(orb0, orb1, prograde=flag)
        except Exception as exc:
            ctx.violation("C19/lambert-raises", dict(w, exc=repr(exc)), f"lambert raised {exc!r}")
            continue
        ctx.count("lambert:solved")
        ctx.count("lambert:body:" + body)
        ctx.count("lambert:prograde" if flag else "lambert:retrograde")
        ctx.count("lambert:short-way" if ang < math.pi else "lambert:long-way")
        a0, a1 = probe.arr(s0), probe.arr(s1)
        n_newton = len(rec["ratios"])
        last = rec["ratios"][-1] if rec["ratios"] else float("nan")
        if n_newton:
            ctx.count("lambert:hook:newton-iterations-recorded")
            ctx.count("lambert:newton-iterations", n_newton)
            ctx.count("lambert:newton=1" if n_newton == 1 else "lambert:newton>1")
        w.update(v0=a0[3:].tolist(), v1=a1[3:].tolist(), newton_iterations=n_newton, last_newton_step=last, z_iterates=rec["z"][-3:])

        # end points untouched, dates and frame kept
        if other is not None:
            f0, f1 = getattr(s0.frame, "name", str(s0.frame)), getattr(s1.frame, "name", str(s1.frame))
            ctx.expect(f0 == f1 == getattr(frame, "name", str(frame)), "C19/lambert-result-not-in-departure-frame", dict(w, frames=[f0, f1]),
                       f"target handed over in {other}: results are labelled {f0} / {f1}, the departure frame is the computation frame")
            ctx.resid("lambert:end points kept, target from another frame (rel)",
                      max(float(np.linalg.norm(a0[:3] - r0)) / nr0, float(np.linalg.norm(a1[:3] - r1)) / nr1), 1e-11,
                      key="C19/lambert-target-frame-ignored", witness=w,
                      msg=f"target handed over in {other}: the returned arrival state is not the same point expressed in the departure frame")
        else:
            ctx.resid("lambert:end points kept (rel)", max(float(np.linalg.norm(a0[:3] - r0)) / nr0, float(np.linalg.norm(a1[:3] - r1)) / nr1), 1e-13,
                      key="C19/lambert-end-points-moved", witness=w, msg="returned orbits do not keep the requested positions")
        vv0 = a0[3:]
        if not np.all(np.isfinite(vv0)) or not np.all(np.isfinite(a1[3:])):
            ctx.violation("C19/lambert-non-finite-velocity", w, f"lambert returned non-finite velocities {vv0.tolist()}")
            continue

        # arrival (the deciding oracle)
        rr, vv = uv.propagate(r0, vv0, dt, mu, reduce_period=False)
        miss = float(np.linalg.norm(rr - r1))
        well = body == "Earth" or (ratio <= 3.0 and (20 * DEG <= ang <= 160 * DEG or 200 * DEG <= ang <= 330 * DEG))
        # "within metres" = 10 m.  Noise floor of a *converged* solver (Newton exit condition repaired in a scratch
        # copy, 305 000 transfers): Earth-scale <= 1.4e-3 m; Sun-scale, well-conditioned class <= 0.07 m; Sun-scale
        # otherwise (dt > 3 x parabolic time, or way within 20 deg of 0/180/360 deg) <= 1.1e-11 (r0+r1) from the
        # cancellation in y(z) = r0 + r1 + A (zS-1)/sqrt(C): there ~200 x floor = 2e-9 (r0+r1) is added
        # (the unrepaired loop misses by 1e-6..1e-2 (r0+r1)).
        tol = 10.0 if well else 10.0 + 2e-9 * (nr0 + nr1)
        unconverged = n_newton >= 1 and not (abs(last) <= 1e-8)
        if unconverged and n_newton == 1:
            key = "C19/lambert-newton-loop-exits-after-first-iteration"
        elif unconverged:
            key = "C19/lambert-newton-loop-exits-unconverged"
        else:
            key = "C19/lambert-arrival-miss"
        name = f"lambert:arrival miss (m) [{body}{'' if well else ', ill-conditioned'}]"
        ctx.resid(name, miss, tol, key=key, witness=dict(w, arrival=[float(x) for x in rr], miss_m=miss),
                  msg=f"{body} {cls} prograde={flag} angle={ang / DEG:.2f} deg dt={dt} s: propagated arrival misses r1 by {miss:.6g} m "
                      f"(Newton iterations {n_newton}, last step {last:.3g})")
        # direction of motion
        hz = float(np.cross(r0, vv0)[2])
        ctx.expect((hz > 0) == flag and hz != 0, "C19/lambert-direction-of-motion", dict(w, hz=hz),
                   f"prograde={flag} but (r0 x v0).z = {hz}")
        # elliptic, less than one revolution (class confirmation of the generated case; recorded)
        energy = float(vv0 @ vv0) / 2 - mu / nr0
        if energy < 0:
            a_t = -mu / (2 * energy)
            ctx.count("lambert:solution-elliptic")
            if dt < TWO_PI * math.sqrt(a_t ** 3 / mu):
                ctx.count("lambert:solution<1rev")
        # information: arrival velocity reported by the solver vs propagated one (not promised by the statement)
        ctx.resid("info:lambert:v1 vs propagated (rel)", float(np.linalg.norm(vv - a1[3:])) / float(np.linalg.norm(vv)), 1e-6)
        if cls == "orbit-arc" and flag == true_dir and miss <= tol:
            # < 1 rev and given way => unique: must be the generating orbit
            ctx.resid("info:lambert:v0 vs generating orbit (rel)", float(np.linalg.norm(vv0 - v0)) / float(np.linalg.norm(v0)), 1e-6)


# ================================================================================================
# SSO
def node_rate(a, e, i):
    """First-order secular J2 node rate (Vallado 9-37), constants read as data."""
    from beyond.constants import Earth

    mu, re, j2 = float(Earth.mu), float(Earth.r), float(Earth.J2)
    n = math.sqrt(mu / a ** 3)
    p = a * (1 - e * e)
    return -1.5 * n * j2 * (re / p) ** 2 * math.cos(i)


def check_rate(ctx, rate, w, what):
    """rate must be the mean solar rate (see ASSUMPTIONS for the two accepted years)."""
    ctx.count("sso:node-rate-evaluated")
    rs = rate / (TWO_PI / (YEAR_SIDEREAL * 86400.0)) - 1.0
    rt = rate / (TWO_PI / (YEAR_TROPICAL * 86400.0)) - 1.0
    if abs(rs) <= abs(rt):
        ctx.count("sso:year:sidereal")
        name, val = "sso:node rate / (2pi/sidereal year) - 1", abs(rs)
    else:
        ctx.count("sso:year:tropical")
        name, val = "sso:node rate / (2pi/tropical year) - 1", abs(rt)
    return val, name


def case_sso(ctx, job, idx, rng, st):
    from beyond.utils import leo
    from beyond.constants import Earth

    # (a, e) with a sun-synchronous solution: cos i = -(2/3) w a^3.5 (1-e^2)^2 / (sqrt(mu) R^2 J2) in [-0.98, 0)
    w_sun = TWO_PI / (YEAR_SIDEREAL * 86400.0)
    cst = math.sqrt(float(Earth.mu)) * float(Earth.r) ** 2 * float(Earth.J2)
    for _ in range(100):
        a = rng.uniform(6.5e6, 1.23e7)
        e = 10 ** rng.uniform(-3, math.log10(0.2))
        cosi = -2.0 / 3.0 * w_sun * a ** 3.5 * (1 - e * e) ** 2 / cst
        if -0.98 <= cosi < 0:
            break
    descr = {"a": a, "e": e}
    ctx.case(descr)
    w = dict(descr)

    def call(**kw):
        try:
            v = float(leo.sso(**kw))
        except Exception as exc:
            ctx.violation("C19/sso-raises", dict(w, args=kw, exc=repr(exc)), f"sso({kw}) raised {exc!r}")
            return None
        if not math.isfinite(v):
            ctx.violation("C19/sso-non-finite", dict(w, args=kw), f"sso({kw}) = {v}")
            return None
        return v

    def rate_ok(a_, e_, i_, mode):
        val, name = check_rate(ctx, node_rate(a_, e_, i_), w, mode)
        # conditioning: rate is a smooth function of the solved element; floor measured 4e-16 => 1e-9 >> 100 x
        ctx.resid(name, val, 1e-9, key="C19/sso-node-rate-not-mean-solar", witness=dict(w, mode=mode, a=a_, e=e_, i=i_, node_rate=node_rate(a_, e_, i_)),
                  msg=f"sso mode {mode}: J2 node rate of (a={a_}, e={e_}, i={i_}) = {node_rate(a_, e_, i_)!r} rad/s is not 2pi/year")

    # mode i
    i = call(a=a, e=e)
    if i is None:
        return
    ctx.count("sso:mode-i")
    rate_ok(a, e, i, "i(a,e)")
    # mode a, fed with the solution: must give back a
    a2 = call(e=e, i=i)
    if a2 is not None:
        ctx.count("sso:mode-a")
        ctx.resid("sso:a(e, i(a,e)) - a (rel)", abs(a2 - a) / a, 1e-9, key="C19/sso-not-self-inverse-mode-a", witness=dict(w, i=i, a_back=a2),
                  msg=f"sso(e, i=sso(a,e)) = {a2!r} != a = {a!r}")
        rate_ok(a2, e, i, "a(e,i)")
    # mode e
    e2 = call(a=a, i=i)
    if e2 is not None:
        ctx.count("sso:mode-e")
        # e = sqrt(1 - sqrt(X)): de = eps k / (4 e); k ~ 10 => 5e-16/e; x1000 => 5e-13/e <= 5e-10 for e >= 1e-3
        ctx.resid("sso:e(a, i(a,e)) - e", abs(e2 - e), 1e-9, key="C19/sso-not-self-inverse-mode-e", witness=dict(w, i=i, e_back=e2),
                  msg=f"sso(a, i=sso(a,e)) = {e2!r} != e = {e!r}")
        rate_ok(a, e2, i, "e(a,i)")
    # independent start in the other two modes: (e, i) -> a -> i ; (a, i) -> e -> i
    i_r = math.acos(rng.uniform(-0.95, -0.02))
    a3 = call(e=e, i=i_r)
    if a3 is not None:
        rate_ok(a3, e, i_r, "a(e,i)")
        i3 = call(a=a3, e=e)
        if i3 is not None:
            ctx.resid("sso:i(a(e,i), e) - i", abs(i3 - i_r), 1e-9 / math.sin(i_r), key="C19/sso-not-self-inverse-mode-i", witness=dict(w, i=i_r, a=a3, i_back=i3),
                      msg=f"sso(a=sso(e,i), e) = {i3!r} != i = {i_r!r}")

    # dynamics: the real J2 propagator must drift the node at that rate
    if idx % 3 == 0:
        sso_j2_drift(ctx, rng, a, e, i, w)
    if idx % 8 == 0:
        try:
            ef, i_f, wf = (float(x) for x in leo.sso_frozen(a))
            ctx.count("sso:frozen")
            rate_ok(a, ef, i_f, "sso_frozen")
            ctx.resid("sso:frozen e vs frozen(a,i)", abs(ef - float(leo.frozen(a, i_f)[0])), 1e-11, key="C19/sso-frozen-inconsistent",
                      witness=dict(w, e=ef, i=i_f), msg="sso_frozen(a): e is not frozen(a, i)")
        except Exception as exc:
            ctx.violation("C19/sso-frozen-raises", dict(w, exc=repr(exc)), f"sso_frozen({a}) raised {exc!r}")


def sso_j2_drift(ctx, rng, a, e, i, w):
    from beyond.orbits import Orbit
    from beyond.propagators.j2 import J2
    from beyond.dates import timedelta

    date, d, s = _date(rng, (2000, 2016), "TAI")
    raan, argp, M = rng.uniform(0, TWO_PI), rng.uniform(0, TWO_PI), rng.uniform(0, TWO_PI)
    days = rng.uniform(10, 300)
    dt = round(days * 86400.0, 3)
    try:
        orb = Orbit([a, e, i, raan, argp, M], date, "keplerian_mean", "EME2000", J2())
        out = orb.propagate(date + timedelta(seconds=dt))
        o = probe.arr(out.copy(form="cartesian"))
    except Exception as exc:
        ctx.violation("C19/sso-j2-propagator-raises", dict(w, exc=repr(exc)), f"J2 propagation raised {exc!r}")
        return
    from beyond.constants import Earth

    c = el.classical(o[:3], o[3:], float(Earth.mu))
    drift = (c["raan"] - raan) % TWO_PI  # < 2 pi for dt < 1 year, node moves eastward
    rate = drift / dt
    val, name = check_rate(ctx, rate, w, "J2-propagator")
    ctx.count("sso:j2-propagator-drift")
    # node angle recovered from cartesian to ~1e-12 rad; drift >= 0.17 rad => 1e-11 relative; 1e-8 covers 1000 x
    ctx.resid("sso:J2 propagator node drift vs mean solar rate (rel)", val, 1e-8, key="C19/sso-j2-propagator-drift-not-mean-solar",
              witness=dict(w, i=i, raan=raan, argp=argp, M=M, dt=dt, raan_out=c["raan"]),
              msg=f"J2 propagator moved the node of the sso orbit by {drift!r} rad in {dt} s = {rate!r} rad/s")


# ================================================================================================
# B-plane
def case_bplane(ctx, job, idx, rng, st):
    from beyond.orbits import StateVector
    from beyond.utils.interplanetary import bplane
    from beyond.dates import Date

    body = ["Earth", "Mars", "Sun", "Moon"][idx % 4]
    B = gen.bodies()[body]
    mu = float(B.mu)
    frame = st["frames"][body]
    for _ in range(100):
        e = 1.05 * (10 / 1.05) ** rng.random()  # log-uniform on [1.05, 10]
        rp = float(B.equatorial_radius) * 10 ** rng.uniform(0.01, 1.7)
        a = -rp / (e - 1)
        inc, raan, argp = rng.uniform(0.01, math.pi - 0.01), rng.uniform(0, TWO_PI), rng.uniform(0, TWO_PI)
        nu_inf = math.acos(-1 / e)
        nu = nu_inf * rng.uniform(-0.985, 0.985)
        # own incoming asymptote: perifocal (1/e, sqrt(e^2-1)/e, 0) rotated with the generated angles
        P, _ = el.kep2cart(1.0, 0.0, inc, raan, argp, 0.0, 1.0)  # unit vector to periapsis
        hhat = np.array([math.sin(inc) * math.sin(raan), -math.sin(inc) * math.cos(raan), math.cos(inc)])
        Q = np.cross(hhat, P)
        S_ref = P / e + Q * math.sqrt(e * e - 1) / e
        if abs(S_ref[2]) < 0.999:
            break
    r, v = el.kep2cart(a, e, inc, raan, argp, nu, mu)
    form = ["cartesian", "keplerian", "keplerian_mean", "spherical"][(idx // 4) % 4]
    descr = {"body": body, "a": a, "e": e, "i": inc, "raan": raan, "argp": argp, "nu": nu, "form": form}
    ctx.case(descr)
    ctx.count("bplane:evaluated")
    ctx.count("bplane:pre-periapsis" if nu < 0 else "bplane:post-periapsis")
    ctx.count("bplane:e<2" if e < 2 else ("bplane:e>5" if e > 5 else "bplane:e2-5"))
    w = dict(descr, r=[float(x) for x in r], v=[float(x) for x in v], mu=mu)
    try:
        if idx % 2 == 0:
            sv = StateVector(np.concatenate([r, v]), Date(2020, 1, 1), "cartesian", frame)
        else:
            # an object with a history: the approach state before a trajectory correction, whose derived quantities were
            # consulted (v_inf, periapsis), corrected on a copy or in place to the state of this case
            r_d, v_d = el.kep2cart(a * rng.uniform(0.5, 2.0), 1.05 + (e - 1.0) * rng.uniform(0.3, 3.0), inc, raan, argp, nu * rng.uniform(0.2, 1.0), mu)
            decoy = StateVector(np.concatenate([r_d, v_d]), Date(2020, 1, 1), "cartesian", frame)
            _ = (decoy.infos.vinf, decoy.infos.kep.a, decoy.infos.rp)
            sv = decoy.copy() if rng.random() < 0.5 else decoy
            sv[:] = np.concatenate([r, v])
            ctx.count("bplane:state-with-history")
            w["history"] = "infos consulted on an earlier state, then the coordinates replaced (copy or in place)"
        if form != "cartesian":
            sv = sv.copy(form=form)
        bp = bplane(sv)
        Bv, S, T, R = (np.asarray(x, float) for x in (bp.B, bp.S, bp.T, bp.R))
    except Exception as exc:
        ctx.violation("C19/bplane-raises", dict(w, exc=repr(exc)), f"bplane raised {exc!r}")
        return
    if not all(np.all(np.isfinite(x)) for x in (Bv, S, T, R)):
        ctx.violation("C19/bplane-non-finite", dict(w, B=Bv.tolist(), S=S.tolist()), "bplane returned non-finite vectors")
        return
    w.update(B=Bv.tolist(), S=S.tolist(), T=T.tolist(), R=R.tolist())
    # conditioning: the library rebuilds e-vector and h from (r, v); far from periapsis e = (v^2 r - (r.v) v)/mu - r^
    # cancels by ~ r/rp, and the keplerian forms add ~1/(e-1): floor ~ 1e-16 (r/rp) (1 + 1/(e-1)); measured worst
    # over 240 000 states = 1.5 % of (1e-12 cond + 1e-11); coefficients below give >= 200 x the measured floor
    rn = float(np.linalg.norm(r))
    cond = (rn / rp) * (1 + 1 / (e - 1))
    tol = 3e-12 * max(cond, 1.0) + 3e-11
    # S along the incoming asymptote
    ctx.resid("bplane:|S - incoming asymptote| / cond", float(np.linalg.norm(S - S_ref)), tol * 10, key="C19/bplane-S-not-incoming-asymptote",
              witness=dict(w, S_expected=S_ref.tolist()), msg=f"S = {S.tolist()} but the incoming asymptote is {S_ref.tolist()}")
    # far-field cross-check of the oracle itself and of S: velocity direction long before periapsis
    _, v_far = el.kep2cart(a, e, inc, raan, argp, -nu_inf * (1 - 1e-7), mu)
    ctx.resid("bplane:S vs far-field incoming velocity (rad)", float(np.linalg.norm(S - v_far / np.linalg.norm(v_far))), 1e-4,
              key="C19/bplane-S-not-incoming-asymptote", witness=dict(w, v_far=v_far.tolist()),
              msg="S is not the direction of the velocity long before periapsis")
    # (S, T, R) orthonormal
    G = np.array([[float(x @ y) for y in (S, T, R)] for x in (S, T, R)])
    ctx.resid("bplane:(S,T,R) Gram - I", float(np.max(np.abs(G - np.eye(3)))), 1e-12, key="C19/bplane-STR-not-orthonormal", witness=w,
              msg=f"Gram matrix of (S,T,R) = {G.tolist()}")
    # B perpendicular to S and to h, |B| = impact parameter
    b = abs(a) * math.sqrt(e * e - 1)
    Bn = float(np.linalg.norm(Bv))
    h = np.cross(r, v)
    hh = h / np.linalg.norm(h)
    ctx.resid("bplane:B.S / |B|", abs(float(Bv @ S)) / Bn, tol, key="C19/bplane-B-not-perpendicular-to-S", witness=w, msg="B is not perpendicular to S")
    ctx.resid("bplane:B.h / |B|", abs(float(Bv @ hh)) / Bn, tol, key="C19/bplane-B-not-perpendicular-to-h", witness=w,
              msg="B is not perpendicular to the angular momentum")
    ctx.resid("bplane:|B| / impact parameter - 1", abs(Bn / b - 1), tol * 10 + 1e-9, key="C19/bplane-B-length-not-impact-parameter",
              witness=dict(w, impact_parameter=b, B_norm=Bn), msg=f"|B| = {Bn!r}, impact parameter |a| sqrt(e^2-1) = {b!r}")
    # recorded, not judged (the statement does not fix the sense of B): B x S along +h
    ctx.count("bplane:BxS-along-h" if float(np.cross(Bv, S) @ hh) > 0 else "bplane:BxS-against-h")


# ================================================================================================
# LTAN
def case_ltan(ctx, job, idx, rng, st):
    from beyond.utils import ltan as LT

    typ = "mean" if idx % 2 == 0 else "true"
    date, d, s = _date(rng, (1990, 2017))
    edge = idx % 50
    raan = {0: 0.0, 1: TWO_PI - 1e-12, 2: math.pi}.get(edge, rng.uniform(0, TWO_PI))
    lt = {3: 0.0, 4: 43200.0, 5: 86399.999999}.get(edge, rng.uniform(0, 86400.0))
    descr = {"mjd": [d, s], "type": typ, "raan": raan, "ltan": lt}
    ctx.case(descr)
    ctx.count("ltan:" + typ)
    w = dict(descr)
    try:
        l1 = float(LT.raan2ltan(date, raan, typ))
        r1 = float(LT.ltan2raan(date, l1, typ))
        r2 = float(LT.ltan2raan(date, lt, typ))
        l2 = float(LT.raan2ltan(date, r2, typ))
    except Exception as exc:
        ctx.violation("C19/ltan-raises", dict(w, exc=repr(exc)), f"ltan/raan conversion raised {exc!r}")
        return
    w.update(ltan_of_raan=l1, raan_back=r1, raan_of_ltan=r2, ltan_back=l2)
    ctx.expect(0 <= l1 < 86400.0 and 0 <= l2 < 86400.0 and 0 <= r1 < TWO_PI + 1e-15 and 0 <= r2 < TWO_PI + 1e-15,
               "C19/ltan-raan-out-of-range", w, f"ltan {l1}, {l2} / raan {r1}, {r2} outside [0, 86400) / [0, 2pi)")
    # floor: a dozen float operations on numbers <= 4 pi / 86400 s: 1e-15 rad, 1e-11 s; tolerances x 1e5
    ctx.resid(f"ltan:ltan2raan(raan2ltan(raan)) - raan (rad) [{typ}]", el.angdiff(r1, raan), 1e-10, key=f"C19/ltan2raan-not-inverse-of-raan2ltan-{typ}",
              witness=w, msg=f"{typ}: ltan2raan(raan2ltan({raan!r})) = {r1!r}")
    dl = abs(l2 - lt) % 86400.0
    dl = min(dl, 86400.0 - dl)
    ctx.resid(f"ltan:raan2ltan(ltan2raan(ltan)) - ltan (s) [{typ}]", dl, 1e-6, key=f"C19/raan2ltan-not-inverse-of-ltan2raan-{typ}",
              witness=w, msg=f"{typ}: raan2ltan(ltan2raan({lt!r})) = {l2!r}")
    # orb2ltan(orbit): the LTAN of an orbit is that of its node in EME2000, in whichever form / frame the orbit is given
    if idx % 4 == 0:
        from beyond.orbits import StateVector

        mu_e = float(gen.bodies()["Earth"].mu)
        inc_o = rng.uniform(0.3, 2.8)
        r_o, v_o = el.kep2cart(rng.uniform(6.8e6, 9e6), rng.uniform(1e-3, 0.05), inc_o, raan, rng.uniform(0, TWO_PI), rng.uniform(0, TWO_PI), mu_e)
        try:
            sv = StateVector(np.concatenate([r_o, v_o]), date, "cartesian", "EME2000")
            given = sv.copy(form=rng.choice(["cartesian", "keplerian", "spherical"]), frame=rng.choice(["EME2000", "MOD", "TEME", "ITRF"]))
            lo = float(LT.orb2ltan(given, typ))
            dl_o = abs(lo - l1) % 86400.0
            ctx.count("ltan:orb2ltan")
            ctx.resid(f"ltan:orb2ltan - raan2ltan (s) [{typ}]", min(dl_o, 86400.0 - dl_o), 1e-5, key=f"C19/orb2ltan-differs-from-raan2ltan-{typ}",
                      witness=dict(w, orbit_form=given.form.name, orbit_frame=str(given.frame), orb2ltan=lo, raan2ltan=l1),
                      msg=f"{typ}: orb2ltan of an orbit whose node is at {raan!r} in EME2000 gives {lo!r} s, raan2ltan {l1!r} s")
        except Exception as exc:
            ctx.violation("C19/ltan-raises", dict(w, exc=repr(exc), call="orb2ltan"), f"orb2ltan raised {exc!r}")
    # information only: mean and true differ by the equation of time (|EoT| < 16.5 min) -- not in the statement
    try:
        lm = float(LT.raan2ltan(date, raan, "mean"))
        ltr = float(LT.raan2ltan(date, raan, "true"))
        de = abs(lm - ltr) % 86400.0
        ctx.resid("info:ltan:|mean - true| (s)", min(de, 86400.0 - de), 1100.0)
    except Exception:
        pass


# ================================================================================================
# Walker
def case_walker(ctx, job, idx, rng, st):
    from beyond.utils import constellation as C

    cls, t, p, f = WALKER[idx]
    raan0 = 0.0 if idx % 3 == 0 else rng.uniform(0, TWO_PI)
    descr = {"type": cls, "t": t, "p": p, "f": f, "raan0": raan0}
    ctx.case(descr, nontrivial=t > 1)
    ctx.count("walker:" + cls)
    s = t // p
    w = dict(descr)
    try:
        klass = C.WalkerStar if cls == "Star" else C.WalkerDelta
        W = klass(t, p, f, raan0) if raan0 else klass(t, p, f)
        fleet = [(float(ra), float(nu)) for ra, nu in W.iter_fleet()]
    except Exception as exc:
        ctx.violation("C19/walker-raises", dict(w, exc=repr(exc)), f"Walker{cls}({t},{p},{f}) raised {exc!r}")
        return
    ctx.count("walker:satellites", len(fleet))
    if not ctx.expect(len(fleet) == t, "C19/walker-fleet-size", dict(w, got=len(fleet)), f"Walker{cls} {t}/{p}/{f}: {len(fleet)} satellites"):
        return
    span = math.pi if cls == "Star" else TWO_PI
    tol = 1e-12
    worst = {"plane": 0.0, "inplane": 0.0, "phasing": 0.0}
    for k in range(p):
        for j in range(s):
            ra, nu = fleet[k * s + j]
            # plane k: raan0 + k span / p (same value for every satellite of the plane)
            worst["plane"] = max(worst["plane"], abs(ra - (raan0 + k * span / p)))
            if j + 1 < s:
                worst["inplane"] = max(worst["inplane"], el.angdiff(fleet[k * s + j + 1][1] - nu, TWO_PI / s))
            if k + 1 < p:
                worst["phasing"] = max(worst["phasing"], el.angdiff(fleet[(k + 1) * s + j][1] - nu, f * TWO_PI / t))
    # last satellite of a plane back to the first: 2 pi / s as well (evenly spaced around the orbit)
    for k in range(p):
        worst["inplane"] = max(worst["inplane"], el.angdiff(fleet[k * s][1] + TWO_PI - fleet[k * s + s - 1][1], TWO_PI / s))
    ctx.resid(f"walker:plane spacing [{cls}] (rad)", worst["plane"], tol * 10, key=f"C19/walker-plane-spacing-{cls}", witness=dict(w, fleet=fleet[:12]),
              msg=f"Walker{cls} {t}/{p}/{f}: planes are not spaced by {'pi' if cls == 'Star' else '2pi'}/p")
    ctx.resid("walker:in-plane spacing (rad)", worst["inplane"], tol * 10, key=f"C19/walker-in-plane-spacing-{cls}", witness=dict(w, fleet=fleet[:12]),
              msg=f"Walker{cls} {t}/{p}/{f}: satellites of a plane are not spaced by 2pi/{s}")
    ctx.resid("walker:inter-plane phasing (rad)", worst["phasing"], tol * 10, key=f"C19/walker-phasing-{cls}", witness=dict(w, fleet=fleet[:12]),
              msg=f"Walker{cls} {t}/{p}/{f}: phasing between adjacent planes is not f 2pi/t")


# ================================================================================================
# beta
def case_beta(ctx, job, idx, rng, st):
    from beyond.orbits import Orbit
    from beyond.propagators.kepler import Kepler
    from beyond.utils.beta import beta
    from beyond.env.solarsystem import get_body
    from beyond.constants import Earth

    mu = float(Earth.mu)
    frame = ["EME2000", "MOD", "TOD", "TEME"][idx % 4]
    kind = ["Sun", "Moon", "orbit", "Sun", "Moon", "orbit", "orbit-later", "Sun", "Moon", "on-normal"][(idx // 4) % 10]
    date, d, s = _date(rng, (2000, 2017), "TAI")
    lunar = idx % 7 == 6
    if lunar:
        # an orbiter of another body, in the frame centred on that body (the documented use: "the obscuring body")
        from beyond.env import solarsystem

        frame = solarsystem.get_frame("Moon")
        kind = "Sun"
        mu = float(gen.bodies()["Moon"].mu)
        ctx.count("beta:orbit-about-the-moon")
    c = gen.orbit_case(rng, body_name="Moon" if lunar else "Earth", ecc_class=rng.choice(["near-circular", "moderate", "high", "hyp-low"]),
                       rp_range=(1.9e6, 2e7) if lunar else (6.6e6, 6e7))
    r, v = np.array(c["r"]), np.array(c["v"])
    form = rng.choice(["cartesian", "keplerian", "keplerian_mean", "equinoctial"]) if c["e"] < 1 else "cartesian"
    descr = {"frame": str(frame), "ref": kind, "mjd": [d, s], "r": c["r"], "v": c["v"], "form": form}
    ctx.case(descr)
    w = dict(descr)
    hh = np.cross(r, v)
    hh = hh / np.linalg.norm(hh)
    try:
        orb = Orbit(np.concatenate([r, v]), date, "cartesian", frame, Kepler())
        if form != "cartesian":
            orb = orb.copy(form=form)
        if kind in ("Sun", "Moon"):
            ctx.count("beta:ref:" + kind)
            ref = kind
            spos = probe.arr(get_body(kind).propagate(date).copy(frame=frame))[:3]
        else:
            from beyond.dates import timedelta

            if kind == "on-normal":
                ctx.count("beta:ref:on-normal")
                sgn = rng.choice([1.0, -1.0])
                p2 = sgn * hh * rng.uniform(2e7, 4e8)
                t2 = np.cross(hh, r)
                # not circular: exactly circular orbits are outside the domain of the element forms (trap)
                v2 = t2 / np.linalg.norm(t2) * math.sqrt(mu / float(np.linalg.norm(p2))) * rng.choice([0.8, 0.9, 1.1, 1.2])
                dt = 0.0
            else:
                ctx.count("beta:ref:orbit")
                p2 = _unit(rng) * rng.uniform(7e6, 4e8)
                t2 = np.cross(_unit(rng), p2)
                v2 = t2 / np.linalg.norm(t2) * math.sqrt(mu / float(np.linalg.norm(p2))) * rng.choice([rng.uniform(0.7, 0.97), rng.uniform(1.03, 1.2)])
                dt = round(rng.uniform(-86400, 86400), 3) if kind == "orbit-later" else 0.0
            ref = Orbit(np.concatenate([p2, v2]), date - timedelta(seconds=dt), "cartesian", frame, Kepler())
            spos = p2 if dt == 0.0 else uv.propagate(p2, v2, dt, mu)[0]
        w.update(body_position=[float(x) for x in spos])
        b = float(beta(orb, ref))
    except Exception as exc:
        ctx.violation("C19/beta-raises", dict(w, exc=repr(exc)), f"beta raised {exc!r}")
        return
    sinb = float(hh @ spos) / float(np.linalg.norm(spos))
    sinb = max(-1.0, min(1.0, sinb))
    exp = math.asin(sinb)
    w.update(beta=b, expected=exp)
    if not math.isfinite(b):
        key = "C19/beta-nan-body-on-orbit-normal" if abs(sinb) > 1 - 1e-12 else "C19/beta-not-finite"
        ctx.violation(key, w, f"beta = {b!r}; elevation of the body above the orbit plane is {exp / DEG!r} deg")
        return
    ctx.expect(-math.pi / 2 <= b <= math.pi / 2, "C19/beta-out-of-range", w, f"beta = {b!r} rad outside [-pi/2, pi/2]")
    # asin conditioning 1/cos(beta); near +-90 deg the angle itself is only defined to sqrt(2 eps) = 2e-8
    # (keplerian forms of the primary add ~1e-13 on h^).  Kepler propagation of the secondary (orbit-later): 1e-9 rel.
    base = 1e-9 if kind != "orbit-later" else 1e-7
    tol = max(base / max(math.cos(exp), 1e-3), 3e-8 if abs(sinb) > 1 - 1e-12 else 0.0)
    ctx.resid("beta:beta - asin(h.s) (rad)", abs(b - exp), tol, key="C19/beta-not-elevation-above-orbit-plane", witness=w,
              msg=f"beta = {b!r}, asin(h^.s^) = {exp!r}")
