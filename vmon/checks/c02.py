"""C02 -- frame conversions are consistent rigid motions with correct kinematics.

Four monitor groups (DESIGN section 5, C02), all driven through the public API
(`StateVector.copy(frame=...)`, `sv.frame = ...`):

  1. algebraic   the 6x6 affine map (T, b) actually applied by A -> B is recovered by pushing 0 and six basis
                 vectors through copy(frame=B); inverse (T_BA o T_AB = id), triple composition
                 (T_BC o T_AB = T_AC; exhaustive over the 720 ordered triples of the 10 built-in frames, plus
                 mixed triples with stations / orbit-attached / body-centred frames), block structure
                 (position independent of velocity, velocity block = R, coupling block skew), proper rotation
                 (R^T R = I, det +1, norms) and fixed origin for same-centre pairs; the same relations on *real
                 state objects* chained A -> B -> C (copy and setter paths) and against the affine prediction.
  2. kinematic   a smooth trajectory with exact velocity (oracle kepler_uv) is converted at t, t+-h, t+-2h;
                 the 5-point finite difference of the converted positions must equal the converted velocity.
                 QSW/TNW-oriented orbit frames: only v' = R (v - v_ref) is asserted (DESIGN scoping decision),
                 the discrepancy to d/dt is recorded in the evidence, not judged.
  3. absolute    single-edge rotations vs vmon.oracles.earth_rot (ERA, GMST-82 + equation of the equinoxes,
                 IAU-76 precession, IAU-1980 nutation, polar motion 1980/2010, rate vector, G50) with UT1, TT,
                 x_p, y_p, LOD taken from the independent IERS column parser; centre offsets of stations
                 (own geodesy) and orbit frames (own Kepler propagation).
  4. cross-model EME2000 -> (1980 chain) -> ITRF -> (2010 chain) -> GCRF within 0.1 arcsec of the identity.

EOP configurations (one subprocess family each): real IERS tables, zero (no tables), missing (real tables,
dates outside their coverage; policies pass / warning / error), constant record.
"""

import math

import numpy as np

from .. import env, probe
from ..oracles import earth_rot as er
from ..oracles import kepler_uv as kuv
from ..oracles import elements as el
from ..oracles import twobody_ref as tbr

RULE = (
    "case = one UTC instant (class: uniform / day start / day end / 1997-02-27 model switch / table edge) in one EOP "
    "configuration, with 2 freshly created stations (random incl. southern/western; |lat|>85 deg), 3 orbit-attached "
    "frames (orientation None/QSW/TNW, reference orbit in EME2000/MOD/TEME), the Moon- and Sun-centred frames and the "
    "10 built-in frames; per case: all 90 built-in ordered pairs + ~90 mixed pairs recovered as affine maps, all 720 "
    "built-in triples + all mixed triples with known maps, ~24 chains on real state objects, ~12 finite-difference "
    "kinematic pairs, 11 absolute single-edge comparisons, 1 cross-model comparison; distinct = digest of instant, "
    "station coordinates, reference orbits and states; every case is non-trivial (source != target frame in every pair)"
)
EXHAUSTIVE = [
    "10x9 ordered pairs and 10x9x8 ordered triples of the built-in frames {EME2000,MOD,TOD,TEME,PEF,ITRF,TIRF,CIRF,GCRF,G50} "
    "at every sampled instant (matrix level, from maps measured through the public API)"
]
ASSUMPTIONS = [
    "vmon/oracles/earth_rot.py (IERS 1996/2010 formulas typed independently, active-rotation convention) is the truth for "
    "ERA, GMST-82, IAU-76 precession, mean obliquity, polar motion; its 20-term nutation series is judged only to the hard "
    "bound of what it omits (0.0493\" / 0.0152\"); the published 106-term table beyond/frames/data/tab5.1.txt is additionally "
    "used *as data* with the oracle's own fundamental arguments",
    "vmon/oracles/timescales.py column parser of finals.all / finals2000A.all / tai-utc.dat is the truth for x_p, y_p, UT1-UTC, "
    "LOD, TAI-UTC; the record of the UTC day is used without interpolation (the library documents SimpleEopDatabase as "
    "'without caching nor interpolation'); missing record => all corrections zero (documented missing_policy 'pass')",
    "finite-difference stencils stay inside one UTC day (the tabulated EOP are a step function of the UTC day)",
    "dates carry the UTC label only (scale labels are C04's subject); instants are kept >= 5 min away from leap seconds",
    "TEME is judged only to 0.5\" (the number of nutation terms in its equation of the equinoxes is a convention: 4..106)",
    "G50 is judged against the IAU-76 precession B1950->J2000 to 1e-5 rad only (FK4/FK5 equinox offset 0.525\" is legitimate)",
    "Moon/Sun-centred frames of beyond.env.solarsystem: the centre velocity is *documented* as a central difference over "
    "+-1 d / +-5 d of a low-precision position series; velocity-vs-derivative is judged with the truncation bound of that "
    "documented scheme (Moon 60 m/s, Sun 80 m/s); the centre position is read from the library's public propagator (data)",
    "QSW/TNW-oriented orbit frames: only v' = R (v - v_ref) is asserted (DESIGN decision); axes definitions are C17's",
    "Earth.equatorial_radius, Earth.flattening, Earth.mu of beyond.constants are data",
    "element forms other than cartesian are C01's subject; here they are only carried through frame changes between frames "
    "centred on different bodies (forms_across_centres: the numbers must be elements about the NEW centre's body)",
    "the IAU-2006/2000A X, Y series value is read from the library through a hook on iau2010._xysxy2 (data); only the wiring "
    "of the IERS dX, dY (column, unit, day) is judged against it; the series itself and the CIO locator s are covered only "
    "by the 0.1\" cross-model clause",
    "days whose LOD / dX / dY columns are blank in the IERS files (the prediction part, MJD >= 57429 / 57498) are skipped by "
    "the rate-vector / pole-offset monitors (the library carries the last value forward; the statement says nothing there)",
]

BUILTIN = ["EME2000", "MOD", "TOD", "TEME", "PEF", "ITRF", "TIRF", "CIRF", "GCRF", "G50"]
EARTH_FIXED = {"PEF", "ITRF", "TIRF"}
ORIENT_EDGES = [
    "TEME_to_TOD", "PEF_to_TOD", "TOD_to_MOD", "MOD_to_EME2000", "ITRF_to_PEF", "ITRF_to_TIRF", "TIRF_to_CIRF",
    "CIRF_to_GCRF", "G50_to_EME2000",
]
ARCSEC = er.ARCSEC

# basis scales used to recover the affine map: as large as the largest offsets met (Sun: 1.5e11 m; Sun seen from an
# Earth-fixed frame: 1.1e7 m/s), so that every matrix entry is measured to a few 1e-16 and T @ (1.5e11 m) stays < 1e-4 m
S_R = 1.0e11
S_V = 1.0e7

# ---- tolerances (each: derived conditioning x margin; noise floors measured on the unchanged tree) -------
# algebraic, position [m]: 1e-5 + 1e-12 * (largest position / centre offset met on the chain).  Measured worst
# (thorough tier, 2.1e6 triples) 4e-7 m among Earth-centred frames at lunar distance, 1.5e-4 m through the
# Sun-centred frame (|offset| = 1.5e11 m, ulp 3e-5 m) against 0.15 m.
ALG_POS_ABS, ALG_REL = 1e-5, 1e-12
# algebraic, velocity [m/s]: 1e-8 + 1e-12 * largest speed met (incl. omega x offset = 1.1e7 m/s for the Sun
# seen from an Earth-fixed frame)
ALG_VEL_ABS = 1e-8
# orthonormality / det / block structure of the recovered 3x3 blocks: entries are measured with relative
# error <= 4 ulp(|b| + S_R) / S_R ~ 1e-15 (measured worst 3e-14 with S_R = 1e9).  Tolerance 1e-10 (effect of a real
# non-rotation, e.g. a transposed 2-term product or a dropped term, is >= 1e-6).
MAT_TOL = 1e-10
# coupling block L R^T must be skew: entries ~ 7.3e-5 rad/s measured to 1e-15 relative => 1e-15 rad/s abs.
SKEW_TOL = 1e-15
# neglected precession + nutation rates in the velocity maps (physical allowance, not noise):
# general precession 7.7e-12 rad/s + nutation in longitude <= 1.4e-11 + in obliquity <= 0.6e-11 per chain;
# a path may cross both models (EME2000 <-> GCRF goes through ITRF): 2 x 2.8e-11, rounded up.
KIN_NEGLECTED_RATE = 1.0e-10
# angle noise of the library's Earth-rotation matrices: its Julian dates are single floats (ulp 4.66e-10 d =
# 40 us) => up to 1.49e-9 rad on ERA / GMST (measured worst 1.48e-9 over 300 dates); used x100 in tolerances.
JD_ANGLE_NOISE = 1.5e-9
ERA_TOL = 100 * JD_ANGLE_NOISE  # 1.5e-7 rad = 0.031" = 2 ms of UT1 (|UT1-UTC| is 0.1..0.9 s)
PREC_TOL = 1e-11  # measured 1.6e-16
NUT_FULL_TOL = 1e-10  # measured 2.1e-14 (full 106-term table as data, own fundamental arguments)
NUT_TRUNC_TOL = er.NUT80_TRUNC_DPSI + er.NUT80_TRUNC_DEPS + 1e-10  # hard bound of the omitted 86 terms (0.0645")
GAST_TRUNC_TOL = er.NUT80_TRUNC_DPSI + ERA_TOL  # omitted terms x cos(eps) < omitted terms
# GAST - ERA: both of the library's angles are computed from the *same* rounded UT1 Julian date, so its 40 us ulp
# cancels (d(GMST-ERA)/dt = 7e-12 rad/s x 20 us); what remains is the rounding of GMST in seconds (|theta| <= 9e8 s,
# ulp 1.2e-7 s = 8.7e-12 rad) and of ERA (6e4 rad, ulp 7e-12).  Measured worst 2.5e-11 over 4000 dates; x120.  The two
# "kinematic" terms of the equation of the equinoxes (1997-02-27 branch) are 1.28e-8 rad.
GAST_MINUS_ERA_TOL = 3e-9
TEME_TOL = 0.5 * ARCSEC  # see ASSUMPTIONS
POLAR_TOL = 1e-13  # measured 8e-22; x_p * y_p (the effect of a swapped rotation order) is ~7e-13
RATE_TOL = 1e-15  # rad/s; measured 3e-20; LOD changes the rate by ~1.7e-12
# X = radians((X_series + dX/1000)/3600): |X| <= 2.5e-3 rad, relative rounding 4e-16 => 1e-18; matrix recovery 1e-16.
# dX, dY are 0.05..0.5 mas = 2e-10..2e-9 rad and move by ~5e-11 rad per day.
POLE_OFFSET_TOL = 1e-13
G50_TOL = 1e-5
CROSS_TOL = 0.1 * ARCSEC  # the statement's own number; measured worst 0.0445" over every third day of 1973..2017
# body-centred frames: truncation of the documented central difference (h^2/6 |r'''|): Moon h = 1 d:
# 1.24e9 s^2 x (7.2e-9 main + 6.3e-9 evection + ... ) <= 40 m/s; Sun h = 5 d: 3.1e10 x 1.2e-9 = 37 m/s (+ e-harmonics)
BODY_VEL_ALLOW = {"Moon": 60.0, "Sun": 80.0}
# position jitter of the body centres (their series take a single-float Julian date: 20 us x 1 km/s, 20 us x 30 km/s)
BODY_POS_NOISE = {"Moon": 0.03, "Sun": 0.7}


def jobs(tier):
    from .. import repotests

    return _jobs(tier) + [repotests.job()]  # + the repository's own tests as a workload for invariant hooks


def _jobs(tier):
    # ~4.5 core-seconds per case (1300 conversions for the affine maps, 190 of them through the 15 ms IAU-2010 series)
    if tier == "quick":
        return [
            {"name": "real", "n": 72, "eop": "real", "policy": "pass", "dates": "in"},
            {"name": "zero", "n": 28, "eop": "zero", "policy": "pass", "dates": "any", "shards": 4},
            {"name": "missing", "n": 28, "eop": "real", "policy": "pass", "dates": "out", "shards": 4},
            {"name": "missing-warning", "n": 4, "eop": "real", "policy": "warning", "dates": "out", "shards": 2},
            {"name": "missing-error", "n": 24, "eop": "real", "policy": "error", "dates": "out", "shards": 1},
            {"name": "const", "n": 16, "eop": "const", "policy": "pass", "dates": "any", "shards": 4},
        ]
    # <= 40 cases (200 new frames) per subprocess
    return [
        {"name": "real", "n": 960, "eop": "real", "policy": "pass", "dates": "in", "shards": 48},
        {"name": "zero", "n": 240, "eop": "zero", "policy": "pass", "dates": "any", "shards": 12},
        {"name": "missing", "n": 240, "eop": "real", "policy": "pass", "dates": "out", "shards": 12},
        {"name": "missing-warning", "n": 8, "eop": "real", "policy": "warning", "dates": "out", "shards": 2},
        {"name": "missing-error", "n": 200, "eop": "real", "policy": "error", "dates": "out", "shards": 1},
        {"name": "const", "n": 160, "eop": "const", "policy": "pass", "dates": "any", "shards": 8},
    ]


def requirements(tier):
    from .. import repotests

    return dict(_requirements(tier), **repotests.MIN["C02"])


def _requirements(tier):
    k = 1 if tier == "quick" else 10  # 148 / 1608 full cases
    req = {
        "eop:real": 50 * k, "eop:zero": 20 * k, "eop:missing": 20 * k, "eop:const": 10 * k, "eop:missing-warning": 3,
        "refusal:missing-policy-error": 20,
        "alg:pairs-builtin": 9000 * k, "alg:triples-builtin": 72000 * k, "alg:triples-mixed": 40000 * k,
        "alg:inverse": 15000 * k, "alg:same-centre-proper-rotation": 9000 * k, "alg:rigid-linear-part": 8000 * k,
        "alg:chain-real-objects": 2000 * k, "alg:setter-path": 800 * k, "alg:copy-path": 800 * k,
        "alg:affine-prediction": 1200 * k,
        "kin:judged": 900 * k, "kin:class:earth-rotation": 200 * k, "kin:class:inertial-only": 100 * k,
        "kin:class:earth-fixed-only": 100 * k, "kin:class:station": 200 * k, "kin:class:orbit-none": 200 * k,
        "kin:class:body": 100 * k, "kin:lof-recorded": 200 * k, "lof:velocity-relation": 2000 * k,
        "abs:era": 100 * k, "abs:gast": 200 * k, "abs:precession": 100 * k, "abs:nutation": 200 * k, "abs:teme": 100 * k, "abs:gast-minus-era": 100 * k,
        "abs:polar-1980": 100 * k, "abs:polar-2010": 100 * k, "abs:rate:PEF-TOD": 100 * k, "abs:rate:TIRF-CIRF": 100 * k,
        "abs:chain-1980": 100 * k, "abs:g50": 100 * k, "abs:pole-offsets": 90 * k, "abs:station-centre": 200 * k, "abs:orbit-centre": 300 * k,
        "abs:body-centre": 200 * k, "cross:evaluated": 100 * k, "cross:judged": 60 * k, "cross:judged-real-eop": 50 * k,
        "station:south": 50 * k, "station:west": 50 * k, "station:high-lat": 100 * k, "station:equatorial-axes": 5 * k,
        "orbit-frame:None": 100 * k, "orbit-frame:QSW": 100 * k, "orbit-frame:TNW": 100 * k,
        "static-lof:evaluated": 100 * k, "static-pair:evaluated": 100 * k, "orbit-parent:EME2000": 100 * k, "orbit-parent:MOD": 100 * k, "orbit-parent:TEME": 100 * k,
        "history:names-registered-again": 100 * k, "body-frame:Moon": 100 * k, "body-frame:Sun": 100 * k, "forms-across:pairs": 300 * k, "forms-across:return-judged": 100 * k,
        "forms-across:to-body:Moon": 50 * k, "forms-across:to-body:Sun": 50 * k, "forms-across:to-body:None": 50 * k,
        "date:day-start": 10 * k, "date:day-end": 10 * k, "date:eqeq-switch": 5 * k, "date:table-edge": 8 * k,
        "branch:eqeq-kinematic-terms:on": 20 * k, "branch:eqeq-kinematic-terms:off": 20 * k,
        "hook:Frame.transform": 150000 * k,
    }
    for e in ORIENT_EDGES:
        req["edge:" + e] = 10000 * k
    return req


# =================================================================================================== setup
class FI:
    """Harness-side description of a frame."""

    def __init__(self, name, frame, kind, fixed=False, lof=False, body=None, info=None):
        self.name = name
        self.frame = frame
        self.kind = kind  # builtin | station | station-eq | orbit-none | orbit-lof | body
        self.fixed = fixed  # axes co-rotating with the Earth
        self.lof = lof
        self.body = body
        self.info = info or {}


KIND_RANK = {"builtin": 0, "station": 1, "station-eq": 1, "orbit-none": 2, "body": 3, "orbit-lof": 4}
KIND_KEY = {"builtin": "builtin", "station": "station", "station-eq": "station", "orbit-none": "orbit-none", "body": "body", "orbit-lof": "orbit-lof"}


def cls_of(*fis):
    return KIND_KEY[max(fis, key=lambda f: KIND_RANK[f.kind]).kind]


def setup(ctx, job):
    from beyond.frames.frames import Frame, get_frame
    from beyond.frames.orient import Orientation
    from beyond.dates.eop import EopDb
    from beyond.env import solarsystem
    from beyond.constants import Earth
    import inspect

    repo = env.repo_dir()
    st = {"probes": [], "lof_fd_max": 0.0, "lof_fd_rel_max": 0.0, "body_fd_max": {"Moon": 0.0, "Sun": 0.0}, "cross_max": 0.0,
          "jd_noise_max": 0.0}

    if job["eop"] == "real":
        st["eop"] = er.EopSource("real", str(repo / env.POLE))
    elif job["eop"] == "zero":
        st["eop"] = er.EopSource("zero")
    else:
        db = EopDb._dbs["vmon-const"]  # the harness's own constant database (vmon.env), read as data
        inst = db() if inspect.isclass(db) else db
        r = inst[55000.0]
        st["eop"] = er.EopSource("const", const=dict(x=r.x, y=r.y, ut1_utc=r.ut1_utc, lod=r.lod, dpsi=r.dpsi, deps=r.deps,
                                                     dx=r.dx, dy=r.dy, tai_utc=r.tai_utc))
    st["tables"] = er.EopSource("real", str(repo / env.POLE)).tables  # for leap-second avoidance in every configuration
    st["nut106"] = er.read_nut80_table(str(repo / "beyond/frames/data/tab5.1.txt"))
    st["earth"] = dict(mu=float(Earth.mu), a=float(Earth.equatorial_radius), f=float(Earth.flattening))

    st["builtin"] = [FI(n, get_frame(n), "builtin", fixed=n in EARTH_FIXED) for n in BUILTIN]
    st["bodies"] = []
    if job["name"] != "missing-error":
        for nm in ("Moon", "Sun"):
            st["bodies"].append(FI(nm, solarsystem.get_frame(nm), "body", body=nm))
    st["body_prop"] = {nm: solarsystem.get_body(nm).propagator for nm in ("Moon", "Sun")}

    # hook on Frame.transform: source object untouched, result labelled with the target frame / same form
    pending = []  # a stack: conversions nest (an orbit-attached frame converts its own reference state)

    def t_pre(a, k):
        orbit = a[1]
        pending.append((probe.arr(orbit), orbit.frame, orbit.form, orbit.date))

    def t_post(a, k, res):
        ctx.count("hook:Frame.transform")
        orbit, new_frame = a[1], a[2]
        s_arr, s_frame, s_form, s_date = pending.pop()
        same = np.array_equal(probe.arr(orbit), s_arr) and orbit.frame is s_frame and orbit.form is s_form and orbit.date is s_date
        if not same:
            ctx.violation("C02/transform-mutates-source", {"from": str(s_frame), "to": str(new_frame), "before": s_arr, "after": probe.arr(orbit)},
                          "Frame.transform changed its source state")
        # NB: the object returned by Frame.transform still carries the *source* frame label (`new_orb._frame = ...`
        # lands in _data["_frame"]); the public paths (frame setter / copy) relabel it themselves, so this is
        # recorded, not judged (internal API, outside the statement).
        if res.frame is not new_frame:
            ctx.count("info:transform-result-keeps-source-frame-label")

    st["probes"].append(probe.attach(Frame, "transform", pre=t_pre, post=t_post))
    for e in ORIENT_EDGES:
        st["probes"].append(probe.attach(Orientation, e, pre=lambda a, k, e=e: ctx.count("edge:" + e)))
    # hook on the IAU-2010 series (module-global lookup from _xys): the model X, Y (arcsec) before the IERS dX, dY are added
    from beyond.frames import iau2010

    st["xy_series"] = {}

    def xy_post(a, k, res):
        d = a[0]
        st["xy_series"][(d._d, d._s)] = (float(res[0]), float(res[1]))

    st["probes"].append(probe.attach(iau2010, "_xysxy2", post=xy_post))
    return st


def finish(ctx, job, st):
    for p in st["probes"]:
        p.remove()
    ctx.note("recorded: max |FD d/dt r' - v'| in QSW/TNW-oriented orbit frames [m/s] (not judged, DESIGN scoping)", st["lof_fd_max"])
    ctx.note("recorded: same, relative to |v'|", st["lof_fd_rel_max"])
    ctx.note("recorded: max |FD d/dt r' - v'| through Moon/Sun-centred frames [m/s] (judged to 60 / 80 m/s)", st["body_fd_max"])
    ctx.note("recorded: max EME2000->ITRF->GCRF rotation [arcsec]", st["cross_max"] / ARCSEC)
    ctx.note("recorded: same, dates outside 1973-2017 only (not judged: outside the quantifier)", st.get("cross_out_max", 0.0) / ARCSEC)
    ctx.note("recorded: max |ERA_lib - ERA_oracle| [rad] (float-JD noise of the library, bound 1.49e-9)", st["jd_noise_max"])


# =================================================================================================== generators
def gen_date(rng, job, idx, st):
    """(mjd day, seconds of day on the millisecond grid, class).  The caller shifts sec for its FD stencils."""
    lo, hi = env.EOP_MJD_MIN + 6, env.EOP_MJD_MAX - 6  # +-5 d: the Sun's central difference stays inside the tables
    mode = job["dates"]
    if mode == "any":
        mode = "in" if rng.random() < 0.8 else "out"
    cls = ["uniform", "uniform", "uniform", "day-start", "day-end", "eqeq-switch", "table-edge", "uniform"][idx % 8]
    if mode == "out":
        if rng.random() < 0.5:
            day = rng.randint(33300, env.EOP_MJD_MIN - 1)  # 1950 .. 1973-01-01
        else:
            day = rng.randint(env.EOP_MJD_MAX + 1, 59200)  # 2017-02-19 .. 2020
        if cls == "table-edge":
            day = rng.choice([env.EOP_MJD_MIN - 1, env.EOP_MJD_MAX + 1, env.EOP_MJD_MIN - 2, env.EOP_MJD_MAX + 2])
        elif cls == "eqeq-switch":
            cls = "uniform"
    else:
        day = rng.randint(lo, hi)
        if cls == "eqeq-switch":
            day = er.MJD_EQEQ_1994 + rng.randint(-2, 1)
        elif cls == "table-edge":
            day = rng.choice([lo, lo + 1, hi - 1, hi])
    for _ in range(50):
        if cls == "day-start":
            sec = round(rng.uniform(0.0, 5.0), 3)
        elif cls == "day-end":
            sec = round(86400.0 - rng.uniform(0.001, 5.0), 3)
        else:
            sec = round(rng.uniform(0.0, 86399.999), 3)
        if cls == "table-edge" and mode == "out":
            # reference-orbit epochs (+-3000 s) must not straddle the edge of the tables (TAI-UTC jumps to 0 there)
            sec = round(rng.uniform(3600.0, 82800.0), 3)
        # >= 4000 s from a leap second (insertion instants are UTC midnights): the reference-orbit epochs
        # (+-3000 s) and the FD stencils (+-120 s) then never straddle one (the library does not model them)
        if not st["tables"].near_leap(day + sec / 86400.0, 4000.0):
            return day, sec, cls
        day += 3
    raise env.HarnessSkip()


def clamp_sec(sec, margin):
    """Keep a +-margin stencil inside the UTC day (EOP are a step function of the UTC day)."""
    return round(min(max(sec, margin + 0.001), 86400.0 - margin - 0.001), 3)


STATE_CLASSES = {"leo": (6.6e6, 8.0e6), "meo": (1.2e7, 3.0e7), "geo": (4.1e7, 4.3e7), "lunar": (3.0e8, 4.5e8)}


def unit(rng):
    while True:
        v = np.array([rng.gauss(0, 1) for _ in range(3)])
        n = np.linalg.norm(v)
        if n > 1e-3:
            return v / n


def gen_state(rng, mu, cls=None, bound=False):
    """A 6-vector: position at a radius of the class, velocity 0.6..1.3 (0.8..1.1 if bound) x circular speed,
    never within 8 deg of radial (angular momentum well defined)."""
    cls = cls or rng.choice(list(STATE_CLASSES))
    lo, hi = STATE_CLASSES[cls]
    r = rng.uniform(lo, hi)
    rh = unit(rng)
    while True:
        vh = unit(rng)
        if abs(float(np.dot(vh, rh))) < 0.3:
            break
    k = rng.uniform(0.8, 1.1) if bound else rng.uniform(0.6, 1.3)
    v = k * math.sqrt(mu / r)
    return np.concatenate([r * rh, v * vh]), cls


FORMS_ACROSS = ["keplerian", "keplerian_eccentric", "keplerian_mean", "equinoctial", "spherical", "cylindrical"]


def forms_across_centres(ctx, idx, rng, st, date, frames, wit):
    """A state expressed in an element form keeps its form through a frame change, and the six numbers it then holds are
    the elements of the converted state ABOUT THE BODY AT THE CENTRE OF THE NEW FRAME (the form conversion happens inside
    the frame change: statevector.frame setter / copy(frame=)).  Judged against the cartesian route + the element
    definitions of oracles/elements.py; the conditioning of the element view is measured on the oracle itself."""
    from beyond.orbits import StateVector
    from beyond import constants

    bodies = [f for f in frames if f.kind == "body"]
    plain = [f for f in frames if f.kind in ("orbit-none",) or (f.kind == "builtin" and not f.fixed)]
    if not bodies or not plain:
        return
    mu_of = {"Moon": float(constants.Moon.mu), "Sun": float(constants.Sun.mu)}
    rad_of = {"Moon": 1.7374e6, "Sun": 6.957e8, None: 6.378e6}
    pairs = [(rng.choice(plain), bodies[idx % len(bodies)]), (bodies[(idx + 1) % len(bodies)], rng.choice(plain))]
    if len(bodies) > 1:
        pairs.append((bodies[idx % 2], bodies[(idx + 1) % 2]))
    for fa, fb in pairs:
        mu_b = mu_of.get(fb.body, st["earth"]["mu"])
        # a bound, well-conditioned orbit about the body of the TARGET frame
        e = rng.uniform(0.02, 0.6)
        a = rad_of[fb.body] * rng.uniform(1.5, 10.0) / (1 - e)
        inc = rng.uniform(0.3, 2.8)
        O, w_, nu = (rng.uniform(0.2, 6.0) for _ in range(3))
        r, v = el.kep2cart(a, e, inc, O, w_, nu, mu_b)
        xb = [float(t) for t in r] + [float(t) for t in v]
        form = FORMS_ACROSS[(idx + len(fa.name)) % len(FORMS_ACROSS)] if rng.random() < 0.5 else rng.choice(FORMS_ACROSS)
        w = dict(wit, source=fa.name, target=fb.name, form=form, state_in_target_cartesian=xb)
        try:
            xa = StateVector(xb, date, "cartesian", fb.frame).copy(frame=fa.frame)
            src = xa.copy(form=form)  # the state under test: element form, source frame
            src_cart = probe.arr(src.copy(form="cartesian"))
            truth = probe.arr(StateVector(src_cart, date, "cartesian", fa.frame).copy(frame=fb.frame))
            via_copy = src.copy(frame=fb.frame)
            via_setter = src.copy()
            via_setter.frame = fb.frame
        except Exception as exc:
            ctx.violation("C02/frame-change-of-element-form-raises", dict(w, exc=repr(exc)), f"{fa.name} -> {fb.name} in form {form}: {exc!r}")
            continue
        ctx.count("forms-across:pairs")
        ctx.count("forms-across:form:" + form)
        ctx.count("forms-across:to-body:" + str(fb.body))
        # conditioning of the element view of the truth, measured on the oracle (definitions, then their inverse)
        vo = el.form_values(form, truth[:3], truth[3:], mu_b)
        rb, vb = tbr.form_to_cartesian(form, vo, mu_b)
        rn, vn = float(np.linalg.norm(truth[:3])), float(np.linalg.norm(truth[3:]))
        noise_r, noise_v = float(np.linalg.norm(rb - truth[:3])), float(np.linalg.norm(vb - truth[3:]))
        if noise_r > 1e-9 * rn or noise_v > 1e-9 * vn:
            ctx.count("forms-across:not-judged-ill-conditioned-view")
            continue
        for route, obj in (("copy", via_copy), ("setter", via_setter)):
            ok_lab = obj.form.name == form and obj.frame is fb.frame
            ctx.expect(ok_lab, "C02/frame-change-loses-form-or-frame-label", dict(w, route=route, form_now=obj.form.name, frame_now=str(obj.frame)),
                       f"{route}: {fa.name} -> {fb.name} in form {form} gives form {obj.form.name} in frame {obj.frame}")
            if not ok_lab:
                continue
            vals = [float(t) for t in probe.arr(obj)]
            try:
                rg, vg = tbr.form_to_cartesian(form, vals, mu_b)
            except Exception as exc:
                ctx.violation("C02/element-form-after-frame-change-not-about-new-centre", dict(w, route=route, values=vals, exc=repr(exc)),
                              f"{route}: the six numbers are not valid {form} elements about the centre of {fb.name}: {exc!r}")
                continue
            dr, dv = float(np.linalg.norm(rg - truth[:3])), float(np.linalg.norm(vg - truth[3:]))
            ww = dict(w, route=route, values=vals, mu_of_target_centre=mu_b, truth=truth.tolist())
            ctx.resid("forms-across:pos", dr / rn, 1e-8 + 1e3 * noise_r / rn, key="C02/element-form-after-frame-change-not-about-new-centre", witness=ww,
                      msg=f"{route}: {fa.name} -> {fb.name}, form {form}: the elements read about the centre of {fb.name} are {dr:.6g} m from the converted state")
            ctx.resid("forms-across:vel", dv / vn, 1e-8 + 1e3 * noise_v / vn, key="C02/element-form-after-frame-change-not-about-new-centre", witness=ww,
                      msg=f"{route}: {fa.name} -> {fb.name}, form {form}: velocity off by {dv:.6g} m/s")
            # and back: A -> B -> A is the identity in the element form too
            try:
                back = obj.copy(frame=fa.frame) if route == "copy" else obj
                if route == "setter":
                    back.frame = fa.frame
                bc = probe.arr(back.copy(form="cartesian"))
            except Exception as exc:
                ctx.violation("C02/frame-change-of-element-form-raises", dict(w, route=route, exc=repr(exc)), f"return trip raised {exc!r}")
                continue
            an, avn = float(np.linalg.norm(src_cart[:3])), float(np.linalg.norm(src_cart[3:]))
            # the return trip re-reads elements about the source centre, where the orbit may be a far hyperbola: tolerance
            # from the oracle's own round trip there
            mu_a = mu_of.get(fa.body, st["earth"]["mu"])
            try:
                va_ = el.form_values(form, src_cart[:3], src_cart[3:], mu_a)
                ra2, va2 = tbr.form_to_cartesian(form, va_, mu_a)
                na_r, na_v = float(np.linalg.norm(ra2 - src_cart[:3])), float(np.linalg.norm(va2 - src_cart[3:]))
            except Exception:
                continue
            if na_r > 1e-9 * an or na_v > 1e-9 * avn:
                ctx.count("forms-across:return-not-judged-ill-conditioned-view")
                continue
            ctx.count("forms-across:return-judged")
            ctx.resid("forms-across:return:pos", float(np.linalg.norm(bc[:3] - src_cart[:3])) / an, 1e-8 + 1e3 * (na_r / an + noise_r / rn),
                      key="C02/roundtrip-not-identity:element-form", witness=dict(ww, back=bc.tolist(), start=src_cart.tolist()),
                      msg=f"{route}: {fa.name} -> {fb.name} -> {fa.name} in form {form} is not the identity")
            ctx.resid("forms-across:return:vel", float(np.linalg.norm(bc[3:] - src_cart[3:])) / avn, 1e-8 + 1e3 * (na_v / avn + noise_v / vn),
                      key="C02/roundtrip-not-identity:element-form", witness=dict(ww, back=bc.tolist(), start=src_cart.tolist()),
                      msg=f"{route}: velocity after the return trip differs")


def make_frames(ctx, job, idx, rng, st, day, sec, like=None):
    """2 stations + 3 orbit-attached frames, uniquely named.  `like` = description of an earlier call for the same case:
    the same names are then registered AGAIN with other coordinates / reference orbits, under the same parents (the
    graph keeps its shape; re-registering a name under another parent is C20's subject and a known finding there)."""
    from beyond.frames.stations import create_station
    from beyond.frames.frames import orbit2frame, get_frame
    from beyond.orbits import Orbit
    from beyond.dates import Date

    tag = f"{job['name'][:2]}{idx}".replace("-", "")
    out = []
    descr = {}
    # --- station A: anywhere (southern / western hemispheres included), occasionally equatorial axes or PEF/TIRF parent
    lat = math.degrees(math.asin(rng.uniform(-math.sin(math.radians(85)), math.sin(math.radians(85)))))
    lon = rng.uniform(-180.0, 180.0)
    alt = rng.uniform(-100.0, 5000.0)
    sel = rng.random()
    equatorial = sel < 0.15
    parent = "ITRF" if sel < 0.7 else ("PEF" if sel < 0.85 else "TIRF")
    if like is not None:
        parent, equatorial = like["stations"][0][3], like["stations"][0][4]
    fa = create_station(f"S{tag}a", (lat, lon, alt), parent_frame=get_frame(parent), equatorial=equatorial)
    out.append(FI(fa.name, fa, "station-eq" if equatorial else "station", fixed=not equatorial,
                  info=dict(lat=lat, lon=lon, alt=alt, parent=parent, equatorial=equatorial)))
    ctx.count("station:south" if lat < 0 else "station:north")
    ctx.count("station:west" if lon < 0 else "station:east")
    ctx.count("station:parent:" + parent)
    if equatorial:
        ctx.count("station:equatorial-axes")
    # --- station B: high latitude, alternating hemisphere
    latb = rng.uniform(85.0, 89.99) * (1 if idx % 2 == 0 else -1)
    lonb = rng.uniform(-180.0, 180.0)
    altb = rng.uniform(0.0, 3500.0)
    fb = create_station(f"S{tag}b", (latb, lonb, altb))
    out.append(FI(fb.name, fb, "station", fixed=True, info=dict(lat=latb, lon=lonb, alt=altb, parent="ITRF", equatorial=False)))
    ctx.count("station:high-lat")
    ctx.count("station:south" if latb < 0 else "station:north")
    ctx.count("station:west" if lonb < 0 else "station:east")
    descr["stations"] = [[lat, lon, alt, parent, equatorial], [latb, lonb, altb]]
    # --- orbit-attached frames
    mu = st["earth"]["mu"]
    parents = ["EME2000", "MOD", "TEME"]
    descr["orbits"] = []
    for j, orientation in enumerate((None, "QSW", "TNW")):
        pname = parents[(idx + j) % 3]
        x0, ocls = gen_state(rng, mu, cls=rng.choice(["leo", "leo", "meo", "geo"]), bound=True)
        dt0 = round(rng.uniform(-3000.0, 3000.0), 3)  # epoch offset from the case instant, ms grid
        es = sec + dt0
        eday = day + int(es // 86400.0)
        es = round(es % 86400.0, 3)
        ref = Orbit(list(x0), Date(eday, es), "cartesian", get_frame(pname), "Kepler")
        name = f"O{tag}{'nqt'[j]}"
        fr = orbit2frame(name, ref, orientation=orientation, parent=get_frame(pname))
        out.append(FI(name, fr, "orbit-lof" if orientation else "orbit-none", lof=bool(orientation),
                      info=dict(parent=pname, x0=x0, dt0=-dt0, orientation=orientation, cls=ocls)))
        ctx.count(f"orbit-frame:{orientation}")
        ctx.count("orbit-parent:" + pname)
        descr["orbits"].append([pname, orientation, [float(v) for v in x0], dt0])
    return out, descr


def static_lof_monitor(ctx, idx, rng, st, date, mu, wit):
    """Orbit-attached QSW/TNW frame whose reference is a plain StateVector (no propagator) expressed in a frame
    OTHER than the parent of the local orbital frame.  History monitor: the same conversion asked twice must give
    the same answer, the round trip is the identity, a detour through ITRF changes nothing, the reference state sits
    at the origin -- and the caller's reference object is left untouched."""
    from beyond.frames.frames import orbit2frame
    from beyond.orbits import StateVector

    src = ("TEME", "GCRF", "MOD", "TOD", "CIRF")[idx % 5]
    ori = ("QSW", "TNW")[(idx // 5) % 2]
    x0, _ = gen_state(rng, mu, cls="leo", bound=True)
    ref = StateVector(list(x0), date, "cartesian", src)
    fp0 = probe.fingerprint(ref)
    name = f"L{idx}s{st.setdefault('static_n', 0)}"
    st["static_n"] += 1
    w = dict(wit, reference_frame=src, orientation=ori, x_ref=[float(v) for v in x0])
    try:
        orbit2frame(name, ref, orientation=ori)  # default parent: EME2000
        chaser = np.array(x0, dtype=float) + np.array([rng.uniform(-200, 200) for _ in range(3)] + [rng.uniform(-1, 1) for _ in range(3)])
        sv_e = StateVector(list(chaser), date, "cartesian", src).copy(frame="EME2000")
        e0 = probe.arr(sv_e)
        first = probe.arr(sv_e.copy(frame=name))
        second = probe.arr(sv_e.copy(frame=name))
        back = probe.arr(sv_e.copy(frame=name).copy(frame="EME2000"))
        via = probe.arr(sv_e.copy(frame="ITRF").copy(frame=name))
        origin = probe.arr(StateVector(list(x0), date, "cartesian", src).copy(frame=name))
    except Exception as exc:
        ctx.violation("C02/static-lof-frame-raises", dict(w, exc=repr(exc)), f"static-reference {ori} frame: {exc!r}")
        return
    ctx.count("static-lof:evaluated")
    ctx.count("static-lof:reference-in-" + src)
    rn = float(np.linalg.norm(e0[:3]))
    tol = 1e-5 + 1e-12 * rn  # algebraic tolerance of the design (probed worst 6e-9 m among Earth-centred frames)
    ctx.expect(bool(np.array_equal(first, second)), "C02/static-lof-repeated-conversion-differs", dict(w, first=first, second=second),
               "the same conversion into a static-reference local orbital frame gives two different answers")
    ctx.resid("static-lof:roundtrip", float(np.linalg.norm(back[:3] - e0[:3])), tol, key="C02/roundtrip-not-identity:static-lof", witness=w)
    ctx.resid("static-lof:via-itrf", float(np.linalg.norm(via[:3] - first[:3])), tol, key="C02/triple-path-dependent:static-lof", witness=w)
    ctx.resid("static-lof:reference-at-origin", float(np.linalg.norm(origin[:3])), tol, key="C02/orbit-frame-centre-offset:static-lof", witness=w)
    ctx.resid("static-lof:separation-preserved", abs(float(np.linalg.norm(first[:3])) - float(np.linalg.norm(chaser[:3] - np.array(x0[:3])))), tol,
              key="C02/linear-part-not-isometry:static-lof", witness=w)
    ctx.expect(probe.fingerprint(ref) == fp0, "C02/conversion-modifies-reference-state-of-frame", dict(w, now_frame=str(ref.frame), now_form=str(ref.form)),
               "converting into an orbit-attached frame modified the caller's reference StateVector")


def static_pair_monitor(ctx, idx, rng, st, date, mu, wit):
    """Two frames attached to plain cartesian StateVectors (no propagator) given in the parent's own axes (EME2000, no local
    orientation): states converted from one to the other cross two moving-centre links whose offsets are the reference
    states themselves.  History monitor: the same conversion asked twice gives the same answer, round trip = identity,
    A -> B -> EME2000 = A -> EME2000, and both reference objects are bitwise what the caller built."""
    from beyond.frames.frames import orbit2frame
    from beyond.orbits import StateVector

    xa, _ = gen_state(rng, mu, cls="leo", bound=True)
    xb, _ = gen_state(rng, mu, cls=rng.choice(["leo", "geo", "meo"]), bound=True)
    ra, rb = StateVector(list(xa), date, "cartesian", "EME2000"), StateVector(list(xb), date, "cartesian", "EME2000")
    fpa, fpb = probe.fingerprint(ra), probe.fingerprint(rb)
    n = st.setdefault("static_n", 0)
    st["static_n"] += 2
    na, nb = f"L{idx}s{n}", f"L{idx}s{n + 1}"
    w = dict(wit, scenario="two frames on plain EME2000 state vectors", x_ref_a=[float(v) for v in xa], x_ref_b=[float(v) for v in xb])
    try:
        fa, fb = orbit2frame(na, ra), orbit2frame(nb, rb)
        p = np.array([rng.uniform(-5e3, 5e3) for _ in range(3)] + [rng.uniform(-5, 5) for _ in range(3)])
        sv_a = StateVector(list(p), date, "cartesian", fa)
        first = probe.arr(sv_a.copy(frame=fb))
        second = probe.arr(sv_a.copy(frame=fb))
        to_e1 = probe.arr(sv_a.copy(frame="EME2000"))
        back = probe.arr(sv_a.copy(frame=fb).copy(frame=fa))
        via = probe.arr(sv_a.copy(frame=fb).copy(frame="EME2000"))
        to_e2 = probe.arr(sv_a.copy(frame="EME2000"))
    except Exception as exc:
        ctx.violation("C02/static-lof-frame-raises", dict(w, exc=repr(exc)), f"frames on plain state vectors: {exc!r}")
        return
    ctx.count("static-pair:evaluated")
    exp_e = np.array(xa, dtype=float) + p
    exp_b = exp_e - np.array(xb, dtype=float)
    L = float(np.linalg.norm(xa[:3]) + np.linalg.norm(xb[:3]))
    tol = 1e-5 + 1e-12 * L
    ctx.expect(bool(np.array_equal(first, second)) and bool(np.array_equal(to_e1, to_e2)), "C02/static-lof-repeated-conversion-differs", dict(w, first=first, second=second),
               "the same conversion between two frames attached to plain state vectors gives two different answers")
    ctx.resid("static-pair:a-to-b", float(np.linalg.norm(first[:3] - exp_b[:3])), tol, key="C02/orbit-frame-centre-offset:static-pair", witness=dict(w, got=first, expected=exp_b))
    ctx.resid("static-pair:a-to-eme2000", float(np.linalg.norm(to_e1[:3] - exp_e[:3])), tol, key="C02/orbit-frame-centre-offset:static-pair", witness=dict(w, got=to_e1, expected=exp_e))
    ctx.resid("static-pair:roundtrip", float(np.linalg.norm(back[:3] - p[:3])), tol, key="C02/roundtrip-not-identity:static-pair", witness=w)
    ctx.resid("static-pair:via-b", float(np.linalg.norm(via[:3] - exp_e[:3])), tol, key="C02/triple-path-dependent:static-pair", witness=w)
    ctx.expect(probe.fingerprint(ra) == fpa and probe.fingerprint(rb) == fpb, "C02/conversion-modifies-reference-state-of-frame",
               dict(w, ref_a_now=probe.arr(ra), ref_b_now=probe.arr(rb)), "converting between orbit-attached frames modified a caller's reference StateVector")


# =================================================================================================== conversions
def lib_convert(vec, date, fa, fb, how="copy"):
    from beyond.orbits import StateVector

    sv = StateVector(list(vec), date, "cartesian", fa.frame)
    if how == "copy":
        return probe.arr(sv.copy(frame=fb.frame))
    if how == "copy-name":
        return probe.arr(sv.copy(frame=fb.name))
    if how == "setter":
        sv.frame = fb.frame
        return probe.arr(sv)
    if how == "setter-name":
        sv.frame = fb.name
        return probe.arr(sv)
    raise ValueError(how)


def amap(ctx, date, fa, fb, wit):
    """Affine map (T, b) of fa -> fb at `date`, recovered through the public API; None if the library raised."""
    try:
        z = lib_convert(np.zeros(6), date, fa, fb)
        T = np.zeros((6, 6))
        for k in range(6):
            s = S_R if k < 3 else S_V
            e = np.zeros(6)
            e[k] = s
            T[:, k] = (lib_convert(e, date, fa, fb) - z) / s
    except Exception as exc:  # the property promises a result for every pair
        ctx.violation(f"C02/conversion-raises:{cls_of(fa, fb)}", dict(wit, src=fa.name, dst=fb.name, exc=repr(exc)),
                      f"{fa.name}->{fb.name} raised {exc!r}")
        return None
    if not (np.all(np.isfinite(T)) and np.all(np.isfinite(z))):
        ctx.violation(f"C02/nonfinite:{cls_of(fa, fb)}", dict(wit, src=fa.name, dst=fb.name), f"{fa.name}->{fb.name} produced NaN/inf")
        return None
    return T, z


def apply(m, x):
    return m[0] @ x + m[1]


def same_centre(fa, fb):
    return fa.frame.center is fb.frame.center


OMEGA = er.OMEGA_EARTH


def alg_tols(*vecs):
    """Position / velocity tolerances from everything met on the chain (states, offsets)."""
    rmax = max(float(np.linalg.norm(v[:3])) for v in vecs)
    vmax = max(float(np.linalg.norm(v[3:])) for v in vecs)
    tp = ALG_POS_ABS + ALG_REL * rmax
    tv = ALG_VEL_ABS + ALG_REL * max(vmax, OMEGA * rmax) + OMEGA * tp
    return tp, tv


# =================================================================================================== monitors
def check_structure(ctx, fa, fb, m, wit):
    """Block structure / rigid-motion properties of one recovered map."""
    T, b = m
    R, U, L, Rv = T[:3, :3], T[:3, 3:], T[3:, :3], T[3:, 3:]
    cls = cls_of(fa, fb)
    w = dict(wit, src=fa.name, dst=fb.name, src_info=fa.info, dst_info=fb.info)
    # entries are measured to ~4 ulp(|b| + S)/S
    noise = 8 * np.finfo(float).eps * (1.0 + float(np.linalg.norm(b[:3])) / S_R + float(np.linalg.norm(b[3:])) / S_V)
    mt = max(MAT_TOL, 1e3 * noise)
    ctx.resid("alg:pos-indep-of-vel", float(np.max(np.abs(U))) * S_V / S_R, mt, key=f"C02/position-depends-on-velocity:{cls}", witness=dict(w, block=U),
              msg=f"{fa.name}->{fb.name}: converted position depends on the source velocity")
    ctx.resid("alg:vel-block-equals-R", float(np.max(np.abs(Rv - R))), mt, key=f"C02/velocity-block-differs-from-rotation:{cls}",
              witness=dict(w, R=R, Rv=Rv), msg=f"{fa.name}->{fb.name}: d v'/d v differs from the position rotation")
    ortho = er.orthonormality_defect(R)
    det = float(np.linalg.det(R))
    if same_centre(fa, fb):
        ctx.count("alg:same-centre-proper-rotation")
        ctx.resid("alg:same-centre:RtR-I", ortho, mt, key=f"C02/same-centre-rotation-not-orthonormal:{cls}", witness=dict(w, R=R),
                  msg=f"{fa.name}->{fb.name}: position map is not orthonormal (max |R^T R - I| = {ortho:.3g})")
        ctx.resid("alg:same-centre:det-1", abs(det - 1.0), mt, key=f"C02/same-centre-rotation-improper:{cls}", witness=dict(w, R=R, det=det),
                  msg=f"{fa.name}->{fb.name}: det R = {det!r}")
        ctx.resid("alg:same-centre:origin-fixed:pos", float(np.linalg.norm(b[:3])), ALG_POS_ABS, key=f"C02/same-centre-origin-moved:{cls}",
                  witness=dict(w, b=b), msg=f"{fa.name}->{fb.name}: the common origin is mapped to {b[:3]}")
        ctx.resid("alg:same-centre:origin-fixed:vel", float(np.linalg.norm(b[3:])), ALG_VEL_ABS, key=f"C02/same-centre-origin-moved:{cls}",
                  witness=dict(w, b=b), msg=f"{fa.name}->{fb.name}: the common origin gets velocity {b[3:]}")
        # norms preserved (direct statement of the clause), on three probe vectors
        for probe_vec in (np.array([7.0e6, -1.0e6, 2.0e6]), np.array([-3.0e7, 2.9e7, 1.0e6]), np.array([1.0e8, 2.0e8, -3.0e8])):
            n0 = float(np.linalg.norm(probe_vec))
            ctx.resid("alg:same-centre:norm-preserved", abs(float(np.linalg.norm(R @ probe_vec)) - n0) / n0, mt,
                      key=f"C02/same-centre-norm-not-preserved:{cls}", witness=dict(w, R=R, vec=probe_vec),
                      msg=f"{fa.name}->{fb.name}: |R r| != |r|")
    else:
        ctx.count("alg:rigid-linear-part")
        ctx.resid("alg:rigid:RtR-I", ortho, mt, key=f"C02/linear-part-not-orthonormal:{cls}", witness=dict(w, R=R),
                  msg=f"{fa.name}->{fb.name}: linear part of the position map is not orthonormal ({ortho:.3g})")
        ctx.resid("alg:rigid:det-1", abs(det - 1.0), mt, key=f"C02/linear-part-improper:{cls}", witness=dict(w, R=R, det=det),
                  msg=f"{fa.name}->{fb.name}: det of the linear part = {det!r}")
    W = L @ R.T
    ctx.resid("alg:coupling-skew", float(np.max(np.abs(W + W.T))), max(SKEW_TOL, 1e3 * noise * OMEGA), key=f"C02/velocity-coupling-not-skew:{cls}",
              witness=dict(w, W=W), msg=f"{fa.name}->{fb.name}: (d v'/d r) R^T is not skew-symmetric (not an omega x r coupling)")
    if fa.lof or fb.lof:
        others_fixed = fa.fixed or fb.fixed
        if not others_fixed:
            # DESIGN scoping: v' = R (v - v_ref), i.e. no position coupling, between a QSW/TNW frame and non-rotating axes
            ctx.count("lof:velocity-relation")
            ctx.resid("lof:no-position-coupling", float(np.max(np.abs(L))), max(SKEW_TOL, 1e3 * noise * OMEGA), key="C02/lof-velocity-relation",
                      witness=dict(w, L=L), msg=f"{fa.name}->{fb.name}: v' != R (v - v_ref) (position coupling present)")


def check_inverse_and_triples(ctx, frames, maps, xref, wit):
    names = [f.name for f in frames]
    by = {f.name: f for f in frames}
    nb = set(BUILTIN)
    for (a, b), mab in maps.items():
        mba = maps.get((b, a))
        if mba is None:
            continue
        x = xref[a]
        y = apply(mab, x)
        z = apply(mba, y)
        tp, tv = alg_tols(x, y, mab[1], mba[1])
        cls = cls_of(by[a], by[b])
        ctx.count("alg:inverse")
        w = dict(wit, A=a, B=b, x=x, y=y, back=z, A_info=by[a].info, B_info=by[b].info)
        ctx.resid("alg:inverse:pos", float(np.linalg.norm(z[:3] - x[:3])), tp, key=f"C02/roundtrip-not-identity:{cls}", witness=w,
                  msg=f"{a}->{b}->{a} moves the position by {np.linalg.norm(z[:3] - x[:3]):.3g} m")
        ctx.resid("alg:inverse:vel", float(np.linalg.norm(z[3:] - x[3:])), tv, key=f"C02/roundtrip-not-identity:{cls}", witness=w,
                  msg=f"{a}->{b}->{a} moves the velocity by {np.linalg.norm(z[3:] - x[3:]):.3g} m/s")
    for a in names:
        for b in names:
            if b == a or (a, b) not in maps:
                continue
            mab = maps[(a, b)]
            y = apply(mab, xref[a])
            for c in names:
                if c == a or c == b:
                    continue
                mbc = maps.get((b, c))
                mac = maps.get((a, c))
                if mbc is None or mac is None:
                    continue
                x = xref[a]
                z1 = apply(mbc, y)
                z2 = apply(mac, x)
                tp, tv = alg_tols(x, y, z1, mab[1], mbc[1], mac[1])
                builtin = a in nb and b in nb and c in nb
                ctx.count("alg:triples-builtin" if builtin else "alg:triples-mixed")
                cls = cls_of(by[a], by[b], by[c])
                dp = float(np.linalg.norm(z1[:3] - z2[:3]))
                dv = float(np.linalg.norm(z1[3:] - z2[3:]))
                w = dict(wit, A=a, B=b, C=c, x=x, via_B=z1, direct=z2, A_info=by[a].info, B_info=by[b].info, C_info=by[c].info)
                ctx.resid("alg:triple:pos" + ("" if builtin else ":mixed"), dp, tp, key=f"C02/triple-path-dependent:{cls}", witness=w,
                          msg=f"{a}->{b}->{c} differs from {a}->{c} by {dp:.3g} m")
                ctx.resid("alg:triple:vel" + ("" if builtin else ":mixed"), dv, tv, key=f"C02/triple-path-dependent:{cls}", witness=w,
                          msg=f"{a}->{b}->{c} differs from {a}->{c} by {dv:.3g} m/s")


def check_real_chains(ctx, rng, date, frames, maps, mu, wit, n):
    """A -> B -> C, A -> C, A -> B -> A on real state objects, copy and setter paths."""
    hows = ["copy", "copy-name", "setter", "setter-name"]
    for _ in range(n):
        fa, fb, fc = rng.sample(frames, 3)
        x, scls = gen_state(rng, mu)
        how1, how2 = rng.choice(hows), rng.choice(hows)
        cls = cls_of(fa, fb, fc)
        w = dict(wit, A=fa.name, B=fb.name, C=fc.name, x=x, how=[how1, how2], A_info=fa.info, B_info=fb.info, C_info=fc.info)
        try:
            y = lib_convert(x, date, fa, fb, how1)
            z1 = lib_convert(y, date, fb, fc, how2)
            z2 = lib_convert(x, date, fa, fc, how1)
            xb = lib_convert(y, date, fb, fa, how2)
            y_other = lib_convert(x, date, fa, fb, "setter" if how1.startswith("copy") else "copy")
        except Exception as exc:
            ctx.violation(f"C02/conversion-raises:{cls}", dict(w, exc=repr(exc)), f"chain {fa.name}->{fb.name}->{fc.name} raised {exc!r}")
            continue
        ctx.count("alg:chain-real-objects")
        ctx.count("alg:setter-path" if how1.startswith("setter") else "alg:copy-path")
        ctx.count("alg:state-class:" + scls)
        if not all(np.all(np.isfinite(v)) for v in (y, z1, z2, xb)):
            ctx.violation(f"C02/nonfinite:{cls}", w, "NaN/inf in a converted state")
            continue
        offs = [m[1] for k, m in maps.items() if k[0] in (fa.name, fb.name) and k[1] in (fb.name, fc.name, fa.name)]
        tp, tv = alg_tols(x, y, z1, z2, *offs)
        ctx.expect(np.array_equal(y, y_other), "C02/setter-vs-copy-differ", dict(w, copy=y, setter=y_other),
                   f"{fa.name}->{fb.name}: `sv.frame = B` and `sv.copy(frame=B)` give different numbers")
        ctx.resid("chain:roundtrip:pos", float(np.linalg.norm(xb[:3] - x[:3])), tp, key=f"C02/roundtrip-not-identity:{cls_of(fa, fb)}",
                  witness=dict(w, back=xb), msg=f"{fa.name}->{fb.name}->{fa.name} (state objects) moves the position")
        ctx.resid("chain:roundtrip:vel", float(np.linalg.norm(xb[3:] - x[3:])), tv, key=f"C02/roundtrip-not-identity:{cls_of(fa, fb)}",
                  witness=dict(w, back=xb), msg=f"{fa.name}->{fb.name}->{fa.name} (state objects) moves the velocity")
        ctx.resid("chain:triple:pos", float(np.linalg.norm(z1[:3] - z2[:3])), tp, key=f"C02/triple-path-dependent:{cls}",
                  witness=dict(w, via_B=z1, direct=z2), msg=f"{fa.name}->{fb.name}->{fc.name} differs from {fa.name}->{fc.name} (state objects)")
        ctx.resid("chain:triple:vel", float(np.linalg.norm(z1[3:] - z2[3:])), tv, key=f"C02/triple-path-dependent:{cls}",
                  witness=dict(w, via_B=z1, direct=z2), msg=f"{fa.name}->{fb.name}->{fc.name} differs from {fa.name}->{fc.name} (state objects)")
        m = maps.get((fa.name, fb.name))
        if m is not None:
            ctx.count("alg:affine-prediction")
            yp = apply(m, x)
            ctx.resid("chain:affine-prediction:pos", float(np.linalg.norm(yp[:3] - y[:3])), tp, key=f"C02/state-map-not-affine:{cls_of(fa, fb)}",
                      witness=dict(w, predicted=yp, got=y), msg=f"{fa.name}->{fb.name}: converted state differs from T x + b measured at the same date")
            ctx.resid("chain:affine-prediction:vel", float(np.linalg.norm(yp[3:] - y[3:])), tv, key=f"C02/state-map-not-affine:{cls_of(fa, fb)}",
                      witness=dict(w, predicted=yp, got=y), msg=f"{fa.name}->{fb.name}: converted velocity differs from T x + b")


def peri_rate(x, mu):
    """Largest angular rate met anywhere on the (elliptic) Kepler orbit through x: h / r_p^2."""
    r, v = x[:3], x[3:]
    rn = float(np.linalg.norm(r))
    h = float(np.linalg.norm(np.cross(r, v)))
    inv_a = 2.0 / rn - float(np.dot(v, v)) / mu
    if inv_a <= 0:  # not generated here (bound=True); fall back to the local rate
        return h / (rn * rn)
    a = 1.0 / inv_a
    e = math.sqrt(max(0.0, 1.0 - h * h / (mu * a)))
    rp = a * (1.0 - e)
    return h / (rp * rp)


def check_kinematic(ctx, rng, st, day, sec, fa, fb, mu, wit):
    from beyond.dates import Date

    x0, scls = gen_state(rng, mu, bound=True)
    # sum of the angular rates that can modulate the converted position: Earth rotation, the trajectory and the
    # reference orbits of orbit-attached frames (each at its perigee rate = its maximum, x2 for harmonics)
    rate = OMEGA + 2.0 * peri_rate(x0, mu)
    for f in (fa, fb):
        if f.kind in ("orbit-none", "orbit-lof"):
            rate += 2.0 * peri_rate(f.info["x0"], mu)
    h = round(min(max(0.01 / rate, 0.5), 60.0), 3)
    s0 = clamp_sec(sec, 2 * h)
    taus = (-2 * h, -h, 0.0, h, 2 * h)
    cls = cls_of(fa, fb)
    w = dict(wit, A=fa.name, B=fb.name, x0=x0, h=h, sec=s0, A_info=fa.info, B_info=fb.info)
    ys = []
    try:
        for tau in taus:
            r, v = kuv.propagate(x0[:3], x0[3:], tau, mu)
            ys.append(lib_convert(np.concatenate([r, v]), Date(day, s0 + tau), fa, fb))
    except Exception as exc:
        ctx.violation(f"C02/conversion-raises:{cls}", dict(w, exc=repr(exc)), f"{fa.name}->{fb.name} raised {exc!r}")
        return
    if not all(np.all(np.isfinite(y)) for y in ys):
        ctx.violation(f"C02/nonfinite:{cls}", w, "NaN/inf in a converted state")
        return
    p = [y[:3] for y in ys]
    fd = (p[0] - 8 * p[1] + 8 * p[3] - p[4]) / (12 * h)
    vel = ys[2][3:]
    d = float(np.linalg.norm(fd - vel))
    rmax = max(float(np.linalg.norm(x0[:3])), float(np.linalg.norm(ys[2][:3])))
    vmax = max(float(np.linalg.norm(x0[3:])), float(np.linalg.norm(vel)), float(np.linalg.norm(fd)))
    bodies = {f.body for f in (fa, fb) if f.body}
    if fa.lof or fb.lof:
        ctx.count("kin:lof-recorded")
        st["lof_fd_max"] = max(st["lof_fd_max"], d)
        st["lof_fd_rel_max"] = max(st["lof_fd_rel_max"], d / max(float(np.linalg.norm(vel)), 1e-9))
        return
    # position noise of the library at one instant (see the constants above)
    eps = 64 * np.finfo(float).eps * rmax + 1e-8
    efc = lambda f: f.kind in ("station", "station-eq")  # centre defined by an Earth-fixed offset
    crossing = not ((fa.fixed and fb.fixed) or (not fa.fixed and not fb.fixed and not efc(fa) and not efc(fb)))
    if crossing:  # an Earth-fixed <-> inertial rotation (axes or centre offset) is involved: float-JD angle jitter
        eps += JD_ANGLE_NOISE * rmax
    for bname in bodies:
        eps += BODY_POS_NOISE[bname]
    noise_v = 1.5 * eps / h
    trunc = 10.0 * (rate * h) ** 4 / 30.0 * vmax
    allow = KIN_NEGLECTED_RATE * rmax + sum(BODY_VEL_ALLOW[b] for b in bodies)
    tol = allow + 100.0 * noise_v + trunc
    if bodies:
        kcls = "body"
        for bname in bodies:
            st["body_fd_max"][bname] = max(st["body_fd_max"][bname], d)
    elif cls == "orbit-none":
        kcls = "orbit-none"
    elif cls == "station":
        kcls = "station"
    elif fa.fixed != fb.fixed:
        kcls = "earth-rotation"
    else:
        kcls = "inertial-only" if not fa.fixed else "earth-fixed-only"
    ctx.count("kin:judged")
    ctx.count("kin:class:" + kcls)
    ctx.count("kin:traj:" + scls)
    ctx.resid("kin:fd-vs-velocity:" + kcls, d, tol, key=f"C02/kinematic-velocity-not-derivative:{kcls}",
              witness=dict(w, fd=fd, velocity=vel, tol_parts=dict(allow=allow, noise=100 * noise_v, trunc=trunc)),
              msg=f"{fa.name}->{fb.name}: converted velocity differs from d/dt of the converted position by {d:.6g} m/s (|v'| = {np.linalg.norm(vel):.6g})")


def check_absolute(ctx, st, day, sec, ins, maps, wit):
    def R(a, b):
        m = maps.get((a, b))
        return None if m is None else m[0][:3, :3]

    def ang(name, a, b, M_oracle, tol, key, extra=None):
        Rl = R(a, b)
        if Rl is None:
            return None
        val = er.rot_angle(Rl, M_oracle)
        ctx.count("abs:" + name.split(":")[0])
        ctx.resid("abs:" + name, val, tol, key=key, witness=dict(wit, edge=f"{a}->{b}", lib=Rl, oracle=M_oracle, eop=ins.eop, **(extra or {})),
                  msg=f"{a}->{b} rotation differs from the independent model by {val:.3e} rad ({val / ARCSEC:.4f} arcsec)")
        return val

    n106 = st["nut106"]
    v = ang("era", "TIRF", "CIRF", ins.M_tirf_cirf(), ERA_TOL, "C02/era-angle", dict(ut1_sec=ins.sec_ut1))
    if v is not None:
        st["jd_noise_max"] = max(st["jd_noise_max"], v if v < ERA_TOL else 0.0)
    ang("gast:20-term", "PEF", "TOD", ins.M_pef_tod(), GAST_TRUNC_TOL, "C02/gmst-gast-angle", dict(ut1_sec=ins.sec_ut1))
    ang("gast:106-term", "PEF", "TOD", ins.M_pef_tod(n106), ERA_TOL, "C02/gmst-gast-angle", dict(ut1_sec=ins.sec_ut1))
    ctx.count("branch:eqeq-kinematic-terms:" + ("on" if day >= er.MJD_EQEQ_1994 else "off"))
    Rg_, Re_ = R("PEF", "TOD"), R("TIRF", "CIRF")
    if Rg_ is not None and Re_ is not None:
        # equation of the origins/equinoxes free of the float-JD noise: (PEF->TOD) (TIRF->CIRF)^T = az(GAST - ERA)
        lib = Rg_ @ Re_.T
        orc = er.az(ins.gast(n106) - ins.era())
        val = er.rot_angle(lib, orc)
        ctx.count("abs:gast-minus-era")
        ctx.resid("abs:gast-minus-era:106-term", val, GAST_MINUS_ERA_TOL, key="C02/gast-minus-era" + (":after-1997-02-27" if day >= er.MJD_EQEQ_1994 else ":before-1997-02-27"),
                  witness=dict(wit, lib=lib, oracle=orc, eop=ins.eop, ut1_sec=ins.sec_ut1, T=ins.T),
                  msg=f"GAST - ERA (PEF->TOD vs TIRF->CIRF) differs from GMST82 + equation of the equinoxes - ERA by {val:.3e} rad ({val / ARCSEC:.5f} arcsec)")
    ang("precession", "MOD", "EME2000", ins.M_mod_eme(), PREC_TOL, "C02/precession-iau76", dict(T=ins.T))
    ang("nutation:20-term", "TOD", "MOD", ins.M_tod_mod(), NUT_TRUNC_TOL, "C02/nutation-iau1980", dict(T=ins.T))
    ang("nutation:106-term", "TOD", "MOD", ins.M_tod_mod(n106), NUT_FULL_TOL, "C02/nutation-iau1980", dict(T=ins.T))
    ang("teme", "TEME", "TOD", ins.M_teme_tod(), TEME_TOL, "C02/teme-equinox", dict(T=ins.T))
    ang("polar-1980", "ITRF", "PEF", ins.M_itrf_pef(), POLAR_TOL, "C02/polar-motion-1980")
    ang("polar-2010", "ITRF", "TIRF", ins.M_itrf_tirf(), POLAR_TOL, "C02/polar-motion-2010")
    # full 1980 chain in one go (ITRF -> EME2000) against the product of the oracle's matrices
    ang("chain-1980", "ITRF", "EME2000", ins.M_itrf_eme_1980(n106), ERA_TOL, "C02/chain-1980-itrf-eme2000")
    # rate vectors: v_inertial = R v_fixed + Omega x (R r_fixed), Omega = omega (1 - LOD/86400) z
    om = ins.omega()
    for a, b in (("PEF", "TOD"), ("TIRF", "CIRF")):
        m = maps.get((a, b))
        if m is None:
            continue
        if om is None:
            ctx.count("abs:rate:lod-blank-skipped")
            continue
        T = m[0]
        W = T[3:, :3] @ T[:3, :3].T
        wv = np.array([W[2, 1], W[0, 2], W[1, 0]])
        ctx.count(f"abs:rate:{a}-{b}")
        ctx.resid(f"abs:rate:{a}-{b}", float(np.linalg.norm(wv - np.array([0.0, 0.0, om]))), RATE_TOL, key=f"C02/earth-rate-vector:{a}-{b}",
                  witness=dict(wit, edge=f"{a}->{b}", lib_rate=wv, oracle_rate=om, lod_ms=ins.eop["lod"]),
                  msg=f"{a}->{b}: rotation-rate vector {wv} != omega(1-LOD/86400) z = {om!r}")
    # edges without a rate must not couple velocity to position
    for a, b in (("MOD", "EME2000"), ("TOD", "MOD"), ("TEME", "TOD"), ("ITRF", "PEF"), ("ITRF", "TIRF"), ("CIRF", "GCRF"), ("G50", "EME2000")):
        m = maps.get((a, b))
        if m is not None:
            ctx.resid("abs:no-rate-edges", float(np.max(np.abs(m[0][3:, :3]))), RATE_TOL, key="C02/unexpected-rate-on-slow-edge",
                      witness=dict(wit, edge=f"{a}->{b}", L=m[0][3:, :3]), msg=f"{a}->{b}: unexpected velocity/position coupling")
    Rg = R("G50", "EME2000")
    if Rg is not None:
        ctx.count("abs:g50")
        ctx.resid("abs:g50", er.rot_angle(Rg, er.b1950_to_j2000_iau76()), G50_TOL, key="C02/g50-matrix", witness=dict(wit, lib=Rg),
                  msg="G50->EME2000 is not the B1950->J2000 precession (within the FK4/FK5 equinox offset)")
    # celestial pole offsets: CIRF->GCRF = Q(X, Y) R3(s) has third column (X, Y, .); X - X_series(hooked) must be the IERS dX
    Rq = R("CIRF", "GCRF")
    series = st["xy_series"].get(st.get("date_key"))
    if Rq is not None and series is not None:
        dx, dy = ins.eop.get("dx"), ins.eop.get("dy")
        if dx is None or dy is None:
            ctx.count("abs:pole-offsets:blank-skipped")
        else:
            got = np.array([Rq[0, 2] - series[0] * ARCSEC, Rq[1, 2] - series[1] * ARCSEC])
            exp = np.array([dx, dy]) * 1e-3 * ARCSEC
            ctx.count("abs:pole-offsets")
            ctx.resid("abs:pole-offsets-dX-dY", float(np.linalg.norm(got - exp)), POLE_OFFSET_TOL, key="C02/celestial-pole-offsets-dX-dY",
                      witness=dict(wit, got_rad=got, expected_rad=exp, dx_mas=dx, dy_mas=dy, series_arcsec=series),
                      msg=f"CIP X,Y minus the series = {got / (1e-3 * ARCSEC)} mas, IERS table gives dX,dY = {dx}, {dy} mas")
    # cross-model: EME2000 -(1980)-> ITRF -(2010)-> GCRF
    Rc = R("EME2000", "GCRF")
    if Rc is not None:
        a = er.rot_angle(Rc)
        st["cross_max"] = max(st["cross_max"], a)
        ctx.count("cross:evaluated")
        if env.EOP_MJD_MIN <= day <= env.EOP_MJD_MAX:
            # the statement quantifies the 0.1" clause over the dates covered by the EOP tables (1973-2017)
            ctx.count("cross:judged")
            if st["eop"].mode == "real":
                ctx.count("cross:judged-real-eop")
            ctx.resid("cross:1980-vs-2010", a, CROSS_TOL, key="C02/cross-model-1980-vs-2010", witness=dict(wit, R=Rc, eop=ins.eop, angle_arcsec=a / ARCSEC),
                      msg=f"IAU-1980 chain and IAU-2010 chain differ by {a / ARCSEC:.4f} arcsec")
        else:
            ctx.count("cross:outside-1973-2017-recorded-only")
            st["cross_out_max"] = max(st.get("cross_out_max", 0.0), a)


def check_centres(ctx, st, date, day, sec, frames, maps, wit):
    """Absolute position/velocity of the moving / displaced origins."""
    E = st["earth"]
    by = {f.name: f for f in frames}
    for f in frames:
        if f.kind in ("station", "station-eq"):
            m = maps.get((f.name, f.info["parent"]))
            if m is None:
                continue
            # origin of the station frame expressed in its parent (Earth-fixed) frame
            lat, lon, alt = math.radians(f.info["lat"]), math.radians(f.info["lon"]), f.info["alt"]
            truth = er.geodetic_to_ecef(lat, lon, alt, E["a"], E["f"])
            ctx.count("abs:station-centre")
            ctx.resid("abs:station-centre:pos", float(np.linalg.norm(m[1][:3] - truth)), 1e-6, key="C02/station-centre-offset",
                      witness=dict(wit, station=f.info, got=m[1], expected=truth), msg=f"origin of {f.name} in {f.info['parent']} is not the geodetic position")
            ctx.resid("abs:station-centre:vel", float(np.linalg.norm(m[1][3:])), 1e-9, key="C02/station-centre-offset",
                      witness=dict(wit, station=f.info, got=m[1]), msg=f"origin of {f.name} moves in its Earth-fixed parent frame")
        elif f.kind in ("orbit-none", "orbit-lof"):
            m = maps.get((f.name, f.info["parent"]))
            if m is None:
                continue
            x0 = f.info["x0"]
            r, v = kuv.propagate(x0[:3], x0[3:], f.info["dt0"], E["mu"])
            truth = np.concatenate([r, v])
            # library Kepler propagation over <= 3000 s vs universal variables: 1e-8 relative (C01/C05 conditioning ~1e-12/e)
            ctx.count("abs:orbit-centre")
            ctx.resid("abs:orbit-centre:pos", float(np.linalg.norm(m[1][:3] - r)), 1e-5 + 1e-8 * float(np.linalg.norm(r)), key=f"C02/orbit-frame-centre-offset:{f.kind}",
                      witness=dict(wit, frame=f.info, got=m[1], expected=truth), msg=f"origin of {f.name} in {f.info['parent']} is not the reference orbit's position")
            ctx.resid("abs:orbit-centre:vel", float(np.linalg.norm(m[1][3:] - v)), 1e-8 + 1e-8 * float(np.linalg.norm(v)), key=f"C02/orbit-frame-centre-offset:{f.kind}",
                      witness=dict(wit, frame=f.info, got=m[1], expected=truth), msg=f"origin of {f.name} in {f.info['parent']} does not move with the reference orbit's velocity")
        elif f.kind == "body":
            pf = "EME2000" if f.body == "Moon" else "MOD"
            m = maps.get((f.name, pf))
            if m is None:
                continue
            try:
                truth = probe.arr(st["body_prop"][f.body].propagate(date))
            except Exception:
                continue
            ctx.count("abs:body-centre")
            rn = float(np.linalg.norm(truth[:3]))
            lo, hi = (3.5e8, 4.1e8) if f.body == "Moon" else (1.46e11, 1.53e11)
            ctx.expect(lo < rn < hi, "C02/body-frame-centre-offset", dict(wit, body=f.body, got=m[1]), f"{f.body} at {rn:.4g} m from the Earth")
            ctx.resid("abs:body-centre:pos", float(np.linalg.norm(m[1][:3] - truth[:3])), 1e-12 * rn + 1e-5, key="C02/body-frame-centre-offset",
                      witness=dict(wit, body=f.body, got=m[1], expected=truth), msg=f"origin of the {f.body} frame in {pf} is not the body's position")
            ctx.resid("abs:body-centre:vel", float(np.linalg.norm(m[1][3:] - truth[3:])), 1e-12 * float(np.linalg.norm(truth[3:])) + 1e-9, key="C02/body-frame-centre-offset",
                      witness=dict(wit, body=f.body, got=m[1], expected=truth), msg=f"origin of the {f.body} frame in {pf} does not have the body's velocity")


# =================================================================================================== case
def run_case(ctx, job, idx, rng, st):
    from beyond.dates import Date

    day, sec, dcls = gen_date(rng, job, idx, st)
    sec = clamp_sec(sec, 0.0)
    ctx.count("date:" + dcls)
    wit = dict(mjd_day=day, sec_utc=sec, date_class=dcls)

    if job["name"] == "missing-error":
        ctx.case(dict(job=job["name"], day=day, sec=sec))
        try:
            Date(day, sec)
        except Exception as exc:
            # documented (doc/source/api/config.rst): "error - Raise an exception"; the library re-raises what the
            # database raised (KeyError for a day outside the tables, EopError when there is no database)
            ctx.count("refusal:missing-policy-error")
            ctx.count("refusal:exception:" + type(exc).__name__)
            ctx.ok("refusal")
        else:
            ctx.violation("C02/missing-eop-policy-error-not-raised", wit, "missing_policy='error' but a date outside the tables was accepted")
        return

    try:
        date = Date(day, sec)
    except Exception as exc:
        ctx.violation("C02/date-construction-raises", dict(wit, exc=repr(exc)), f"Date({day}, {sec}) raised {exc!r}")
        return
    eoprec = st["eop"].record(day)
    covered = st["eop"].covered(day)
    if job["eop"] == "real" and job["dates"] == "in":
        if not covered:
            raise env.HarnessSkip()
    ctx.count("eop:" + job["name"])
    ctx.count("eop-record:" + ("tabulated" if covered and st["eop"].mode == "real" else ("constant" if st["eop"].mode == "const" else "zero")))
    ins = er.Instant(day, sec, eoprec)
    st["xy_series"].clear()
    st["date_key"] = (date._d, date._s)
    mu = st["earth"]["mu"]

    dyn, descr = make_frames(ctx, job, idx, rng, st, day, sec)
    static_lof_monitor(ctx, idx, rng, st, date, mu, wit)
    static_pair_monitor(ctx, idx, rng, st, date, mu, wit)
    for b in st["bodies"]:
        ctx.count("body-frame:" + b.name)
    frames = st["builtin"] + dyn + st["bodies"]
    # reference states (coordinates in each frame; any numbers of orbital magnitude)
    xref = {}
    for f in frames:
        xref[f.name], _ = gen_state(rng, mu)
    descr.update(job=job["name"], day=day, sec=sec, date_class=dcls, xref_EME2000=[float(v) for v in xref["EME2000"]])
    ctx.case(descr)

    # ---------------- pairs to measure: all built-in ordered pairs + mixed
    builtin = st["builtin"]
    others = dyn + st["bodies"]
    pairs = [(a, b) for a in builtin for b in builtin if a is not b]
    for d in others:
        picks = rng.sample(builtin, 3)
        req = []
        if d.kind in ("station", "station-eq", "orbit-none", "orbit-lof"):
            req = [f for f in builtin if f.name == d.info["parent"]]
        elif d.kind == "body":
            req = [f for f in builtin if f.name == ("EME2000" if d.body == "Moon" else "MOD")]
        for f in {id(x): x for x in picks + req}.values():
            pairs.append((d, f))
            pairs.append((f, d))
        for d2 in others:
            if d2 is not d:
                pairs.append((d, d2))
    maps = {}
    for a, b in pairs:
        m = amap(ctx, date, a, b, wit)
        if m is not None:
            maps[(a.name, b.name)] = m
            if a.kind == "builtin" and b.kind == "builtin":
                ctx.count("alg:pairs-builtin")
            else:
                ctx.count("alg:pairs-mixed")
            check_structure(ctx, a, b, m, wit)

    check_inverse_and_triples(ctx, frames, maps, xref, wit)
    check_real_chains(ctx, rng, date, frames, maps, mu, wit, 24)
    check_absolute(ctx, st, day, sec, ins, maps, wit)
    check_centres(ctx, st, date, day, sec, frames, maps, wit)
    forms_across_centres(ctx, idx, rng, st, date, frames, wit)

    # ---------------- history: the same NAMES registered again with other geometry (stations, orbit-attached frames), at
    # the same instant: whatever was computed for the old frames of that name must not come back
    if idx % 3 == 0:
        dyn2, descr2 = make_frames(ctx, job, idx, rng, st, day, sec, like=descr)
        ctx.count("history:names-registered-again", len(dyn2))
        wit2 = dict(wit, history="frame names registered a second time with other parameters", second=descr2)
        frames2 = st["builtin"] + dyn2 + st["bodies"]
        maps2 = {}
        for d in dyn2:
            req = [f for f in builtin if f.name == d.info["parent"]]
            for f in {id(x): x for x in rng.sample(builtin, 3) + req}.values():
                for a, b in ((d, f), (f, d)):
                    m = amap(ctx, date, a, b, wit2)
                    if m is not None:
                        maps2[(a.name, b.name)] = m
                        ctx.count("alg:pairs-mixed")
                        check_structure(ctx, a, b, m, wit2)
        check_inverse_and_triples(ctx, frames2, maps2, xref, wit2)
        check_centres(ctx, st, date, day, sec, frames2, maps2, wit2)
        frames, dyn = frames2, dyn2  # the kinematic monitors below run on the frames that now own the names

    # ---------------- kinematic pairs
    by = {f.name: f for f in frames}
    kin = []
    fixed = [f for f in builtin if f.fixed]
    inert = [f for f in builtin if not f.fixed]
    kin.append((rng.choice(fixed), rng.choice(inert)))
    kin.append((rng.choice(inert), rng.choice(fixed)))
    kin.append(tuple(rng.sample(inert, 2)))
    kin.append(tuple(rng.sample(fixed, 2)))
    sts = [f for f in dyn if f.kind in ("station", "station-eq")]
    on = [f for f in dyn if f.kind == "orbit-none"]
    lof = [f for f in dyn if f.kind == "orbit-lof"]
    for s in sts:
        o = rng.choice(builtin)
        kin.append((s, o) if rng.random() < 0.5 else (o, s))
    for o_ in on:
        o = rng.choice(builtin + sts)
        kin.append((o_, o) if rng.random() < 0.5 else (o, o_))
        kin.append((rng.choice(inert), o_))
    for b in st["bodies"][idx % 2: idx % 2 + 1]:  # Moon on even, Sun on odd cases
        o = rng.choice(builtin + on)
        kin.append((b, o) if rng.random() < 0.5 else (o, b))
    for l_ in lof:
        o = by[l_.info["parent"]] if rng.random() < 0.5 else rng.choice(inert)
        kin.append((o, l_))
    for a, b in kin:
        check_kinematic(ctx, rng, st, day, sec, a, b, mu, wit)
