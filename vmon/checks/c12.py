"""C12 -- TLE text round-trips and is validated.

Reference model: vmon/oracles/tle_ref.py (own 69-column parser / formatter / checksum written from the format table;
all printed fields kept as exact scaled integers).

Jobs
  roundtrip*   generated field sets over the full printed ranges -> canonical text (and non-canonical spellings) ->
               Tle(text) [every attribute vs the printed value, half a unit of the last printed digit; epoch 1e-8 d]
               -> .orbit() -> Tle.from_orbit -> str(): lines of 69 columns, own checksum, own parser gives back every
               field; for canonical spelling the text must be identical, name line included.
  from-orbit   orbits that do NOT come from a TLE (any form / TEME or EME2000 / angles outside [0, 2pi) / values
               between the printed grid points) -> Tle.from_orbit: either a refusal (exception) or 69-column lines with
               right checksums whose own-parsed fields equal the orbit's elements to the printed precision, and which
               the library parses back to the same numbers.
  corruption   EXHAUSTIVE per sampled TLE: every digit column of both lines replaced by each of the 9 other digits;
               length 68 / 70 variants; every wrong line number (checksum recomputed, so that only the line-number test
               can reject), swapped / duplicated lines.  Each must be rejected.
  multi*       multi-TLE texts for Tle.from_string built from valid 2-line / 3-line entries, corrupted entries
               (checksum, length, line number), comments, blank lines (multi-plain) plus orphan lines and 1<->2 line
               number corruptions (multi-adversarial); expected yield = tle_ref.scan_entries (independent definition).

Tolerances: all comparisons are exact (text, integers) or "half a unit of the last printed digit" -- the statement's
own "preserved to its printed precision" -- against exact rational values; the floating noise of the library's
deg<->rad and rev/day<->rad/s conversions is ~1e-13 of a unit.  Epoch: 1e-8 day as stated (1e-8 d = 864 us exactly,
so a faithful parser is exact to the microsecond).
"""

import datetime as dt
import math
from fractions import Fraction

import numpy as np

from .. import probe
from ..oracles import tle_ref as T

RULE = (
    "roundtrip: case = one generated field set (all fields over their printed ranges, edge values with p=0.25) in one "
    "spelling, distinct = digest of the text, non-trivial always; from-orbit: case = one orbit not derived from a TLE, "
    "non-trivial when a TLE was produced; corruption: case = one TLE with all its single-digit / length / line-number "
    "corruptions; multi: case = one multi-TLE text with >= 1 valid and >= 1 invalid entry"
)
EXHAUSTIVE = [
    "per sampled TLE: every digit column of both 69-column lines x each of the 9 other digits (about 900-1000 mutants per TLE)",
    "per sampled TLE: every wrong line-number digit for line 1 and line 2 (checksum recomputed), swapped and duplicated lines",
]
ASSUMPTIONS = [
    "vmon/oracles/tle_ref.py implements the column table of the NORAD two-line format (independent of beyond.io.tle)",
    "canonical spelling = blank for '+', zero as ' 00000-0', normalised mantissa, '+0' for a zero exponent of a non-zero "
    "value, zero-padded catalogue number, blank-padded element and revolution numbers; other valid spellings are only "
    "required to round-trip by value (DESIGN C12)",
    "'0 NAME' name lines and names with surrounding blanks are only required to keep the name value",
    "from-orbit in EME2000: the expected TEME elements are taken from the library's own orbit.copy(form='TLE', frame='TEME') (C01/C02)",
    "a multi-TLE text's valid entries are defined by tle_ref.scan_entries: a '1 ' line immediately followed by a '2 ' line "
    "(blank/comment lines dropped), both 69 columns with right checksums",
]

PI2 = 2 * math.pi


def jobs(tier):
    q = tier == "quick"
    return [
        {"name": "roundtrip", "n": 6000 if q else 200000, "eop": "zero"},
        {"name": "roundtrip-real-eop", "n": 1500 if q else 40000, "eop": "real"},
        {"name": "from-orbit", "n": 4000 if q else 120000, "eop": "zero"},
        {"name": "corruption", "n": 48 if q else 1600, "eop": "zero"},
        {"name": "multi-plain", "n": 1200 if q else 40000, "eop": "zero"},
        {"name": "multi-adversarial", "n": 600 if q else 20000, "eop": "zero"},
    ]


def requirements(tier):
    return dict(_requirements(tier), **{"rt:orbit-asked-again-after-edit": 500, "rt:lines-with-surrounding-blanks": 500})


def _requirements(tier):
    k = 1 if tier == "quick" else 25
    return {
        "rt:cases": 6000 * k,
        "rt:canonical": 4000 * k,
        "rt:noncanonical": 800 * k,
        "rt:text-identity-checked": 3000 * k,
        "rt:elnum>=1000": 300 * k,
        "rt:elnum<1000": 1000 * k,
        "rt:name-line": 1000 * k,
        "rt:name-0-prefix": 100 * k,
        "rt:intl-empty": 300 * k,
        "rt:bstar-neg": 500 * k,
        "rt:bstar-zero": 300 * k,
        "rt:nddot-nonzero": 1000 * k,
        "rt:ndot-neg": 1000 * k,
        "rt:exp-positive": 500 * k,
        "rt:year-19xx": 1000 * k,
        "rt:year-20xx": 1000 * k,
        "fo:written": 2500 * k, "fo:epoch-label:TT": 300 * k, "fo:epoch-label:TAI": 300 * k, "fo:epoch-label:GPS": 300 * k,
        "fo:form-not-tle": 600 * k,
        "fo:drag-mantissa-rounds-up": 150 * k,
        "fo:frame-EME2000": 200 * k,
        "fo:refused": 50 * k,
        "corr:digit-mutants": 40000 * k,
        "corr:length-mutants": 400 * k,
        "corr:lineno-mutants": 800 * k,
        "multi:texts": 1700 * k,
        "multi:entries-expected": 3000 * k,
        "multi:invalid-blocks": 2000 * k,
        "multi:error-raise-mode": 200 * k,
    }


def setup(ctx, job):
    return {}


def finish(ctx, job, st):
    pass


# ----------------------------------------------------------------------------------------------
# helpers
LEAP_DAYS = [  # midnights at which TAI-UTC steps (end of a leap second), 1972-2017
    (1972, 7), (1973, 1), (1974, 1), (1975, 1), (1976, 1), (1977, 1), (1978, 1), (1979, 1), (1980, 1), (1981, 7), (1982, 7),
    (1983, 7), (1985, 7), (1988, 1), (1990, 1), (1991, 1), (1992, 7), (1993, 7), (1994, 7), (1996, 1), (1997, 7), (1999, 1),
    (2006, 1), (2009, 1), (2012, 7), (2015, 7), (2017, 1),
]


def near_leap(t):
    for y, m in LEAP_DAYS:
        if abs((t - dt.datetime(y, m, 1)).total_seconds()) < 120:
            return True
    return False


def half_unit_check(ctx, name, got, exact, unit, key, witness, msg, wrap=None):
    """|got - exact| <= half a unit of the last printed digit (exact: Fraction)."""
    try:
        g = float(got() if callable(got) else got)
    except Exception as exc:
        ctx.violation(key, dict(witness, exc=repr(exc)), f"{msg}: not a number ({exc!r})")
        return False
    d = abs(g - float(exact))
    if wrap:
        d = min(d, abs(d - wrap))
    return ctx.resid(name, d / float(unit), 0.5, key=key, witness=dict(witness, got=g, printed=str(exact)),
                     msg=f"{msg}: library value {g!r}, printed value {float(exact)!r} (unit of last digit {float(unit):g})")


def elnum_key(expected, got):
    """S-9 signature: a 4-digit element number read without its thousands digit."""
    if expected >= 1000 and got == expected % 1000:
        return "C12/element-number-thousands-digit-lost"
    return "C12/field-element_nb"


def make_text(rng, fields, spelling=None, name_mode=None, crlf=False):
    l1, l2 = T.format_lines(fields, spelling)
    name_mode = name_mode or rng.choice(["none", "none", "plain", "plain", "zero-prefix", "padded"])
    name = None
    lines = [l1, l2]
    if name_mode != "none":
        name = T.random_name(rng)
        head = {"plain": name, "zero-prefix": "0 " + name, "padded": "  " + name + "   "}[name_mode]
        if name_mode == "padded":
            head = name + "   "  # trailing blanks only (a leading blank is not part of the format)
        lines = [head] + lines
    return ("\r\n" if crlf else "\n").join(lines), l1, l2, name, name_mode


# ----------------------------------------------------------------------------------------------
# job: roundtrip
def noncanonical(rng, fields):
    """Return (fields', spelling, tags): a valid but non-canonical spelling of the same or of a nearby value."""
    f = dict(fields)
    sp = {}
    tags = []
    choice = rng.sample(["plus", "zero-plus", "norad-blank", "rev-zero", "elnum-zero", "unnormalised", "neg-zero"], rng.randint(1, 3))
    for c in choice:
        if c == "plus":
            sp.update(plus_ndot=True, plus_nddot=True, plus_bstar=True)
        elif c == "zero-plus":
            which = rng.choice(["nddot", "bstar"])
            f[which] = (False, 0, 0)
            sp["zero_plus_" + which] = True
        elif c == "norad-blank":
            sp["norad_blank_pad"] = True
        elif c == "rev-zero":
            sp["rev_zero_pad"] = True
        elif c == "elnum-zero":
            sp["elnum_zero_pad"] = True
        elif c == "unnormalised":
            which = rng.choice(["nddot", "bstar"])
            neg, mant, exp = f[which]
            if mant and exp >= -5:  # the normalised value must still have a one-digit exponent
                f[which] = (neg, rng.randint(1, 9999), exp)  # leading zero(s) in the mantissa
        elif c == "neg-zero":
            which = rng.choice(["nddot", "bstar"])
            f[which] = (True, 0, 0)
        tags.append(c)
    return f, sp, tags


def values_equal(a, b, key):
    if key in ("nddot", "bstar"):
        return T.implied_value(a) == T.implied_value(b)
    if key == "ndot":
        return T.ndot_half_value(a) == T.ndot_half_value(b)
    return a == b


FIELD_KEYS = ["norad", "classification", "intl", "epoch_yy", "day_e8", "ndot", "nddot", "bstar", "ephtype", "elnum",
              "i_e4", "raan_e4", "ecc_e7", "argp_e4", "M_e4", "n_e8", "rev"]


def run_roundtrip(ctx, job, idx, rng, st):
    from beyond.io.tle import Tle

    fields = T.random_fields(rng)
    # class rotation for the rarely populated digits
    sel = idx % 12
    if sel == 0:
        fields["elnum"] = rng.randint(1000, 9999)
    elif sel == 1:
        fields["elnum"] = rng.choice([0, 9, 10, 99, 100, 999])
    elif sel == 2:
        fields["bstar"] = T.random_implied(rng, "neg")
        fields["nddot"] = T.random_implied(rng, "neg")
    elif sel == 3:
        fields["bstar"] = T.random_implied(rng, "pos", exp_range=(0, 9))
        fields["nddot"] = T.random_implied(rng, "pos", exp_range=(1, 9))
    elif sel == 4:
        fields["ndot"] = (True, rng.choice([1, 99999999, rng.randint(1, 99999999)]))
    elif sel == 5:
        fields["intl"] = None
    elif sel == 6:
        fields["rev"] = rng.choice([0, 99999, 10000, 9999, rng.randint(0, 99999)])
        fields["norad"] = fields["norad2"] = rng.choice([0, 1, 99999, 10000, 9999])
    if job["eop"] == "real":
        # keep away from leap seconds (the library does not handle them); real tables only cover 1973-2017
        for _ in range(50):
            if not near_leap(T.epoch_datetime(fields)):
                break
            fields["day_e8"] = rng.randint(2 * 10 ** 8, 360 * 10 ** 8)
    canonical = rng.random() < 0.8
    spelling, tags = None, []
    if idx % 50 == 7:
        fields["classification"] = rng.choice("CS")
    if not canonical:
        fields, spelling, tags = noncanonical(rng, fields)
    crlf = rng.random() < 0.1
    text, l1, l2, name, name_mode = make_text(rng, fields, spelling, crlf=crlf)
    if not (T.is_canonical_implied(fields["bstar"]) and T.is_canonical_implied(fields["nddot"])) or spelling:
        canonical = False
    ctx.case({"text": text, "canonical": canonical})
    ctx.count("rt:cases")
    ctx.count("rt:canonical" if canonical else "rt:noncanonical")
    for tg in tags:
        ctx.count("rt:spelling:" + tg)
    ctx.count("rt:elnum>=1000" if fields["elnum"] >= 1000 else "rt:elnum<1000")
    if name is not None:
        ctx.count("rt:name-line")
    if name_mode == "zero-prefix":
        ctx.count("rt:name-0-prefix")
    if fields["intl"] is None:
        ctx.count("rt:intl-empty")
    if fields["bstar"][0] and fields["bstar"][1]:
        ctx.count("rt:bstar-neg")
    if fields["bstar"][1] == 0:
        ctx.count("rt:bstar-zero")
    if fields["nddot"][1]:
        ctx.count("rt:nddot-nonzero")
    if fields["ndot"][0]:
        ctx.count("rt:ndot-neg")
    if fields["bstar"][2] >= 0 and fields["bstar"][1] or fields["nddot"][2] > 0 and fields["nddot"][1]:
        ctx.count("rt:exp-positive")
    ctx.count("rt:year-19xx" if fields["epoch_yy"] >= 57 else "rt:year-20xx")
    if fields["classification"] != "U":
        ctx.count("rt:classification-not-U")
    if crlf:
        ctx.count("rt:crlf")

    w = {"text": text, "line1": l1, "line2": l2, "name_mode": name_mode, "canonical": canonical, "spelling": tags}

    # ---- A: parse ----
    try:
        tle = Tle(text)
    except Exception as exc:
        ctx.violation("C12/valid-tle-rejected", dict(w, exc=repr(exc)), f"Tle(text) raised {exc!r} for a well-formed TLE")
        return
    check_parsed(ctx, tle, fields, name, w, "parse")
    # ---- A2: blanks around the lines (copy-paste from a mail, an indented listing): the library validates the stripped
    # lines; whatever it accepts must then be decoded from the right columns
    if idx % 4 == 0:
        pad1, pad2 = rng.choice([("", " "), (" ", ""), (" ", " "), ("", "\t"), ("  ", "  "), ("", "   "), ("", "")])
        trail = rng.choice(["", " ", "   "]) if (pad1 or pad2) else rng.choice([" ", "   "])
        padded = (name + "\n" if name else "") + pad1 + l1 + trail + "\n" + pad2 + l2 + trail
        ctx.count("rt:lines-with-surrounding-blanks")
        try:
            t2 = Tle(padded)
        except Exception:
            ctx.count("rt:lines-with-surrounding-blanks:rejected")
        else:
            ctx.count("rt:lines-with-surrounding-blanks:accepted")
            check_parsed(ctx, t2, fields, name, dict(w, padded_text=padded), "lines with surrounding blanks", force_key="C12/accepted-line-with-leading-blanks-decoded-from-shifted-columns")
    try:
        shown = str(tle).splitlines()
    except Exception as exc:
        shown = [repr(exc)]
    ctx.expect(shown == ([name] if name is not None else []) + [l1, l2], "C12/str-of-parsed-tle", dict(w, shown=shown),
               "str(Tle(text)) does not show the name and the two lines of the text")

    # ---- B: orbit ----
    try:
        orb = tle.orbit()
    except Exception as exc:
        ctx.violation("C12/orbit-raises", dict(w, exc=repr(exc)), f"Tle.orbit() raised {exc!r}")
        return
    try:
        six = probe.arr(orb)
        same = np.array_equal(six, np.array(tle.to_list(), dtype=float)) and orb.form.name == "tle" and orb.frame.name == "TEME"
        meta = (orb.bstar == tle.bstar and orb.ndot == tle.ndot and orb.ndotdot == tle.ndotdot and orb.norad_id == tle.norad_id
                and orb.cospar_id == tle.cospar_id and orb.element_nb == tle.element_nb and orb.revolutions == tle.revolutions
                and orb.name == tle.name and abs((orb.date.datetime - tle.epoch.datetime).total_seconds()) == 0)
        ctx.expect(same and meta, "C12/orbit-differs-from-tle", w, "Tle.orbit() does not carry the parsed values")
    except Exception as exc:
        ctx.violation("C12/orbit-differs-from-tle", dict(w, exc=repr(exc)), f"reading the orbit raised {exc!r}")

    # ---- B2: history: the orbit handed out is the caller's: edited, it does not show in what the same Tle gives next ----
    if idx % 3 == 0:
        try:
            first = tle.orbit()
            first[0] = float(first[0]) + 0.25
            first[4] = float(first[4]) * 0.5 + 0.1
            first.bstar = 0.123
            first.name = "edited"
            again = tle.orbit()
            six2 = probe.arr(again)
            same2 = (again is not first and np.array_equal(six2, np.array(tle.to_list(), dtype=float)) and again.bstar == tle.bstar
                     and again.name == tle.name and str(Tle.from_orbit(again)) == str(Tle.from_orbit(orb)))
            ctx.count("rt:orbit-asked-again-after-edit")
            ctx.expect(same2, "C12/orbit-asked-again-carries-the-edits-of-the-first", dict(w, again=six2.tolist(), parsed=list(map(float, tle.to_list()))),
                       "Tle.orbit() called again after the first orbit was edited in place does not carry the parsed values")
        except Exception as exc:
            ctx.violation("C12/orbit-asked-again-raises", dict(w, exc=repr(exc)), f"Tle.orbit() called a second time raised {exc!r}")

    # ---- C: write back ----
    try:
        out = Tle.from_orbit(orb)
        out_text = str(out)
    except Exception as exc:
        ctx.violation("C12/write-back-raises", dict(w, exc=repr(exc)), f"Tle.from_orbit(Tle(text).orbit()) raised {exc!r}")
        return
    olines = out_text.splitlines()
    w2 = dict(w, written=out_text)
    exp_nlines = 3 if name is not None else 2
    if not ctx.expect(len(olines) == exp_nlines, "C12/roundtrip-line-count", w2, f"{len(olines)} lines written, expected {exp_nlines}"):
        return
    o1, o2 = olines[-2], olines[-1]
    okl = ctx.expect(len(o1) == 69 and len(o2) == 69, "C12/written-line-length", w2, f"written lines have {len(o1)} / {len(o2)} columns")
    if okl:
        ctx.expect(o1[68] == str(T.checksum(o1)) and o2[68] == str(T.checksum(o2)), "C12/written-checksum", w2,
                   "written line carries a wrong checksum (own modulo-10 sum)")
    field_mismatch = False
    if okl:
        try:
            g = T.parse(o1, o2)
        except T.TleFormatError as exc:
            ctx.violation("C12/written-line-malformed", dict(w2, exc=repr(exc)), f"own parser cannot read the written lines: {exc}")
            g = None
            field_mismatch = True
        if g is not None:
            for k in FIELD_KEYS:
                if canonical and fields["classification"] == "U":
                    same = g[k] == fields[k]
                else:
                    same = values_equal(g[k], fields[k], k)
                ctx.evaluations += 1
                if same:
                    continue
                field_mismatch = True
                if k == "elnum":
                    key = elnum_key(fields[k], g[k])
                elif k == "classification":
                    key = "C12/classification-not-preserved"
                else:
                    key = f"C12/roundtrip-field-{k}"
                ctx.violation(key, dict(w2, field=k, printed_in=str(fields[k]), printed_out=str(g[k])),
                              f"field {k}: {fields[k]} in the input, {g[k]} after parse -> orbit -> write")
            ctx.expect(g["norad2"] == g["norad"], "C12/written-norad-lines-differ", w2, "catalogue numbers of line 1 and 2 differ")
    if canonical and fields["classification"] == "U":
        ctx.count("rt:text-identity-checked")
        if (o1, o2) != (l1, l2) and not field_mismatch:
            ctx.violation("C12/roundtrip-spelling", w2, "all fields equal but the written lines differ from the canonical input lines")
        else:
            ctx.ok()
    if name is not None:
        ctx.expect(olines[0] == name, "C12/roundtrip-name", dict(w2, name=name), f"name line {olines[0]!r} written for name {name!r}")


def check_parsed(ctx, tle, fields, name, w, tag, force_key=None):
    """Every attribute of the parsed Tle against the exact printed value."""
    if force_key is not None:
        # one mechanism key for every field (history / spelling scenarios): route the calls through a proxy context
        real = ctx

        class _Proxy:
            def __getattr__(self, n):
                return getattr(real, n)

            def expect(self, ok, key, *a, **k):
                return real.expect(ok, force_key, *a, **k)

            def violation(self, key, *a, **k):
                return real.violation(force_key, *a, **k)

            def resid(self, name_, val, tol, key=None, **k):
                return real.resid(name_, val, tol, key=force_key if key else None, **k)

        ctx = _Proxy()

    def eq(attr, exp, key=None):
        try:
            got = getattr(tle, attr)
        except Exception as exc:
            ctx.violation(key or f"C12/field-{attr}", dict(w, exc=repr(exc)), f"{tag}: reading Tle.{attr} raised {exc!r}")
            return
        ctx.expect(got == exp, key or f"C12/field-{attr}", dict(w, attr=attr, got=repr(got), expected=repr(exp)),
                   f"{tag}: Tle.{attr} = {got!r}, the text says {exp!r}")

    eq("norad_id", fields["norad"])
    eq("classification", fields["classification"])
    eq("cospar_id", T.cospar(fields))
    try:
        got_el = tle.element_nb
    except Exception:
        got_el = None
    eq("element_nb", fields["elnum"], key=elnum_key(fields["elnum"], got_el if isinstance(got_el, int) else -1))
    eq("revolutions", fields["rev"])
    eq("type", fields["ephtype"])
    eq("name", name or "")
    # epoch to 1e-8 day
    try:
        d = abs((tle.epoch.datetime - T.epoch_datetime(fields)).total_seconds()) / 86400.0
    except Exception as exc:
        d = float("nan")
        w = dict(w, exc=repr(exc))
    ctx.resid("parse:epoch [day]", d, 1e-8, key="C12/field-epoch", witness=dict(w, expected=T.epoch_datetime(fields).isoformat()),
              msg=f"{tag}: epoch off by {d!r} day")
    hu = half_unit_check
    hu(ctx, "parse:ndot [units]", lambda: tle.ndot / 2, T.ndot_half_value(fields["ndot"]), Fraction(1, 10 ** 8), "C12/field-ndot", w, f"{tag}: ndot/2")
    for attr, k, fac in (("ndotdot", "nddot", 6), ("bstar", "bstar", 1)):
        hu(ctx, f"parse:{attr} [units]", lambda: getattr(tle, attr) / fac, T.implied_value(fields[k]), T.implied_unit(fields[k]),
           f"C12/field-{attr}", w, f"{tag}: {attr}")
    for attr, k in (("i", "i_e4"), ("Ω", "raan_e4"), ("ω", "argp_e4"), ("M", "M_e4")):
        hu(ctx, f"parse:{attr} [units]", lambda: math.degrees(getattr(tle, attr)), Fraction(fields[k], 10 ** 4), Fraction(1, 10 ** 4),
           f"C12/field-{attr}", w, f"{tag}: {attr} [deg]")
    hu(ctx, "parse:e [units]", lambda: tle.e, Fraction(fields["ecc_e7"], 10 ** 7), Fraction(1, 10 ** 7), "C12/field-e", w, f"{tag}: e")
    hu(ctx, "parse:n [units]", lambda: tle.n * 86400 / PI2, Fraction(fields["n_e8"], 10 ** 8), Fraction(1, 10 ** 8), "C12/field-n", w, f"{tag}: n [rev/day]")


# ----------------------------------------------------------------------------------------------
# job: from-orbit
def run_from_orbit(ctx, job, idx, rng, st):
    from beyond.dates import Date
    from beyond.io.tle import Tle
    from beyond.orbits import Orbit

    lu = lambda lo, hi: math.exp(rng.uniform(math.log(lo), math.log(hi)))  # noqa: E731
    sel = idx % 10
    # elements (TLE convention): i, raan, e, argp, M [rad], n [rad/s]
    inc = rng.choice([rng.uniform(0, math.pi), rng.uniform(0, math.pi), 0.0, math.pi, math.pi / 2, 1e-7])
    raan, argp, M = (rng.uniform(0, PI2) for _ in range(3))
    if sel == 1:  # angles outside [0, 2pi)
        raan, argp, M = raan - PI2, argp + PI2, M - 3 * PI2
    if sel == 2:  # angles that print as 360.0000 / values close to a grid point
        raan, argp = math.radians(359.99996), math.radians(359.99994)
        M = math.radians(rng.randint(0, 3599999) / 1e4 + rng.choice([0.00004999, -0.00004999, 0.0]))
    e = rng.choice([rng.uniform(0, 0.999), lu(1e-8, 1e-2), 0.0, rng.uniform(0.9, 0.9999999)])
    nrev = rng.choice([rng.uniform(0.05, 16.99), rng.uniform(0.05, 16.99), lu(1e-3, 17), 16.999999994, 1.0])
    in_range = True
    edge = None
    if sel == 3 and idx % 30 == 3:
        e, edge = rng.uniform(0.99999995, 0.999999999), "e-rounds-to-1"
    if sel == 4:
        nrev, in_range, edge = rng.uniform(100, 500), False, "n>=100"
    bstar = rng.choice([0.0, lu(1e-9, 0.9), -lu(1e-9, 0.9), lu(1e-6, 1e-3), -lu(1e-6, 1e-3)])
    ndd6 = rng.choice([0.0, 0.0, lu(1e-9, 1e3), -lu(1e-9, 1e3)])
    nd2 = rng.choice([0.0, rng.uniform(-0.9, 0.9), lu(1e-9, 1e-2), -lu(1e-9, 1e-2)])
    # round-7 seed: values whose five printed digits round UP to the next decade (mantissa in [0.999995, 1) x 10^k): the
    # carry has to reach the printed exponent.  Never produced by parsing TLE text, only by orbits built from numbers.
    carry = None
    if sel in (0, 2) and idx % 4 < 2:
        carry = rng.choice(["bstar", "nddot"])
        val = rng.choice([1, -1]) * (1.0 - rng.uniform(1e-8, 4.9e-6)) * 10.0 ** rng.randint(-8, -1 if carry == "bstar" else 2)
        if carry == "bstar":
            bstar = val
        else:
            ndd6 = val
    if sel == 5:
        bstar, in_range, edge = rng.choice([1, -1]) * lu(1e-14, 1e-11), False, "bstar-exponent<-9"
    if sel == 6 and idx % 20 == 6:
        nd2, in_range, edge = rng.choice([1, -1]) * rng.uniform(1.0, 5.0), False, "|ndot/2|>=1"
    norad = rng.choice([rng.randint(0, 99999), rng.randint(0, 99999), 0, 99999, 7])
    elnum = rng.choice([rng.randint(0, 9999), rng.randint(0, 999), 0, 9999])
    rev = rng.choice([rng.randint(0, 99999), 0, 99999])
    if sel == 7 and idx % 20 == 7:
        elnum, in_range, edge = rng.randint(10000, 99999), False, "elnum>9999"
    if rng.random() < 0.15:
        cospar = ""
    else:
        yy = rng.randint(1957, 2056)
        cospar = f"{yy}-{rng.randint(1, 999):03d}{''.join(rng.choice('ABCDEFGHJKLMNPQRSTUVWXYZ') for _ in range(rng.choice([1, 1, 2, 3])))}"
    name = T.random_name(rng) if rng.random() < 0.5 else None
    # epoch on the microsecond grid 1957-2056
    t = dt.datetime(1957, 1, 1) + dt.timedelta(microseconds=rng.randint(0, int((dt.datetime(2056, 12, 31) - dt.datetime(1957, 1, 1)).total_seconds()) * 10 ** 6))
    if rng.random() < 0.1:
        t = dt.datetime(rng.randint(1957, 2056), 12, 31, 23, 59, 59, rng.choice([999999, 999990, 500000]))
    frame = "EME2000" if sel == 8 else "TEME"
    form = rng.choice(["tle", "keplerian_mean", "keplerian", "cartesian"]) if e < 0.99 and 1e-6 < e and 1e-3 < inc < math.pi - 1e-3 and nrev > 0.1 else "tle"
    descr = dict(i=inc, raan=raan, e=e, argp=argp, M=M, n_revday=nrev, bstar=bstar, ndotdot_6=ndd6, ndot_2=nd2, norad=norad, elnum=elnum,
                 rev=rev, cospar=cospar, name=name, epoch=t.isoformat(), frame=frame, form=form, edge=edge)
    n_rads = nrev * PI2 / 86400.0
    meta = dict(bstar=bstar, ndot=nd2 * 2, ndotdot=ndd6 * 6, norad_id=norad, cospar_id=cospar, element_nb=elnum, revolutions=rev)
    if name is not None and rng.random() < 0.5:
        meta["name"] = name
        name_arg = None
    else:
        name_arg = name
    # the epoch is an instant: the orbit may carry it under any scale label (zero-EOP configuration: TAI = UTC,
    # TT = UTC + 32.184 s, GPS = UTC - 19 s exactly)
    label = rng.choice(["UTC", "UTC", "TT", "TAI", "GPS"]) if frame == "TEME" else "UTC"
    shift = {"UTC": 0.0, "TAI": 0.0, "TT": 32.184, "GPS": -19.0}[label]
    descr["epoch_label"] = label
    epoch = Date(t + dt.timedelta(seconds=shift), scale=label)
    if abs((epoch - Date(t)).total_seconds()) > 1.5e-6:
        raise RuntimeError("harness: labelled epoch is not the same instant")
    ctx.count("fo:epoch-label:" + label)
    try:
        orb = Orbit([inc, raan, e, argp, M, n_rads], epoch, "TLE", frame, None, **meta)
        if form != "tle":
            orb = orb.copy(form=form)
        ref = orb.copy(form="TLE", frame="TEME")  # the library's own conversion (C01/C02) is the expectation
        exp_el = probe.arr(ref)
    except Exception as exc:  # construction is not the subject here
        ctx.case(descr, nontrivial=False)
        ctx.count("fo:construction-failed")
        return
    if not np.all(np.isfinite(exp_el)):
        ctx.case(descr, nontrivial=False)
        ctx.count("fo:construction-nonfinite")
        return
    ctx.count("fo:form-not-tle" if form != "tle" else "fo:form-tle")
    ctx.count("fo:frame-" + frame)
    w = dict(descr, elements_TEME=exp_el)
    try:
        out = Tle.from_orbit(orb, name=name_arg) if name_arg is not None else Tle.from_orbit(orb)
        text = str(out)
    except Exception as exc:
        ctx.case(descr, nontrivial=False)
        ctx.count("fo:refused")
        if in_range and edge is None:
            ctx.violation("C12/from_orbit-raises-in-range", dict(w, exc=repr(exc)), f"Tle.from_orbit raised {exc!r} for values inside the format's ranges")
        else:
            ctx.ok("from_orbit-refusal")
        return
    ctx.case(descr)
    ctx.count("fo:written")
    if carry:
        ctx.count("fo:drag-mantissa-rounds-up")
        ctx.count("fo:drag-mantissa-rounds-up:" + carry)
    if edge:
        ctx.count("fo:edge:" + edge)
    lines = text.splitlines()
    w = dict(w, written=text)
    if not ctx.expect(len(lines) == (3 if name is not None else 2), "C12/from_orbit-line-count", w, f"{len(lines)} lines written"):
        return
    if name is not None:
        ctx.expect(lines[0] == name, "C12/from_orbit-name", w, f"name line {lines[0]!r} for name {name!r}")
    o1, o2 = lines[-2], lines[-1]
    if not ctx.expect(len(o1) == 69 and len(o2) == 69, "C12/written-line-length", w, f"written lines have {len(o1)} / {len(o2)} columns"):
        return
    ctx.expect(o1[68] == str(T.checksum(o1)) and o2[68] == str(T.checksum(o2)), "C12/written-checksum", w, "wrong checksum written")
    ctx.expect(o1[:2] == "1 " and o2[:2] == "2 ", "C12/written-line-number", w, "wrong line numbers written")
    try:
        g = T.parse(o1, o2)
    except T.TleFormatError as exc:
        if not in_range:
            # a value outside the format's ranges (e.g. B* = 4e-11 written as '40190-10'): outside the quantifier
            ctx.count("fo:out-of-range-value-written-in-nonstandard-columns")
            return
        ctx.violation("C12/written-line-malformed", dict(w, exc=repr(exc)), f"own parser cannot read the written lines: {exc}")
        return
    kk = "C12/from_orbit-field-"
    ctx.expect(g["norad"] == norad and g["norad2"] == norad, kk + "norad", w, f"catalogue number {g['norad']}/{g['norad2']} written for {norad}")
    ctx.expect(T.cospar(g) == cospar, kk + "intl", w, f"designator {T.cospar(g)!r} written for {cospar!r}")
    ctx.expect(g["elnum"] == elnum, kk + "elnum", w, f"element number {g['elnum']} written for {elnum}")
    ctx.expect(g["rev"] == rev, kk + "rev", w, f"revolution number {g['rev']} written for {rev}")
    dep = abs((T.epoch_datetime(g) - t).total_seconds()) / 86400.0
    ctx.resid("from-orbit:epoch [day]", dep, 1e-8, key=kk + "epoch", witness=w, msg=f"written epoch off by {dep!r} day")

    def hu(name, printed, true, unit, key, wrap=None):
        d = abs(float(printed) - true)
        if wrap:
            d = min(d, abs(d - wrap))
        # half a unit (round to nearest) + the binary noise of the value itself
        ctx.resid("from-orbit:" + name + " [units]", d / float(unit), 0.5 + 1e-6, key=key, witness=dict(w, field=name, printed=float(printed), true=true),
                  msg=f"from_orbit: {name} printed as {float(printed)!r} for {true!r}")

    deg = [math.degrees(x) % 360.0 for x in exp_el[[0, 1, 3, 4]]]
    for nm, fk, val in zip(("i", "raan", "argp", "M"), ("i_e4", "raan_e4", "argp_e4", "M_e4"), deg):
        hu(nm, Fraction(g[fk], 10 ** 4), val, 1e-4, kk + nm, wrap=360.0)
    if edge == "e-rounds-to-1":
        ctx.expect(abs(g["ecc_e7"] / 1e7 - exp_el[2]) <= 0.5e-7 * (1 + 1e-6) or g["ecc_e7"] == 9999999, "C12/from_orbit-eccentricity-rounds-to-1",
                   dict(w, printed_e=g["ecc_e7"] / 1e7), f"e = {exp_el[2]!r} written as {g['ecc_e7']:07d}")
    else:
        hu("e", Fraction(g["ecc_e7"], 10 ** 7), float(exp_el[2]), 1e-7, kk + "e")
    hu("n", Fraction(g["n_e8"], 10 ** 8), float(exp_el[5]) * 86400 / PI2, 1e-8, kk + "n")
    hu("ndot", T.ndot_half_value(g["ndot"]), nd2, 1e-8, kk + "ndot")
    for nm, val in (("nddot", ndd6), ("bstar", bstar)):
        # a printed zero ('00000-0') is only right for a value that is exactly zero
        hu(nm, T.implied_value(g[nm]), val, float(T.implied_unit(g[nm])) if g[nm][1] else 1e-300, kk + nm)
    # and the library reads its own lines back to the same numbers
    try:
        back = Tle(text)
        check_parsed(ctx, back, g, name, w, "re-parse")
    except Exception as exc:
        ctx.violation("C12/from_orbit-not-reparsable", dict(w, exc=repr(exc)), f"Tle(str(Tle.from_orbit(orbit))) raised {exc!r}")


# ----------------------------------------------------------------------------------------------
# job: corruption (exhaustive per sampled TLE)
def rejected(ctx, Tle, text, via_from_string):
    """True if the library rejects `text`; records how."""
    if via_from_string:
        try:
            got = list(Tle.from_string(text, error="ignore"))
        except Exception as exc:
            ctx.count("corr:from_string-raised-" + type(exc).__name__)
            return True
        return len(got) == 0
    try:
        Tle(text)
    except ValueError:
        return True
    except Exception as exc:  # rejected, but not by the documented error type
        ctx.count("corr:rejected-by-" + type(exc).__name__)
        return True
    return False


def run_corruption(ctx, job, idx, rng, st):
    from beyond.io.tle import Tle

    fields = T.random_fields(rng)
    if idx % 4 == 0:
        fields["elnum"] = rng.randint(1000, 9999)
    name_mode = rng.choice(["none", "none", "plain"])
    text, l1, l2, name, _ = make_text(rng, fields, name_mode=name_mode)
    head = [] if name is None else [name]
    ctx.case({"text": text})
    try:
        Tle(text)
    except Exception as exc:
        ctx.violation("C12/valid-tle-rejected", {"text": text, "exc": repr(exc)}, f"Tle(text) raised {exc!r} for a well-formed TLE")
        return
    lines = [l1, l2]

    def build(a, b):
        return "\n".join(head + [a, b])

    # -- every digit column x every other digit --
    n_mut = 0
    for li in (0, 1):
        line = lines[li]
        for col in range(69):
            ch = line[col]
            if not ch.isdigit():
                continue
            for d in "0123456789":
                if d == ch:
                    continue
                bad = line[:col] + d + line[col + 1:]
                pair = (bad, l2) if li == 0 else (l1, bad)
                t = build(*pair)
                n_mut += 1
                via = (n_mut % 7 == 0)
                ok = rejected(ctx, Tle, t, via)
                ctx.evaluations += 1
                if not ok:
                    where = "lineno" if col == 0 else ("checksum" if col == 68 else "data")
                    ctx.violation(f"C12/corrupt-digit-accepted-{where}-column", {"text": t, "line": li + 1, "column": col + 1, "was": ch, "now": d,
                                                                                "via": "from_string" if via else "Tle()"},
                                  f"line {li + 1} column {col + 1}: digit {ch} replaced by {d} and the TLE is still accepted")
    ctx.count("corr:digit-mutants", n_mut)

    # -- length --
    n_len = 0
    for li in (0, 1):
        line = lines[li]
        blanks = [k for k in range(2, 68) if line[k] == " "]
        zeros = [k for k in range(2, 68) if line[k] == "0"]
        variants = {
            "drop-last": line[:68],
            "append-0": line + "0",
            "append-digit": line + rng.choice("123456789"),
            "drop-first-two": line[2:],
            "double-checksum": line + line[68],
        }
        if blanks:
            k = rng.choice(blanks)
            variants["drop-blank"] = line[:k] + line[k + 1:]
            variants["insert-blank"] = line[:k] + " " + line[k:]
        if zeros:
            k = rng.choice(zeros)
            variants["drop-zero"] = line[:k] + line[k + 1:]  # checksum value unchanged, length 68
            variants["insert-zero"] = line[:k] + "0" + line[k:]
        for vname, bad in variants.items():
            pair = (bad, l2) if li == 0 else (l1, bad)
            t = build(*pair)
            n_len += 1
            ctx.evaluations += 1
            if not rejected(ctx, Tle, t, n_len % 5 == 0):
                ctx.violation("C12/wrong-length-accepted", {"text": t, "line": li + 1, "variant": vname, "length": len(bad)},
                              f"line {li + 1} with {len(bad)} columns ({vname}) is accepted")
    ctx.count("corr:length-mutants", n_len)

    # -- line numbers (checksum recomputed: only the line-number test can reject) --
    n_ln = 0
    cases = []
    for d in "0123456789":
        if d != "1":
            cases.append((f"line1-number-{d}", T.with_checksum(d + l1[1:68]), l2))
        if d != "2":
            cases.append((f"line2-number-{d}", l1, T.with_checksum(d + l2[1:68])))
    cases += [("swapped", l2, l1), ("two-line-1", l1, l1), ("two-line-2", l2, l2),
              ("renumbered-swapped", T.with_checksum("1" + l2[1:68]), T.with_checksum("2" + l1[1:68]))]
    for vname, a, b in cases:
        if vname == "renumbered-swapped":
            continue  # a syntactically valid pair of lines with garbage content: not a line-number corruption
        t = build(a, b)
        n_ln += 1
        ctx.evaluations += 1
        if not rejected(ctx, Tle, t, False):
            ctx.violation("C12/wrong-line-number-accepted", {"text": t, "variant": vname}, f"{vname}: accepted")
    ctx.count("corr:lineno-mutants", n_ln)


# ----------------------------------------------------------------------------------------------
# job: multi
def corrupt_entry(rng, l1, l2, kinds):
    kind = rng.choice(kinds)
    li = rng.randint(0, 1)
    line = (l1, l2)[li]
    if kind == "checksum":
        cols = [k for k in range(2, 69) if line[k].isdigit()]
        k = rng.choice(cols)
        bad = line[:k] + rng.choice([d for d in "0123456789" if d != line[k]]) + line[k + 1:]
    elif kind == "length-short":
        bad = line[:68]
    elif kind == "length-long":
        bad = line + rng.choice("0123456789")
    elif kind == "lineno-other":
        bad = T.with_checksum(rng.choice("03456789") + line[1:68])
    elif kind == "lineno-1<->2":
        bad = T.with_checksum(("2" if li == 0 else "1") + line[1:68])
    else:  # pragma: no cover
        raise ValueError(kind)
    return ((bad, l2) if li == 0 else (l1, bad)), f"{kind}@line{li + 1}"


def run_multi(ctx, job, idx, rng, st):
    from beyond.io.tle import Tle, TleParseError

    adversarial = job["name"] == "multi-adversarial"
    kinds = ["checksum", "checksum", "length-short", "length-long", "lineno-other"]
    blocks = ["valid2", "valid3", "valid2", "valid3", "bad", "bad", "comment", "blank"]
    if adversarial:
        kinds += ["lineno-1<->2", "lineno-1<->2"]
        blocks += ["orphan1", "orphan2", "orphan1-named", "bad"]
    nblocks = rng.randint(3, 12)
    out_lines = []
    layout = []
    n_invalid = 0
    for b in range(nblocks):
        kind = rng.choice(blocks)
        if b == 0 and kind in ("comment", "blank"):
            kind = "valid3"
        f = T.random_fields(rng)
        l1, l2 = T.format_lines(f)
        name = T.random_name(rng)
        if kind == "valid2":
            out_lines += [l1, l2]
        elif kind == "valid3":
            out_lines += [rng.choice([name, "0 " + name]), l1, l2]
        elif kind == "bad":
            (a, c), how = corrupt_entry(rng, l1, l2, kinds)
            out_lines += ([name] if rng.random() < 0.5 else []) + [a, c]
            kind = "bad:" + how
            n_invalid += 1
        elif kind == "comment":
            out_lines.append("# " + name)
        elif kind == "blank":
            out_lines.append(rng.choice(["", "   "]))
        elif kind == "orphan1":
            out_lines.append(l1)
            n_invalid += 1
        elif kind == "orphan1-named":
            out_lines += [name, l1]
            n_invalid += 1
        elif kind == "orphan2":
            out_lines.append(l2)
            n_invalid += 1
        layout.append(kind)
    text = rng.choice(["\n", "\n", "\r\n"]).join(out_lines) + rng.choice(["", "\n"])
    scanned = T.scan_entries(text)
    expected = [(n, a, b) for (n, a, b, strict) in scanned if strict]      # must be yielded
    tolerated = [(a, b) for (n, a, b, strict) in scanned if not strict]    # pass the 3 validity tests but are no catalogue entries
    nontrivial = len(expected) >= 1 and n_invalid >= 1
    ctx.case({"text": text}, nontrivial=nontrivial)
    ctx.count("multi:texts")
    ctx.count("multi:entries-expected", len(expected))
    ctx.count("multi:invalid-blocks", n_invalid)
    for kd in layout:
        ctx.count("multi:block:" + kd.split("@")[0])
    w = {"text": text, "layout": layout, "expected_entries": [[n, a, b] for (n, a, b) in expected]}
    flt = [ln for ln in text.splitlines() if ln.strip() and not ln.startswith("#")]

    mode = rng.choice(["ignore", "ignore", "warn", "raise"])
    got = []
    crashed = None
    try:
        for tle in Tle.from_string(text, error=mode):
            got.append(tle)
    except TleParseError as exc:
        crashed = ("raise-mode" if mode == "raise" else "unexpected", exc)
    except Exception as exc:
        crashed = ("unexpected", exc)
    if mode == "raise":
        ctx.count("multi:error-raise-mode")
    got_sig = [(g.name or None, *g.text.splitlines()) for g in got]
    w["yielded"] = [list(x) for x in got_sig]
    w["mode"] = mode
    extra = [x[1:] for x in got_sig if x[1:] not in [e[1:] for e in expected] and x[1:] not in tolerated]
    got_req = [x for x in got_sig if x[1:] in [e[1:] for e in expected]]
    if any(x[1:] in tolerated for x in got_sig):
        ctx.count("multi:tolerated-pair-yielded")
    ctx.evaluations += 1
    if extra:
        ctx.violation("C12/from_string-invalid-entry-yielded", dict(w, extra=[list(x) for x in extra]),
                      f"{len(extra)} yielded entries fail the checksum / length / line-number tests")

    if crashed and crashed[0] == "unexpected":
        exc = crashed[1]
        ctx.violation(f"C12/from_string-raises-{type(exc).__name__}", dict(w, exc=repr(exc)),
                      f"Tle.from_string(error={mode!r}) died with {exc!r} after {len(got)} entries; {len(expected)} valid entries in the text")
        return
    if mode == "raise":
        # yields the valid entries up to the first invalid one, then raises TleParseError (or finishes if nothing is invalid)
        ok_prefix = [x[1:] for x in got_req] == [x[1:] for x in expected[:len(got_req)]]
        ctx.expect(ok_prefix, "C12/from_string-raise-mode-wrong-entries", w, "error='raise': yielded entries are not a prefix of the valid entries")
        if crashed is None:
            ctx.expect(len(got_req) == len(expected), "C12/from_string-raise-mode-silently-dropped", w,
                       "error='raise': finished without raising although valid entries are missing")
        return
    # ignore / warn: exactly the valid entries, in order
    got_pairs = [x[1:] for x in got_req]
    exp_pairs = [x[1:] for x in expected]
    ctx.evaluations += 1
    if got_pairs == exp_pairs:
        for gs, es in zip(got_req, expected):
            if gs[0] != es[0] and gs[0] is not None and gs[0].startswith(("1 ", "2 ")):
                key = "C12/from_string-stale-data-line-as-name"
            else:
                key = "C12/from_string-name"
            ctx.expect(gs[0] == es[0], key, dict(w, got_name=gs[0], expected_name=es[0]), f"entry name {gs[0]!r}, expected {es[0]!r}")
        return
    missing = [p for p in exp_pairs if p not in got_pairs]
    for p in missing:
        k = flt.index(p[0])
        # two pending lines in front of the pair: [name or '1 ' line] + ['1 ' line]
        stale = k >= 2 and flt[k - 1].startswith("1 ") and not flt[k - 2].startswith("2 ")
        key = "C12/from_string-stale-lines-swallow-next-entry" if stale else "C12/from_string-valid-entry-not-yielded"
        ctx.violation(key, dict(w, missing=list(p)), "a valid entry (a '1 ' line directly followed by its '2 ' line, both 69 columns with right "
                                                     "checksums, well-formed columns, same catalogue number) is not yielded")
    if not missing:
        ctx.violation("C12/from_string-order", w, "valid entries yielded in a different order / multiplicity")


def run_case(ctx, job, idx, rng, st):
    name = job["name"]
    if name.startswith("roundtrip"):
        return run_roundtrip(ctx, job, idx, rng, st)
    if name == "from-orbit":
        return run_from_orbit(ctx, job, idx, rng, st)
    if name == "corruption":
        return run_corruption(ctx, job, idx, rng, st)
    if name.startswith("multi"):
        return run_multi(ctx, job, idx, rng, st)
    raise ValueError(name)
