"""C08 -- propagation and iteration contract; independence from call history.

Monitors
  * trace/stream checker: the stream produced by Orbit.iter / Orbit.ephemeris / Orbit.ephem /
    Ephem.iter / Ephem.ephemeris / Ephem.ephem is recorded at the API boundary and compared with an
    integer-microsecond model of the requested grid (start + k*step, first..last inclusive, none
    beyond stop, forward and backward) or of the explicit date container (list/tuple/generator/
    Date.range); every yielded state is compared with a direct propagate() of a *fresh equal*
    object (built again from the numbers of the case, never by copy()).
  * differential-history monitor: the same query multiset is answered (i) by fresh objects,
    (ii) by one object in shuffled orders with repetitions, (iii) with unrelated calls interleaved
    (other orbits on their own / on the *same* propagator object, frame registrations,
    listener-bearing iterations, partially consumed generators), (iv) after the memoize caches of
    the Earth-orientation series were emptied; answers are compared bit for bit.
    Re-used listener objects, in-place edits of the orbit between two calls (the Sgp4 wrapper
    caches the TLE by object identity), copy()-made orbits (KeplerNum.copy) and two orbits
    sharing one propagator with interleaved generators are separate, separately keyed scenarios.
  * invariant hook: fingerprint of the initial orbit / ephemeris before and after every call.
"""

import hashlib
import math
from datetime import datetime, timedelta

import numpy as np

from .. import probe
from ..oracles import elements as el
from ..oracles import kepler_uv

RULE = (
    "case = (propagator kind and configuration, initial orbit numbers/form/frame or ephemeris table, one iteration "
    "request (start/stop/step classes or a date container) and API entry point) for the stream jobs; (object, "
    "query multiset, history scenario) for the history jobs; distinct = digest of all generated numbers; "
    "non-trivial = the request asks for >= 2 dates (stream) or the history contains >= 3 calls on one object"
)
EXHAUSTIVE = []
ASSUMPTIONS = [
    "Date -> microsecond instant is read through Date._d/_s of the yielded object (TAI == UTC in the 'zero' EOP "
    "configuration used by the stream jobs); Date(datetime) construction is exact at 1 us (checked by C03)",
    "the reference for a yielded state is the library's own propagate() on a fresh equal object (that is what the "
    "statement compares with); its physical correctness is C05/C06/C07/C16's subject",
    "vmon/oracles/kepler_uv.py and elements.py only build ephemeris tables / initial states (workload, not verdict)",
    "None-valued / empty-list entries that getters create lazily in StateVector._data ('event', 'cov', 'maneuvers') "
    "are not a modification of the orbit: the fingerprint covers array bytes, date, form, frame, maneuvers and their "
    "fields, covariance bytes+frame, every other metadata entry, propagator identity and configuration",
]

MU = 3.986004418e14  # only used to build workloads (Earth.mu of the library is read at run time for ephem tables)
US = 1000000

ANALYTICAL = ["kepler", "j2", "none", "sgp4", "cw", "ephem-lagrange", "ephem-linear"]
NUM_METHODS = ["rk4", "euler", "rkf54", "dopri54"]

# Date stream: float accumulation of `date += step` measured <= 1.5e-8 s over 5000 steps; streams are
# capped at 400 steps; 0.5 us is the half width of datetime's resolution ("exactly those dates" = the
# same microsecond instant), a wrong grid is off by >= 1 ms (smallest generated step)
DATE_TOL = 0.5e-6
# Numerical propagator, iteration vs direct propagation: both are order-8 Lagrange interpolations of RK
# nodes of the same integrator and step; they differ by (a) the interpolation error at the edge window of
# the direct call (0.0131 (w h)^8 r <= 4e-5 m for w h <= 0.07), (b) grid-offset terms of the integrator's
# global error (O(h^5) for RK4; of the size of the configured tolerance for the adaptive methods,
# O(h^2) for Euler).  Measured worst values are in the evidence; see num_state_tol().
MJD_HALF_ULP_S = 0.5 * 7.275957614183426e-12 * 86400  # half an ulp of a float MJD near 5e4 days, in seconds
NUM_HISTORY_TOL = 1e-6  # m, same arithmetic => expected bitwise (DESIGN C08)


# ------------------------------------------------------------------------------------------------
# jobs
def jobs(tier):
    from .. import repotests

    return _jobs(tier) + [repotests.job()]  # + the repository's own tests as a workload for invariant hooks


def _jobs(tier):
    q = tier == "quick"
    return [
        {"name": "stream-analytical", "n": 2400 if q else 60000, "eop": "zero", "mode": "stream", "family": "analytical"},
        {"name": "stream-numerical", "n": 320 if q else 6400, "eop": "zero", "mode": "stream", "family": "numerical"},
        {"name": "history-analytical", "n": 640 if q else 16000, "eop": "zero", "mode": "history", "family": "analytical"},
        {"name": "history-numerical", "n": 96 if q else 1920, "eop": "zero", "mode": "history", "family": "numerical"},
        {"name": "history-frames", "n": 160 if q else 3200, "eop": "real", "mode": "history", "family": "frames"},
    ]


def requirements(tier):
    from .. import repotests

    return dict(_requirements(tier), **repotests.MIN["C08"])


def _requirements(tier):
    req = {}
    for k in ANALYTICAL:
        req[f"stream:{k}"] = 40
        req[f"state-compared:{k}"] = 200
        req[f"history:{k}"] = 10
    for m in NUM_METHODS:
        req[f"stream:keplernum-{m}"] = 10
        req[f"history:keplernum-{m}"] = 3
    req.update({
        "dates-model-evaluated": 1000, "fingerprint-evaluated": 3000,
        "dir:forward": 200, "dir:backward": 200, "divides:yes": 100, "divides:no": 100,
        "start:before-epoch": 50, "start:at-epoch": 50, "start:after-epoch": 50, "start:omitted": 50,
        "span:shorter-than-order": 50, "span:step-larger-than-span": 30,
        "container:list": 40, "container:tuple": 40, "container:generator": 40, "container:daterange": 40,
        "api:iter": 100, "api:ephemeris": 100, "api:ephem": 100,
        "stop:timedelta": 100, "stop:date": 100,
        "with-listeners": 50,
        "numerical-stream-completed": 20, "state-compared:keplernum": 40,
        "ephem:resampled-at-first-spacing:uneven-table": 5, "scenario:shuffle": 50, "scenario:interleave": 50, "scenario:listener-reuse": 30, "listener-reuse:dates-mode": 10, "listener-reuse:range-mode": 10, "scenario:inplace-edit": 30, "reexpressed-in-place:frame": 10,
        "scenario:shared-propagator-sequential": 20, "scenario:shared-propagator-interleaved": 20,
        "scenario:edit-returned-state": 30, "returned-state-edit:values": 100, "returned-state-edit:form": 30, "returned-state-edit:frame": 30,
        "scenario:copy-made": 30, "scenario:cold-cache": 20, "scenario:generator-interleave": 20,
        "history-compared-bitwise": 2000,
    })
    return req


# ------------------------------------------------------------------------------------------------
# small helpers
def lib():
    """Late import of everything used from the library (after env.bind_tree)."""
    import beyond.dates as bd
    from beyond.orbits import Orbit, Ephem, StateVector
    from beyond.io.tle import Tle
    from beyond.propagators.kepler import Kepler
    from beyond.propagators.j2 import J2
    from beyond.propagators.none import NonePropagator
    from beyond.propagators.sgp4 import Sgp4
    from beyond.propagators.keplernum import KeplerNum
    from beyond.propagators.cw import ClohessyWiltshire
    from beyond.propagators.listeners import NodeListener, ApsideListener
    from beyond.frames.frames import HillFrame
    from beyond.env.solarsystem import get_body

    return dict(Date=bd.Date, Orbit=Orbit, Ephem=Ephem, StateVector=StateVector, Tle=Tle, Kepler=Kepler, J2=J2,
                NonePropagator=NonePropagator, Sgp4=Sgp4, KeplerNum=KeplerNum, CW=ClohessyWiltshire,
                NodeListener=NodeListener, ApsideListener=ApsideListener, HillFrame=HillFrame, get_body=get_body)


def setup(ctx, job):
    L = lib()
    st = {"L": L, "hill": {o: L["HillFrame"](orientation=o) for o in ("QSW", "TNW")}, "registered": 0, "probes": []}

    def post(args, kw, res):
        # (self, orb, step) -> (real_step, orb): did the adaptive method shorten the step?
        ctx.count("keplernum-internal-steps")
        if abs(res[0].total_seconds()) < abs(args[2].total_seconds()):
            ctx.count("keplernum-adaptive-step-reduced")
            st["reduced"] = st.get("reduced", 0) + 1

    st["probes"].append(probe.attach(L["KeplerNum"], "_make_step", post=post))
    return st


def finish(ctx, job, st):
    for p in st["probes"]:
        p.remove()


def base_datetime(rng, real_eop=False):
    """Per-case reference instant (integer microseconds), >= 4 days away from any 1 Jan / 1 Jul (leap seconds)."""
    year = rng.randint(1992, 2015) if real_eop else rng.randint(1975, 2030)
    month = rng.choice([2, 3, 4, 5, 8, 9, 10, 11])
    day = rng.randint(5, 25)
    us = rng.randrange(0, 86400 * US) if rng.random() < 0.7 else rng.randrange(0, 86400) * US
    return datetime(year, month, day) + timedelta(microseconds=us)


class Clock:
    """Integer-microsecond time axis of one case: instant = base + us."""

    def __init__(self, L, base):
        self.L = L
        self.base = base
        self.d0 = L["Date"](base)

    def date(self, us):
        return self.L["Date"](self.base + timedelta(microseconds=int(us)))

    def us_float(self, date):
        """Offset (float microseconds) of a library Date from the base; read from the (day, second) pair."""
        return ((date._d - self.d0._d) * 86400.0 + (date._s - self.d0._s)) * 1e6

    def iso(self, us):
        return (self.base + timedelta(microseconds=int(us))).isoformat()


def vbytes(sv):
    return probe.arr(sv).tobytes()


def labels(sv):
    return (getattr(sv.form, "name", str(sv.form)), getattr(sv.frame, "name", str(sv.frame)))


def datekey(d):
    return (d._d, d._s)


# ---- fingerprints (invariant hook) -------------------------------------------------------------
def _prop_config(p):
    if p is None or isinstance(p, str):
        return repr(p)
    out = [type(p).__name__, str(id(p))]
    for k in ("step", "method", "tol", "sma"):
        if hasattr(p, k):
            out.append(f"{k}={getattr(p, k)!r}")
    fr = getattr(p, "frame", None)
    if fr is not None:
        out.append("frame=" + str(getattr(fr, "name", fr)))
    return "|".join(out)


def fp_state(sv):
    h = hashlib.sha1()
    h.update(type(sv).__name__.encode())
    h.update(np.ascontiguousarray(np.asarray(sv, dtype=float)).tobytes())
    data = sv._data
    for k in sorted(data):
        v = data[k]
        if k == "infos":
            continue
        if k == "propagator":
            h.update(_prop_config(v).encode())
            continue
        if v is None or (isinstance(v, (list, dict, tuple)) and len(v) == 0):
            continue  # lazily created defaults of the getters: not an observable change
        h.update(k.encode())
        probe._fp_value(v, h, 1)
    return h.hexdigest()


def fp_obj(obj, L):
    if isinstance(obj, L["Ephem"]):
        h = hashlib.sha1()
        for o in obj._orbits:
            h.update(fp_state(o).encode())
        h.update(repr((obj.method, obj.order, len(obj._orbits))).encode())
        return h.hexdigest()
    return fp_state(obj)


class Guard:
    """fingerprint before/after every call on the watched objects."""

    def __init__(self, ctx, L, kind, witness):
        self.ctx, self.L, self.kind, self.witness = ctx, L, kind, witness

    def call(self, obj, what, thunk):
        before = fp_obj(obj, self.L)
        try:
            return thunk()
        finally:
            after = fp_obj(obj, self.L)
            self.ctx.count("fingerprint-evaluated")
            self.ctx.expect(before == after, f"C08/{base_kind(self.kind)}-initial-object-modified",
                            dict(self.witness, call=what), f"{what}: the initial {self.kind} object changed during the call")


def base_kind(kind):
    """Key prefix for state/purity mechanisms: one per propagator class."""
    if kind.startswith("keplernum"):
        return "keplernum"
    if kind.startswith("ephem"):
        return "ephem"
    return kind


def grid_family(kind):
    """Key prefix for date-grid mechanisms: the code that walks the dates is shared per family
    (AnalyticalPropagator.iter/_iter + Date.range; Ephem.iter; KeplerNum._iter)."""
    if kind.startswith("keplernum"):
        return "keplernum"
    if kind.startswith("ephem"):
        return "ephem"
    return "analytical"


# ------------------------------------------------------------------------------------------------
# workload: objects
def tle_checksum(line):
    return str(sum(int(c) if c.isdigit() else (1 if c == "-" else 0) for c in line) % 10)


def _tle_exp(x):
    if x == 0:
        return " 00000-0"
    s = "-" if x < 0 else " "
    x = abs(x)
    e = int(math.floor(math.log10(x))) + 1
    m = int(round(x / 10 ** e * 1e5))
    if m == 100000:
        m, e = 10000, e + 1
    return f"{s}{m:05d}{'-' if e <= 0 else '+'}{abs(e)}"


def make_tle(rng, base):
    cls = rng.choice(["leo", "leo", "leo-drag", "molniya", "geo", "gps", "gto"])
    i = rng.uniform(0.5, 120.0)
    e = rng.uniform(0.0002, 0.02)
    n = rng.uniform(13.0, 15.8)
    bstar = rng.choice([0.0, 1.0, -1.0]) * 10 ** rng.uniform(-6, -3.5)
    if cls == "leo-drag":
        n, bstar = rng.uniform(15.5, 16.2), 10 ** rng.uniform(-4, -2.7)
    elif cls == "molniya":
        i, e, n = rng.uniform(62.5, 64.5), rng.uniform(0.6, 0.74), rng.uniform(2.0, 2.012)
    elif cls == "geo":
        i, e, n = rng.uniform(0.01, 8.0), rng.uniform(0.0001, 0.001), rng.uniform(1.0020, 1.0035)
    elif cls == "gps":
        i, e, n = rng.uniform(53, 57), rng.uniform(0.001, 0.02), rng.uniform(2.003, 2.008)
    elif cls == "gto":
        i, e, n = rng.uniform(3, 30), rng.uniform(0.70, 0.735), rng.uniform(2.2, 2.4)
    ep = base + timedelta(microseconds=rng.randrange(-3 * 86400 * US, 0))
    day = ep.timetuple().tm_yday + (ep.hour * 3600 + ep.minute * 60 + ep.second + ep.microsecond * 1e-6) / 86400.0
    norad = rng.randint(1, 99999)
    ndot = rng.uniform(-1e-4, 1e-4)
    l1 = "1 {:05d}U {:<8} {:02d}{:012.8f} {} {} {} 0 {:>4}".format(
        norad, f"{ep.year % 100:02d}{rng.randint(1, 150):03d}A", ep.year % 100, day,
        f"{ndot: 0.8f}".replace("0.", "."), " 00000-0", _tle_exp(bstar), rng.randint(1, 999))
    l2 = "2 {:05d} {:8.4f} {:8.4f} {:07d} {:8.4f} {:8.4f} {:11.8f}{:5d}".format(
        norad, i, rng.uniform(0, 359.99), int(e * 1e7), rng.uniform(0, 359.99), rng.uniform(0, 359.99), n, rng.randint(0, 99999))
    return {"cls": cls, "lines": [l1 + tle_checksum(l1), l2 + tle_checksum(l2)]}


def kep_numbers(rng, cls):
    if cls == "leo":
        a, e = rng.uniform(6.7e6, 8.0e6), 10 ** rng.uniform(-4, -1.7)
    elif cls == "ecc":
        rp = rng.uniform(6.8e6, 2.0e7)
        e = rng.uniform(0.1, 0.7)
        a = rp / (1 - e)
    elif cls == "geo":
        a, e = rng.uniform(4.1e7, 4.3e7), 10 ** rng.uniform(-4, -2)
    elif cls == "hyp":
        e = rng.uniform(1.1, 3.0)
        a = -rng.uniform(6.8e6, 3e7) / (e - 1)
    else:
        raise ValueError(cls)
    i = rng.uniform(0.02, math.pi - 0.02)
    M = rng.uniform(-1.0, 1.0) if cls == "hyp" else rng.uniform(0, 2 * math.pi)
    return [a, e, i, rng.uniform(0, 2 * math.pi), rng.uniform(0, 2 * math.pi), M]


INERTIAL = ["EME2000", "MOD", "TOD", "TEME", "G50"]


def make_spec(rng, L, kind, st, base, frames_job=False):
    """JSON-able description from which `build` makes as many fresh equal objects as needed."""
    spec = {"kind": kind, "base": base.isoformat(), "epoch_us": 0}
    if kind == "sgp4":
        spec.update(make_tle(rng, base))
        tle = L["Tle"]("\n".join(spec["lines"]))
        spec["epoch_us"] = int(round((tle.epoch.datetime - base).total_seconds() * 1e6))
        return spec
    if kind in ("kepler", "j2", "none") or kind.startswith("keplernum"):
        if kind == "kepler":
            cls = rng.choice(["leo", "ecc", "geo", "hyp"])
        elif kind.startswith("keplernum"):
            cls = rng.choice(["leo", "leo", "ecc-mild"])
        else:
            cls = rng.choice(["leo", "ecc", "geo"])
        if cls == "ecc-mild":
            rp = rng.uniform(6.9e6, 9e6)
            e = rng.uniform(0.02, 0.25)
            kep = [rp / (1 - e), e, rng.uniform(0.05, 3.0), rng.uniform(0, 6.28), rng.uniform(0, 6.28), rng.uniform(0, 6.28)]
        else:
            kep = kep_numbers(rng, cls)
        forms = ["keplerian_mean", "keplerian", "cartesian", "equinoctial", "keplerian_circular", "spherical", "keplerian_eccentric"]
        form = rng.choice(forms if cls != "hyp" else ["keplerian_mean", "keplerian", "cartesian", "spherical"])
        frame = rng.choice(INERTIAL) if (frames_job or rng.random() < 0.3) else "EME2000"
        if frames_job and kind.startswith("keplernum"):
            frame = rng.choice(["MOD", "TOD", "TEME", "G50"])
        if kind == "j2":
            frame = "EME2000" if not frames_job else frame
        date = L["Date"](base)
        sv = L["StateVector"](kep, date, "keplerian_mean", frame).copy(form=form)
        spec.update(orbit_cls=cls, form=form, frame=frame, coord=[float(x) for x in probe.arr(sv)])
        if kind.startswith("keplernum"):
            # internal step: w h <= 0.07 at pericentre for the interpolation error bound (see num_state_tol)
            a, e = kep[0], kep[1]
            rp = a * (1 - e)
            w = math.sqrt(MU * (1 + e) / rp ** 3)
            hmax = 0.07 / w
            method = kind.split("-", 1)[1]
            h = rng.choice([x for x in (10, 15, 20, 30, 40, 45, 60) if x <= hmax] or [10])
            spec.update(method=method, h=h, tol=rng.choice([1e-3, 1e-3, 1e-4, 1e-5, 1e-6, 1e-7]), w=w, a=a, e=e)
        return spec
    if kind == "cw":
        orient = rng.choice(["QSW", "TNW"])
        sma = rng.uniform(6.7e6, 4.3e7)
        coord = [rng.uniform(-3e3, 3e3) for _ in range(3)] + [rng.uniform(-3, 3) for _ in range(3)]
        mans = []
        for _ in range(rng.choice([0, 0, 1, 2, 3])):
            # one maneuver in five is dated exactly at the epoch ("burn now")
            t_us = 0 if rng.random() < 0.2 else rng.randrange(-3600 * US, 3600 * US)
            mans.append({"t_us": t_us, "dv": [rng.uniform(-0.5, 0.5) for _ in range(3)]})
        # the list is the caller's: in the order it was given (chronological or not -- what the results then mean is C16's
        # subject; here the list, like the rest of the initial orbit, must come out of every call as it went in)
        if rng.random() < 0.5:
            mans.sort(key=lambda m: m["t_us"])
        spec.update(orientation=orient, sma=sma, coord=coord, mans=mans)
        return spec
    if kind.startswith("ephem"):
        method = kind.split("-", 1)[1]
        order = rng.choice([2, 3, 5, 7, 8, 8, 8, 9, 12]) if method == "lagrange" else rng.choice([2, 8])
        n = order + rng.choice([0, 1, 2, 5, 12, 30])
        step_us = rng.choice([10, 30, 60, 60, 180]) * US + (rng.randrange(0, US) if rng.random() < 0.3 else 0)
        jitter = rng.random() < 0.3
        offs, t = [], rng.randrange(-1800 * US, 1800 * US)
        for j in range(n):
            offs.append(t)
            t += step_us if not jitter else int(step_us * rng.uniform(0.8, 1.2))
        kep = kep_numbers(rng, rng.choice(["leo", "ecc", "geo"]))
        holds = rng.choice(["statevector", "orbit"])
        spec.update(method=method, order=order, offs=offs, kep=kep, holds=holds, step_us=step_us)
        return spec
    raise ValueError(kind)


def build(spec, L, st, clock):
    """A fresh object equal to every other object built from the same spec."""
    kind = spec["kind"]
    Date = L["Date"]
    if kind == "sgp4":
        return L["Tle"]("\n".join(spec["lines"])).orbit()
    if kind in ("kepler", "j2", "none"):
        P = {"kepler": L["Kepler"], "j2": L["J2"], "none": L["NonePropagator"]}[kind]
        return L["Orbit"](spec["coord"], clock.date(0), spec["form"], spec["frame"], P())
    if kind.startswith("keplernum"):
        p = L["KeplerNum"](timedelta(seconds=spec["h"]), L["get_body"]("Earth"), method=spec["method"], tol=spec["tol"])
        return L["Orbit"](spec["coord"], clock.date(0), spec["form"], spec["frame"], p)
    if kind == "cw":
        from beyond.orbits.man import ImpulsiveMan

        hill = st["hill"][spec["orientation"]]
        p = L["CW"](spec["sma"], frame=hill)
        orb = L["Orbit"](spec["coord"], clock.date(0), "cartesian", hill, p)
        if spec["mans"]:
            orb.maneuvers = [ImpulsiveMan(clock.date(m["t_us"]), m["dv"]) for m in spec["mans"]]
        return orb
    if kind.startswith("ephem"):
        a, e, i, raan, argp, M = spec["kep"]
        r0, v0 = el.kep2cart(a, e, i, raan, argp, el.nu_from_M(e, M), MU)
        pts = []
        for off in spec["offs"]:
            r, v = kepler_uv.propagate(r0, v0, off / 1e6, MU)
            d = clock.date(off)
            if spec["holds"] == "orbit":
                pts.append(L["Orbit"](list(r) + list(v), d, "cartesian", "EME2000", L["Kepler"]()))
            else:
                pts.append(L["StateVector"](list(r) + list(v), d, "cartesian", "EME2000"))
        return L["Ephem"](pts, method=spec["method"], order=spec["order"])
    raise ValueError(kind)


def spec_epoch(spec):
    return spec["epoch_us"]


# ------------------------------------------------------------------------------------------------
# workload: iteration requests
def gen_step_us(rng, numerical=False):
    c = rng.random()
    if numerical:
        # output steps >= 1 s (see num_state_tol: a neighbouring date is then >= 7 km away)
        if c < 0.5:
            return rng.choice([1, 2, 5, 10, 30, 45, 60, 90, 120, 300]) * US
        if c < 0.8:
            return rng.randrange(1000, 300000) * 1000
        return rng.randrange(US, 200 * US)
    if c < 0.5:
        return rng.choice([1, 2, 5, 10, 30, 45, 60, 90, 120, 180, 300, 600]) * US
    if c < 0.8:
        return rng.randrange(500, 400000) * 1000  # millisecond granular, 0.5 s .. 400 s
    return rng.randrange(1000, 200 * US)  # microsecond granular, >= 1 ms


def gen_request(rng, spec, family):
    """One iteration request as integers (microseconds relative to the case base)."""
    kind = spec["kind"]
    epoch = spec_epoch(spec)
    req = {}
    is_ephem = kind.startswith("ephem")
    numerical = family == "numerical"
    far = 20 * 60 if numerical else 3 * 3600  # largest |start - epoch| (s)
    if is_ephem and rng.random() < 0.08:
        # documented refusal: a request reaching outside the table (strict=True is the default)
        first, last = spec["offs"][0], spec["offs"][-1]
        delta = rng.choice([1, 2, 1000, US, rng.randrange(1, 3600 * US)])
        side = rng.choice(["start-before-first", "stop-after-last", "date-in-list-outside"])
        if side == "start-before-first":
            return {"type": "sss", "outside": side, "start": first - delta, "start_eff": first - delta, "stop": rng.randrange(first, last + 1),
                    "step": max(1000, (last - first) // 5), "stop_kind": "date", "step_given": "pos", "step_omitted": rng.random() < 0.3,
                    "backward": False, "divides": False, "nsteps": 5, "start_class": "outside", "expected": []}
        if side == "stop-after-last":
            s0 = rng.randrange(first, last + 1)
            return {"type": "sss", "outside": side, "start": s0, "start_eff": s0, "stop": last + delta,
                    "step": max(1000, (last - first) // 5), "stop_kind": rng.choice(["date", "timedelta"]), "step_given": "pos",
                    "step_omitted": rng.random() < 0.3, "backward": False, "divides": False, "nsteps": 5, "start_class": "inside", "expected": []}
        pts = sorted(rng.randrange(first, last + 1) for _ in range(3))
        pts.insert(rng.randrange(4), rng.choice([first - delta, last + delta]))
        return {"type": "dates", "outside": side, "container": rng.choice(["list", "tuple", "generator"]), "order": "random",
                "expected": pts, "backward": False}
    if rng.random() < 0.62:
        req["type"] = "sss"
        step = gen_step_us(rng, numerical)
        nsteps = rng.choice([0, 0, 1, 2, 3, 5, 6, 7, 8, 9, 12, 25, 60])
        if numerical and nsteps * step > 2400 * US:
            step = max(US, 2400 * US // nsteps)
        divides = rng.random() < 0.4
        if is_ephem:
            first, last = spec["offs"][0], spec["offs"][-1]
            length = last - first
            # keep the request inside the table (outside = documented refusal, exercised separately)
            want = nsteps * step + (0 if divides else rng.randrange(1, step))
            if want > length:
                step = max(1000, length // (nsteps + 1))
                want = nsteps * step + (0 if divides else rng.randrange(1, step))
            want = min(want, length)
            sc = rng.choice(["omitted", "at", "inside", "inside"])
            backward = rng.random() < 0.3
            if backward:
                start = rng.randrange(first + want, last + 1) if sc == "inside" and last > first + want else last
                stop = start - want
                sc = "inside" if start != last else "at-last"
            else:
                start = first if sc in ("omitted", "at") else rng.randrange(first, last - want + 1)
                stop = start + want
            req.update(start=None if (sc == "omitted" and not backward) else start, start_class=sc, start_eff=start)
        else:
            sc = rng.choice(["omitted", "at", "before", "after"])
            off = 0
            if sc == "before":
                off = -rng.choice([rng.randrange(1, far * US), rng.randrange(1, far) * US])
            elif sc == "after":
                off = rng.choice([rng.randrange(1, far * US), rng.randrange(1, far) * US])
            start = epoch + off
            want = nsteps * step + (0 if divides else rng.randrange(1, step))
            backward = rng.random() < 0.45
            stop = start - want if backward else start + want
            req.update(start=None if sc == "omitted" else start, start_class=sc, start_eff=start)
        if is_ephem and len(spec["offs"]) > 2 and rng.random() < 0.15:
            # re-sampling at the spacing of the table's FIRST two points, from its first point: on an unevenly sampled table
            # (two rates, a gap, jitter) the requested grid is still start + k.step, not the stored nodes
            first, last = spec["offs"][0], spec["offs"][-1]
            step = spec["offs"][1] - spec["offs"][0]
            nsteps = (last - first) // step
            divides = (last - first) % step == 0
            want = nsteps * step + (0 if divides else min(rng.randrange(1, step), last - first - nsteps * step))
            backward = False
            sc = rng.choice(["omitted", "at"])
            start, stop = first, first + want
            req.update(start=None if sc == "omitted" else start, start_class=sc, start_eff=start, native_first_step=True)
        if want == 0:
            backward = False
        req.update(stop=stop, step=step, nsteps=nsteps, divides=divides, backward=backward,
                   stop_kind=rng.choice(["date", "timedelta"]),
                   step_given=("neg" if (backward and rng.random() < 0.5) else "pos"),
                   step_omitted=False)
        if is_ephem and rng.random() < 0.15 and not backward:
            req["step_omitted"] = True  # documented: the ephemeris' own nodes within [start, stop]
        if family == "numerical" and rng.random() < 0.12:
            req["step_omitted"] = True  # documented: the propagator's own step
        sgn = -1 if backward else 1
        req["expected"] = [req["start_eff"] + sgn * k * step for k in range(nsteps + 1)]
    else:
        req["type"] = "dates"
        req["container"] = rng.choice(["list", "tuple", "generator", "daterange", "daterange"])
        if is_ephem:
            first, last = spec["offs"][0], spec["offs"][-1]
            lo, hi = first, last
        else:
            lo, hi = epoch - min(far, 7200) * US, epoch + min(far, 7200) * US
        if req["container"] == "daterange":
            step = gen_step_us(rng, numerical)
            nsteps = rng.choice([1, 2, 3, 7, 8, 12, 30])
            if nsteps * step >= hi - lo:
                step = max(1000, (hi - lo) // (nsteps + 1))
            divides = rng.random() < 0.4
            want = nsteps * step + (0 if divides else rng.randrange(1, step))
            want = min(want, hi - lo)
            backward = rng.random() < 0.4
            start = rng.randrange(lo + want, hi + 1) if backward else rng.randrange(lo, hi - want + 1)
            stop = start - want if backward else start + want
            inclusive = rng.random() < 0.5
            sgn = -1 if backward else 1
            exp = [start + sgn * k * step for k in range(nsteps + 1)]
            if exp and exp[-1] == stop and not inclusive:
                exp = exp[:-1]
            req.update(start_eff=start, stop=stop, step=step, backward=backward, inclusive=inclusive, divides=divides,
                       nsteps=nsteps, expected=exp)
        else:
            order = rng.choice(["ascending", "ascending", "descending", "random"])
            n = rng.choice([1, 2, 3, 5, 9, 20]) if rng.random() > 0.04 else 0
            pts = [rng.randrange(lo, hi + 1) for _ in range(n)]
            if rng.random() < 0.2 and not is_ephem:
                pts.append(epoch)
            if is_ephem and rng.random() < 0.5 and n:
                pts[rng.randrange(n)] = rng.choice(spec["offs"])  # exactly a node
            if rng.random() < 0.15 and len(pts) > 1:
                pts.append(pts[0])  # a repeated date
            if order == "ascending":
                pts.sort()
            elif order == "descending":
                pts.sort(reverse=True)
            req.update(order=order, expected=pts, backward=(order == "descending"))
    return req


def call_kwargs(req, clock, L):
    """Turn the integer request into library arguments (new Date/timedelta objects at every call)."""
    Date = L["Date"]
    if req["type"] == "own":  # Ephem.iter() without step: the ephemeris' own nodes between optional bounds
        kw = {}
        if req.get("start") is not None:
            kw["start"] = clock.date(req["start"])
        if req.get("stop") is not None:
            kw["stop"] = clock.date(req["stop"])
        return kw
    if req["type"] == "sss":
        kw = {}
        if req["start"] is not None:
            kw["start"] = clock.date(req["start"])
        if req["stop_kind"] == "date":
            kw["stop"] = clock.date(req["stop"])
        else:
            kw["stop"] = timedelta(microseconds=req["stop"] - req["start_eff"])
        if not req["step_omitted"]:
            s = req["step"] if req["step_given"] == "pos" else -req["step"]
            kw["step"] = timedelta(microseconds=s)
        return kw
    c = req["container"]
    if c == "daterange":
        s = -req["step"] if req["backward"] else req["step"]
        return {"dates": Date.range(clock.date(req["start_eff"]), clock.date(req["stop"]), timedelta(microseconds=s),
                                    inclusive=req["inclusive"])}
    dates = [clock.date(u) for u in req["expected"]]
    if c == "tuple":
        return {"dates": tuple(dates)}
    if c == "generator":
        return {"dates": (d for d in dates)}
    return {"dates": dates}


# ------------------------------------------------------------------------------------------------
def num_state_tol(spec, req, date_us):
    """Tolerance (m) for 'iteration state == direct propagation' of the numerical propagator, or None
    when the clause is not decidable for the method.

    Both sides are order-8 Lagrange interpolations of Runge-Kutta nodes of the same method and step h.
      * always: DatedInterp works on float MJD abscissae (ulp 0.63 us): every node and the query are displaced
        by <= 0.31 us, i.e. <= v * 0.31 us in position, amplified by the Lebesgue function of the window
        (computed: 6.93 in an end interval of 8 equispaced nodes, 1.49 in the middle one).  Two interpolations
        of the same nodes through different windows therefore differ by <= (6.93 + 1.49 + 2) v 0.31 us
        = 2.5 cm at LEO speed (measured: up to 6 mm); margin 2.9 on this worst-case bound: quant = 30 v 0.315 us.
        (DESIGN's flat 5 mm was below this floor and fired on the unchanged tree: corrected, see report.)
      * start == epoch: both march the *same* nodes from the epoch (same arithmetic); they differ only by
        the interpolation window (edge window in the direct call): quant + 0.0131 (w h)^8 r (w = pericentre
        angular rate, w h <= 0.07 by construction => <= 5e-5 m), margin 100 on the truncation term.
      * start != epoch: the iteration marches epoch -> start, interpolates, then marches on a grid shifted
        against the one of the direct call.  Two discrete solutions of one ODE on different grids differ by
        at most the sum of the local truncation errors of all N steps marched on both paths times the
        growth of a position error along the track (1 + 3 w T):
            rk4      LTE = (w h)^5 / 120 * r            (h^5 y^(5) / 5! of circular motion)
            adaptive LTE <= the configured tol (the step is accepted only below it; 5th order term otherwise)
            euler    LTE = (w h)^2 / 2 * r = hundreds of metres per step: equality to a direct
                     propagation is not decidable -> not judged (counted), only same-node cases are.
        margin 20 on that bound.  Measured worst ratios are in the evidence (state:keplernum-*).
    A wrong yielded state (neighbouring date, other window, maneuver twice) is off by >= v * 1 s = 7 km
    (numerical requests use output steps >= 1 s).
    """
    m, h, w = spec["method"], spec["h"], spec["w"]
    r = spec["a"] * (1 + spec["e"])
    vp = w * spec["a"] * (1 - spec["e"])
    quant = 30 * vp * MJD_HALF_ULP_S
    interp = 0.0131 * (w * h) ** 8 * r
    epoch = spec["epoch_us"]
    start = req["start_eff"] if req["type"] == "sss" or req.get("container") == "daterange" else None
    same_nodes = start is not None and start == epoch and not req.get("backward")
    if same_nodes:
        return quant + 100 * interp
    if m == "euler":
        return None
    if start is None:
        start = epoch
    T = (abs(start - epoch) + abs(date_us - start) + abs(date_us - epoch)) / 1e6
    N = T / h + 24
    growth = 1 + 3 * w * T
    if m == "rk4":
        lte = (w * h) ** 5 / 120 * r
    else:
        lte = max(spec["tol"], (w * h) ** 6 / 720 * r)
    return 2 * quant * growth + 100 * interp + 20 * N * lte * growth


def record_stream(it, limit=5000):
    out = []
    for x in it:
        out.append(x)
        if len(out) > limit:
            break
    return out


def classify_exception(kind, req, exc):
    """Violation key naming the mechanism of an exception where a stream was promised."""
    fam = grid_family(kind)
    name = type(exc).__name__
    msg = str(exc)
    backward = bool(req.get("backward"))
    empty = req["type"] == "dates" and req.get("container") != "daterange" and len(req["expected"]) == 0
    if fam == "keplernum":
        if req["type"] == "dates" and name == "AttributeError" and "start" in msg:
            return "C08/keplernum-dates-list-attrerror"
        if backward:
            return "C08/keplernum-backward-range"
        if name == "ValueError" and "< order" in msg:
            return "C08/keplernum-span-shorter-than-order"
    if empty:
        return f"C08/{fam}-empty-dates-container-raises"
    tag = ("dates-" + req.get("container", "")) if req["type"] == "dates" else ("backward-range" if backward else "forward-range")
    return f"C08/{fam}-{tag}-raises-{name}"


def check_dates(ctx, kind, req, got_dates, clock, witness, sorted_by_date=False):
    """Compare yielded dates with the integer-microsecond model. Returns True if the streams match.

    sorted_by_date: the stream was read back from an Ephem (which sorts its points): only the multiset of
    dates is observable, the expected list is compared in ascending order."""
    fam = grid_family(kind)
    backward = bool(req.get("backward"))
    exp = list(req["expected"])
    got_dates = list(got_dates)
    if sorted_by_date:
        # bring both into the order of iteration (ascending table read back to front for a backward request)
        exp = sorted(exp, reverse=backward)
        if backward:
            got_dates.reverse()
    ctx.count("dates-model-evaluated")
    got_us = [clock.us_float(d) for d in got_dates]
    w = dict(witness, expected_n=len(exp), got_n=len(got_us),
             expected_first_last=[clock.iso(exp[0]), clock.iso(exp[-1])] if exp else [],
             got_first_last=[str(got_dates[0]), str(got_dates[-1])] if got_dates else [])
    dirname = "backward" if backward else "forward"
    offgrid_key = f"C08/{fam}-{req['type']}-{dirname}-dates-off-grid"
    if req.get("step_omitted") and fam == "keplernum":
        offgrid_key = "C08/keplernum-default-step-offgrid"
    if len(got_us) != len(exp):
        stop = req.get("stop")
        if backward:
            beyond = [g for g in got_us if stop is not None and g < stop - 0.5]
        else:
            beyond = [g for g in got_us if stop is not None and g > stop + 0.5]
        prefix_bad = [k for k, (g, e) in enumerate(zip(got_us, exp)) if abs(g - e) > 0.5]
        if not exp:
            key = f"C08/{fam}-empty-dates-container-yields-states"
            msg = f"empty dates container: {len(got_us)} states yielded"
        elif not got_us and backward and fam == "ephem" and req["type"] == "sss":
            key, msg = "C08/ephem-iter-backward-range-empty", "Ephem.iter with start > stop yields nothing, silently"
        elif not got_us and backward and fam == "keplernum":
            key, msg = "C08/keplernum-backward-range", "KeplerNum iteration with start > stop yields nothing"
        elif not got_us:
            key, msg = f"C08/{fam}-{req['type']}-{dirname}-range-empty", "nothing yielded"
        elif prefix_bad:
            k = prefix_bad[0]
            key = offgrid_key
            w = dict(w, index=k, expected=clock.iso(exp[k]), got=str(got_dates[k]))
            msg = f"yielded date #{k} = {got_dates[k]} is not the requested {clock.iso(exp[k])} ({len(got_us)} dates yielded, {len(exp)} requested)"
        elif beyond and req["type"] == "sss" and len(got_us) > len(exp):
            key = f"C08/{fam}-yields-beyond-stop"
            msg = f"{len(beyond)} yielded date(s) beyond stop {clock.iso(stop)} (last yielded {got_dates[-1]})"
        elif len(got_us) == len(exp) - 1:
            key = f"C08/{fam}-last-date-missing" + ("-stop-on-grid" if req.get("divides") else "")
            msg = f"the last date {clock.iso(exp[-1])} of the inclusive range was not yielded"
        else:
            key = f"C08/{fam}-{req['type']}-{dirname}-wrong-number-of-dates"
            msg = f"{len(got_us)} dates yielded, {len(exp)} requested"
        ctx.violation(key, w, msg)
        return False
    worst, at = 0.0, None
    for k, (g, e) in enumerate(zip(got_us, exp)):
        d = abs(g - e) * 1e-6
        if d > worst or at is None:
            worst, at = d, k
    if exp:
        w2 = dict(w, index=at, expected=clock.iso(exp[at]), got=str(got_dates[at]))
        key = offgrid_key
        return ctx.resid("dates:" + ("list" if req["type"] == "dates" else "grid"), worst, DATE_TOL, key=key, witness=w2,
                         msg=f"yielded date #{at} = {got_dates[at]} differs from the requested {clock.iso(exp[at])} by {worst:.3g} s")
    ctx.ok("empty-container-empty-stream")
    return True


def direct_reference(ctx, kind, spec, req, L, st, clock, samples, witness):
    """Compare yielded states with propagate() of a fresh equal object. samples = list of states."""
    bk = base_kind(kind)
    numerical = bk == "keplernum"
    fresh = build(spec, L, st, clock)
    for s in samples:
        try:
            ref = fresh.propagate(s.date)
        except Exception as exc:
            ctx.violation(f"C08/{bk}-direct-propagate-raises-{type(exc).__name__}", dict(witness, date=str(s.date), exc=repr(exc)),
                          f"iteration yielded a state at {s.date} but a direct propagate() to that date raised {exc!r}")
            continue
        w = dict(witness, date=str(s.date))
        a, b = probe.arr(s), probe.arr(ref)
        lab_ok = labels(s) == labels(ref) and datekey(s.date) == datekey(ref.date)
        ctx.expect(lab_ok, f"C08/{bk}-iter-labels-differ-from-propagate", dict(w, got=labels(s), ref=labels(ref)),
                   f"yielded form/frame/date {labels(s)} {s.date} vs direct {labels(ref)} {ref.date}")
        if numerical:
            tol = num_state_tol(spec, req, clock.us_float(s.date))
            if tol is None:
                ctx.count("state-not-judged:euler-shifted-grid")
                continue
            ctx.count("state-compared:keplernum")
            dr = float(np.linalg.norm(a[:3] - b[:3]))
            cls = "same-nodes" if (req.get("start_eff") == spec["epoch_us"] and not req.get("backward")) else "shifted-grid"
            ctx.resid(f"state:keplernum-{spec['method']}:{cls}", dr, tol,
                      key="C08/keplernum-iter-state-differs-from-propagate", witness=dict(w, got=a, ref=b, grid=cls),
                      msg=f"|dr| = {dr:.6g} m between the yielded state and a direct propagation to {s.date} ({cls})")
        elif kind == "ephem-linear" and a.tobytes() != b.tobytes():
            # Ephem.iter(step=None) yields copies of its own nodes; interpolate() at a node evaluates
            # y0 + ((y1 - y0) * dx) / dx, which rounds four times: |d| <= 4 * 2^-53 (|y0| + |y1|) per component,
            # <= sqrt(3) * 8 * 2^-53 |vector| in norm; tolerance 64 * 2^-53 (margin 4.6 on that worst case).
            ctx.count("state-compared:ephem-linear")
            ctx.count("ephem-linear:node-copy-vs-interpolation-rounding")
            d = max(float(np.linalg.norm(a[:3] - b[:3])) / max(float(np.linalg.norm(b[:3])), 1e-300),
                    float(np.linalg.norm(a[3:] - b[3:])) / max(float(np.linalg.norm(b[3:])), 1e-300))
            ctx.resid("state:ephem-linear:rel", d, 64 * 2.0 ** -53, key="C08/ephem-linear-iter-state-differs-from-propagate",
                      witness=dict(w, got=a, ref=b), msg=f"relative difference {d:.3g} between the yielded state and interpolate({s.date})")
        else:
            # same function of the same (initial numbers, date): bit for bit
            ctx.count(f"state-compared:{kind}")
            ctx.expect(a.tobytes() == b.tobytes(), f"C08/{bk}-iter-state-differs-from-propagate",
                       dict(w, got=a, ref=b, max_abs_diff=float(np.max(np.abs(a - b)))),
                       f"yielded state at {s.date} not bitwise equal to a direct propagation on a fresh equal object")


# ------------------------------------------------------------------------------------------------
def pick_kind(idx, rng, family):
    if family == "analytical":
        return ANALYTICAL[idx % len(ANALYTICAL)]
    if family == "numerical":
        return "keplernum-" + NUM_METHODS[idx % len(NUM_METHODS)]
    # frames job: propagators whose binding converts frames (Sgp4 -> TEME, KeplerNum -> EME2000) + Kepler in of-date frames
    return ["sgp4", "keplernum-rk4", "kepler", "j2", "none"][idx % 5]


def run_case(ctx, job, idx, rng, st):
    if job["mode"] == "stream":
        return stream_case(ctx, job, idx, rng, st)
    return history_case(ctx, job, idx, rng, st)


def describe_req(req, clock):
    d = {k: v for k, v in req.items() if k != "expected"}
    d["n_expected"] = len(req["expected"])
    if req["expected"]:
        d["expected_first"] = clock.iso(req["expected"][0])
        d["expected_last"] = clock.iso(req["expected"][-1])
    if req["type"] == "dates" and req.get("container") != "daterange":
        d["dates_us"] = list(req["expected"])[:40]
    return d


def stream_case(ctx, job, idx, rng, st):
    L = st["L"]
    family = job["family"]
    kind = pick_kind(idx, rng, family)
    base = base_datetime(rng)
    clock = Clock(L, base)
    spec = make_spec(rng, L, kind, st, base)
    req = gen_request(rng, spec, family)
    bk = base_kind(kind)
    is_ephem = kind.startswith("ephem")
    numerical = bk == "keplernum"

    if numerical and req["type"] == "sss" and rng.random() < 0.45:
        # make sure enough numerical cases are inside today's working envelope (forward, span >= 8 internal steps)
        h = spec["h"] * US
        req["backward"] = False
        req["step_given"] = "pos"
        nint = rng.choice([8, 9, 12, 20, 40])
        span = nint * h + (0 if req["divides"] else rng.randrange(1, h))
        req["step"] = rng.choice([req["step"], h, h // 2, 2 * h, 7 * US + 13])
        if span // req["step"] > 300:
            req["step"] = span // 300
        req["nsteps"] = span // req["step"]
        req["stop"] = req["start_eff"] + (req["nsteps"] * req["step"] if req["divides"] else span)
        if not req["divides"] and (req["stop"] - req["start_eff"]) % req["step"] == 0:
            req["stop"] += 1
        req["expected"] = [req["start_eff"] + k * req["step"] for k in range((req["stop"] - req["start_eff"]) // req["step"] + 1)]
        req["nsteps"] = len(req["expected"]) - 1
        req["envelope"] = True

    api = rng.choice(["iter", "ephemeris", "ephem"])
    use_listeners = (not numerical) and kind not in ("none", "cw") and req.get("container") != "generator" and \
        req.get("order") not in ("random",) and rng.random() < 0.2
    descr = {"spec": spec, "req": describe_req(req, clock), "api": api, "listeners": use_listeners}
    ctx.case(descr, nontrivial=len(req["expected"]) >= 2)
    witness = dict(descr)

    # ---- coverage classes
    ctx.count(f"stream:{kind}")
    ctx.count("api:" + api)
    if req["type"] == "sss":
        ctx.count("dir:backward" if req["backward"] else "dir:forward")
        ctx.count("divides:yes" if req["divides"] else "divides:no")
        sc = req["start_class"]
        ctx.count({"omitted": "start:omitted", "at": "start:at-epoch", "before": "start:before-epoch", "after": "start:after-epoch",
                   "inside": "start:inside-table", "at-last": "start:at-last-node", "outside": "start:outside-table"}[sc])
        ctx.count("stop:" + req["stop_kind"])
        if req["nsteps"] < 7:
            ctx.count("span:shorter-than-order")
        if req["nsteps"] == 0 and not req["divides"]:
            ctx.count("span:step-larger-than-span")
        if req["step_omitted"]:
            ctx.count("step:omitted")
        if req.get("native_first_step") and not req["step_omitted"]:
            offs_ = spec["offs"]
            uneven = any(offs_[j + 1] - offs_[j] != req["step"] for j in range(len(offs_) - 1))
            ctx.count("ephem:resampled-at-first-spacing:" + ("uneven-table" if uneven else "regular-table"))
        if req["backward"]:
            ctx.count("backward-step-given:" + req["step_given"])
    else:
        ctx.count("container:" + req["container"])
        if req["container"] == "daterange":
            ctx.count("dir:backward" if req["backward"] else "dir:forward")
            ctx.count("daterange-inclusive:" + str(req["inclusive"]))
        else:
            ctx.count("list-order:" + req["order"])
            if not req["expected"]:
                ctx.count("container:empty")

    obj = build(spec, L, st, clock)
    guard = Guard(ctx, L, kind, witness)
    listeners = [L["NodeListener"](), L["ApsideListener"]()] if use_listeners else None
    if use_listeners:
        ctx.count("with-listeners")

    if req["type"] == "sss" and req["step_omitted"] and is_ephem:
        # documented: own nodes within [start, stop]
        lo, hi = req["start_eff"], req["stop"]
        req["expected"] = [o for o in spec["offs"] if lo <= o <= hi]
    if req["type"] == "sss" and req["step_omitted"] and numerical:
        h = spec["h"] * US
        sgn = -1 if req["backward"] else 1
        span = abs(req["stop"] - req["start_eff"])
        req["step"] = h
        req["expected"] = [req["start_eff"] + sgn * k * h for k in range(span // h + 1)]

    def produce():
        kw = call_kwargs(req, clock, L)
        if listeners is not None:
            kw["listeners"] = listeners
        if api == "ephem":
            eph = obj.ephem(**kw)
            return list(eph._orbits), True
        gen = obj.iter(**kw) if api == "iter" else obj.ephemeris(**kw)
        return record_stream(gen), False

    if req.get("outside"):
        ctx.count("ephem-outside-request:" + req["outside"])
        try:
            stream, _ = guard.call(obj, f"{api}({req['type']})", produce)
        except ValueError:
            ctx.ok("ephem-out-of-range-refused")
            return
        except Exception as exc:
            ctx.violation(f"C08/ephem-out-of-range-raises-{type(exc).__name__}", dict(witness, exc=repr(exc)), f"{exc!r} instead of ValueError")
            return
        ctx.violation("C08/ephem-out-of-range-not-refused", dict(witness, yielded=len(stream)),
                      f"request reaching outside the table ({req['outside']}) produced {len(stream)} states instead of a ValueError")
        return

    try:
        stream, sorted_by_date = guard.call(obj, f"{api}({req['type']})", produce)
    except ValueError as exc:
        if is_ephem and ("not in range" in str(exc)):
            # the request was generated inside the table: a refusal here is a defect unless backward (then S-5 class)
            ctx.violation(f"C08/ephem-in-range-request-refused", dict(witness, exc=repr(exc)), f"in-range request refused: {exc!r}")
            return
        ctx.violation(classify_exception(kind, req, exc), dict(witness, exc=repr(exc)), f"{api}: {exc!r}")
        return
    except Exception as exc:
        ctx.violation(classify_exception(kind, req, exc), dict(witness, exc=repr(exc)), f"{api}: {exc!r}")
        return

    samples = [s for s in stream if getattr(s, "event", None) is None]
    events = [s for s in stream if getattr(s, "event", None) is not None]
    if events:
        ctx.count("streams-with-events")
    ok = check_dates(ctx, kind, req, [s.date for s in samples], clock, witness, sorted_by_date=sorted_by_date)
    if numerical and ok:
        ctx.count("numerical-stream-completed")
    # (the order of *events* inside the stream is C10's subject; not judged here)
    # states vs direct propagation on a fresh equal object
    if samples:
        if numerical:
            pick = samples if len(samples) <= 3 else [samples[0], samples[-1], samples[len(samples) // 2]] + \
                [samples[rng.randrange(len(samples))] for _ in range(1)]
        else:
            pick = samples if len(samples) <= 24 else [samples[0], samples[-1]] + [samples[rng.randrange(len(samples))] for _ in range(22)]
        direct_reference(ctx, kind, spec, req, L, st, clock, pick, witness)

    # with listeners: the samples must be the very same as without listeners (bitwise), on a fresh object
    if ok and use_listeners and samples and api != "ephem":
        other = build(spec, L, st, clock)
        kw = call_kwargs(req, clock, L)
        try:
            plain = record_stream(other.iter(**kw))
        except Exception:
            plain = None
        if plain is not None and len(plain) == len(samples):
            same = all(vbytes(a) == vbytes(b) and datekey(a.date) == datekey(b.date) for a, b in zip(plain, samples))
            ctx.expect(same, f"C08/{bk}-samples-depend-on-listeners", witness, "samples of an iteration change when listeners are attached")


# ------------------------------------------------------------------------------------------------
# history / purity
def result_sig(res):
    """Bitwise signature of an answer (one state or a recorded stream)."""
    if isinstance(res, list):
        return [result_sig(x) for x in res]
    ev = getattr(res, "event", None)
    return (datekey(res.date), vbytes(res), labels(res), None if ev is None else str(ev))


def gen_queries(rng, spec, n):
    """Query multiset: ('p', us) propagate(Date), ('pt', us) propagate(timedelta), ('i', req) small iteration."""
    kind = spec["kind"]
    is_ephem = kind.startswith("ephem")
    numerical = kind.startswith("keplernum")
    epoch = spec_epoch(spec)
    qs = []
    for _ in range(n):
        c = rng.random()
        if is_ephem:
            first, last = spec["offs"][0], spec["offs"][-1]
            if c < 0.7:
                u = rng.choice(spec["offs"]) if rng.random() < 0.3 else rng.randrange(first, last + 1)
                qs.append(("p", u))
            else:
                step = max(1000, (last - first) // rng.choice([4, 7, 11]))
                s0 = rng.randrange(first, last - 3 * step + 1)
                qs.append(("i", {"type": "sss", "start": s0, "start_eff": s0, "stop": s0 + 2 * step + step // 3, "step": step,
                                 "stop_kind": "date", "step_given": "pos", "step_omitted": False, "backward": False,
                                 "expected": [s0, s0 + step, s0 + 2 * step]}))
            continue
        span = 2 * 3600 * US if not numerical else 15 * 60 * US
        u = epoch + rng.randrange(-span, span)
        if rng.random() < 0.1:
            u = epoch
        if c < 0.55:
            qs.append(("p", u))
        elif c < 0.7 and kind not in ("none",):
            qs.append(("pt", u))
        else:
            step = rng.choice([30, 60, 97]) * US
            if numerical:
                h = spec["h"] * US
                k = rng.choice([8, 9, 11])
                s0 = epoch + rng.choice([0, rng.randrange(0, span)])
                qs.append(("i", {"type": "sss", "start": s0, "start_eff": s0, "stop": s0 + k * h, "step": 3 * h + 1000, "stop_kind": "date",
                                 "step_given": "pos", "step_omitted": False, "backward": False,
                                 "expected": [s0 + j * (3 * h + 1000) for j in range(k * h // (3 * h + 1000) + 1)]}))
            else:
                back = rng.random() < 0.4
                sgn = -1 if back else 1
                qs.append(("i", {"type": "sss", "start": u, "start_eff": u, "stop": u + sgn * (3 * step + step // 2), "step": step,
                                 "stop_kind": rng.choice(["date", "timedelta"]), "step_given": "pos", "step_omitted": False,
                                 "backward": back, "expected": [u + sgn * j * step for j in range(4)]}))
    return qs


def answer(obj, q, clock, L, spec, listeners=None):
    t, a = q
    if t == "p":
        return obj.propagate(clock.date(a))
    if t == "pt":
        return obj.propagate(timedelta(microseconds=a - spec_epoch(spec)))
    kw = call_kwargs(a, clock, L)
    if listeners is not None:
        kw["listeners"] = listeners
    return record_stream(obj.iter(**kw))


def qdescr(q, clock):
    t, a = q
    if t in ("p", "pt"):
        return [t, clock.iso(a)]
    if a["type"] == "own":
        return ["own-nodes", None if a.get("start") is None else clock.iso(a["start"]), None if a.get("stop") is None else clock.iso(a["stop"])]
    return [t, clock.iso(a["start_eff"]), clock.iso(a["stop"]), a["step"] / 1e6]


def clear_memoize():
    n = 0
    from beyond.frames import iau1980

    mods = [iau1980]
    try:
        from beyond.frames import iau2010

        mods.append(iau2010)
    except Exception:
        pass
    for mod in mods:
        for name in dir(mod):
            f = getattr(mod, name)
            c = getattr(f, "_cache", None)
            if isinstance(c, dict) and callable(f):
                n += len(c)
                c.clear()
    return n


def compare_answers(ctx, kind, spec, ref, got, key, witness, what):
    """Bitwise for analytical propagators/ephemerides; <= 1e-6 m for the numerical one."""
    bk = base_kind(kind)
    numerical = bk == "keplernum"
    rs, gs = result_sig(ref), result_sig(got)
    if not isinstance(rs, list):
        rs, gs = [rs], [gs]
    if len(rs) != len(gs):
        ctx.violation(key, dict(witness, what=what, ref_n=len(rs), got_n=len(gs)), f"{what}: {len(gs)} results instead of {len(rs)}")
        return False
    ok = True
    for k, (r, g) in enumerate(zip(rs, gs)):
        if numerical:
            a, b = np.frombuffer(r[1]), np.frombuffer(g[1])
            d = float(np.linalg.norm(a[:3] - b[:3]))
            ok &= ctx.resid("history:keplernum:pos", d, NUM_HISTORY_TOL, key=key,
                            witness=dict(witness, what=what, index=k, ref=a, got=b), msg=f"{what}: |dr| = {d:.3g} m")
            ok &= ctx.expect(r[0] == g[0] and r[2] == g[2], key, dict(witness, what=what, index=k), f"{what}: date/form/frame differ")
            if r[1] == g[1]:
                ctx.count("history-numerical-bitwise-equal")
            else:
                ctx.count("history-numerical-not-bitwise")
        else:
            ctx.count("history-compared-bitwise")
            if r != g:
                a, b = np.frombuffer(r[1]), np.frombuffer(g[1])
                ok = False
                ctx.violation(key, dict(witness, what=what, index=k, ref=a, got=b, ref_date=r[0], got_date=g[0], ref_labels=r[2],
                                        got_labels=g[2], ref_event=r[3], got_event=g[3],
                                        max_abs_diff=float(np.max(np.abs(a - b))) if a.shape == b.shape else None),
                              f"{what}: answer #{k} differs from the answer of a fresh object")
            else:
                ctx.ok()
    return ok


def history_case(ctx, job, idx, rng, st):
    L = st["L"]
    family = job["family"]
    frames_job = family == "frames"
    kind = pick_kind(idx, rng, family)
    bk = base_kind(kind)
    numerical = bk == "keplernum"
    is_ephem = kind.startswith("ephem")
    base = base_datetime(rng, real_eop=frames_job)
    clock = Clock(L, base)
    spec = make_spec(rng, L, kind, st, base, frames_job=frames_job)
    nq = rng.choice([3, 4, 5]) if numerical else rng.choice([4, 6, 8, 10])
    qs = gen_queries(rng, spec, nq)
    if is_ephem:
        # own-node iterations (no step): whole table and a sub-range
        offs = spec["offs"]
        i0 = rng.randrange(0, len(offs))
        i1 = rng.randrange(i0, len(offs))
        qs = [("i", {"type": "own"}), ("i", {"type": "own", "start": offs[i0], "stop": offs[i1]})] + qs
    scenarios = ["shuffle", "interleave", "listener-reuse", "inplace-edit", "shared-propagator-sequential",
                 "shared-propagator-interleaved", "copy-made", "generator-interleave", "edit-returned-state"]
    if frames_job:
        scenarios = ["cold-cache", "cold-cache", "shuffle", "interleave"]
    if is_ephem:
        scenarios = ["shuffle", "interleave", "listener-reuse", "generator-interleave", "edit-returned-state", "reexpressed-in-place"]
    if kind in ("none", "cw"):
        scenarios = [s for s in scenarios if s != "listener-reuse"]
    if numerical:
        scenarios = [s for s in scenarios if s != "listener-reuse"]
    scen = scenarios[(idx // 7) % len(scenarios)]
    descr = {"spec": spec, "queries": [qdescr(q, clock) for q in qs], "scenario": scen}
    ctx.case(descr, nontrivial=True)
    ctx.count(f"history:{kind}")
    ctx.count("scenario:" + scen)
    witness = dict(descr)
    guard = Guard(ctx, L, kind, witness)

    def fresh():
        return build(spec, L, st, clock)

    def safe_answer(obj, q, what, listeners=None, guard_obj=True):
        try:
            if guard_obj:
                return guard.call(obj, what, lambda: answer(obj, q, clock, L, spec, listeners))
            return answer(obj, q, clock, L, spec, listeners)
        except Exception as exc:
            ctx.violation(f"C08/{bk}-history-{scen}-raises-{type(exc).__name__}", dict(witness, query=qdescr(q, clock), what=what, exc=repr(exc)),
                          f"{what}: {exc!r}")
            return None

    if frames_job and scen == "cold-cache":
        clear_memoize()
    # (i) reference: every query on its own fresh object
    ref = []
    for q in qs:
        r = safe_answer(fresh(), q, "fresh-object")
        if r is None:
            return
        ref.append(r)

    if scen == "shuffle":
        obj = fresh()
        for rep in range(2 if numerical else 3):
            order = list(range(len(qs))) + [rng.randrange(len(qs)) for _ in range(2)]  # repetitions: number of earlier calls
            rng.shuffle(order)
            for j in order:
                got = safe_answer(obj, qs[j], f"shuffled order #{rep}")
                if got is None:
                    return
                compare_answers(ctx, kind, spec, ref[j], got, f"C08/{bk}-result-depends-on-call-order", dict(witness, order=order, query=qdescr(qs[j], clock)),
                                f"one object, shuffled order {order}")
    elif scen == "cold-cache":
        obj = fresh()
        for rep in range(2):
            order = list(range(len(qs)))
            rng.shuffle(order)
            for j in order:
                if rep == 1 and rng.random() < 0.5:
                    clear_memoize()
                got = safe_answer(obj, qs[j], "warm/cold memoize caches")
                if got is None:
                    return
                compare_answers(ctx, kind, spec, ref[j], got, f"C08/{bk}-result-depends-on-memoize-cache-state",
                                dict(witness, query=qdescr(qs[j], clock)), "cold vs warm memoize caches")
    elif scen == "interleave":
        obj = fresh()
        okind = rng.choice(["kepler", "j2", "sgp4", "none"]) if not is_ephem else "kepler"
        ospec = make_spec(rng, L, okind, st, base, frames_job=frames_job)
        other = build(ospec, L, st, clock)
        lst = [L["NodeListener"](), L["ApsideListener"]()]
        order = list(range(len(qs)))
        rng.shuffle(order)
        for j in order:
            act = rng.choice(["other-propagate", "other-iter", "register-frame", "listener-iter", "partial-generator", "same-class-propagate"])
            ctx.count("interleaved:" + act)
            try:
                if act == "other-propagate":
                    other.propagate(clock.date(rng.randrange(-3600 * US, 3600 * US) + spec_epoch(ospec)))
                elif act == "other-iter":
                    list(other.iter(stop=timedelta(seconds=300), step=timedelta(seconds=100)))
                elif act == "register-frame" and st["registered"] < 150:
                    st["registered"] += 1
                    nm = f"V{job['name'][-3:]}{ctx.shard}x{idx}x{st['registered']}"
                    if rng.random() < 0.5:
                        from beyond.frames import create_station

                        create_station(nm, (rng.uniform(-80, 80), rng.uniform(-180, 180), rng.uniform(0, 2000)))
                    else:
                        other.as_frame(nm, orientation=rng.choice(["QSW", "TNW", None]))
                elif act == "listener-iter" and not numerical and kind not in ("none", "cw"):
                    if is_ephem:
                        list(obj.iter(listeners=lst))
                    else:
                        list(obj.iter(stop=timedelta(seconds=3000), step=timedelta(seconds=300), listeners=lst))
                elif act == "partial-generator" and not numerical:
                    if is_ephem:
                        g = obj.iter()
                    else:
                        g = obj.iter(stop=timedelta(seconds=3000), step=timedelta(seconds=300))
                    next(g)
                    st.setdefault("dangling", []).append(g)
                    st["dangling"] = st["dangling"][-4:]
                elif act == "same-class-propagate" and not is_ephem:
                    o2 = build(make_spec(rng, L, kind, st, base, frames_job=frames_job), L, st, clock)
                    o2.propagate(clock.date(rng.randrange(-600 * US, 600 * US) + spec_epoch(spec)) if kind != "sgp4" else timedelta(seconds=100))
            except Exception as exc:  # an unrelated call failing is not this property's subject
                ctx.count("interleaved-call-raised:" + type(exc).__name__)
            got = safe_answer(obj, qs[j], f"after unrelated call '{act}'")
            if got is None:
                return
            compare_answers(ctx, kind, spec, ref[j], got, f"C08/{bk}-result-depends-on-interleaved-{act}",
                            dict(witness, interleaved=act, query=qdescr(qs[j], clock)), f"after unrelated call '{act}'")
    elif scen == "edit-returned-state":
        # what propagate()/iter() hand out belongs to the caller: editing it in place (numbers, form, frame, metadata)
        # must not show in what the same object answers afterwards
        obj = fresh()
        for rep in range(2):
            order = list(range(len(qs)))
            rng.shuffle(order)
            for j in order:
                got = safe_answer(obj, qs[j], f"edit-returned-state pass #{rep}")
                if got is None:
                    return
                compare_answers(ctx, kind, spec, ref[j], got, f"C08/{bk}-result-depends-on-edits-of-returned-states",
                                dict(witness, query=qdescr(qs[j], clock), repetition=rep), "after earlier results were edited in place")
                items = got if isinstance(got, list) else [got]
                for it_ in items:
                    how = rng.choice(["values", "values", "form", "frame", "metadata"])
                    ctx.count("returned-state-edit:" + how)
                    try:
                        if how == "values":
                            it_[:] = np.asarray(it_) * 1.5 + 1.0
                        elif how == "form":
                            it_.form = "spherical" if it_.form.name != "spherical" else "cartesian"
                        elif how == "frame" and kind not in ("cw",) and not frames_job:
                            it_.frame = "MOD" if str(it_.frame) != "MOD" else "EME2000"
                        else:
                            it_.name = "edited"
                            if it_.maneuvers:
                                it_.maneuvers.clear()
                    except Exception as exc:  # editing one's own copy failing is not this property's subject
                        ctx.count("returned-state-edit-raised:" + type(exc).__name__)
    elif scen == "reexpressed-in-place":
        # round-7 seed: an ephemeris that has already interpolated is re-expressed in place (frame / form setter), then asked
        # again: it must answer like an equal ephemeris that received the same setter call without ever having been asked
        how = rng.choice(["frame", "frame", "form"])
        target = rng.choice(["MOD", "TOD", "TEME", "ITRF", "G50"]) if how == "frame" else rng.choice(["spherical", "cylindrical"])

        def reexpress(o):
            if how == "frame":
                o.frame = target
            else:
                o.form = target

        used = fresh()
        for q in qs[2:2 + max(1, (len(qs) - 2) // 2)]:
            if safe_answer(used, q, "before the ephemeris is re-expressed") is None:
                return
        try:
            reexpress(used)
        except Exception as exc:
            ctx.count("reexpress-setup-raised:" + type(exc).__name__)
            return
        ctx.count("reexpressed-in-place:" + how)
        for q in qs:
            cold = fresh()
            try:
                reexpress(cold)
            except Exception as exc:
                ctx.count("reexpress-setup-raised:" + type(exc).__name__)
                return
            r = safe_answer(cold, q, "re-expressed, never asked before", guard_obj=False)
            got = safe_answer(used, q, "re-expressed after earlier requests", guard_obj=False)
            if r is None or got is None:
                return
            compare_answers(ctx, kind, spec, r, got, f"C08/{bk}-answers-of-a-reexpressed-ephemeris-depend-on-earlier-requests",
                            dict(witness, setter=how, target=target, query=qdescr(q, clock)),
                            f"ephemeris re-expressed in place ({how} = {target}) after earlier requests")
    elif scen == "listener-reuse":
        # the same listener objects over three consecutive iterations of one object and across another object
        iq = [q for q in qs if q[0] == "i"]
        if is_ephem:
            s0, s1 = spec["offs"][0], spec["offs"][-1]
            step = max(1000, (s1 - s0) // 9)
            big = {"type": "sss", "start": s0, "start_eff": s0, "stop": s1, "step": step, "stop_kind": "date", "step_given": "pos",
                   "step_omitted": False, "backward": False, "expected": []}
        else:
            u = spec_epoch(spec) + rng.randrange(-3600 * US, 3600 * US)
            back = rng.random() < 0.4
            sgn = -1 if back else 1
            big = {"type": "sss", "start": u, "start_eff": u, "stop": u + sgn * 7000 * US, "step": rng.choice([120, 300, 421]) * US,
                   "stop_kind": "date", "step_given": "pos", "step_omitted": False, "backward": back, "expected": []}
        if rng.random() < 0.5:
            # the same grid handed over as an explicit list of dates (the other documented way of iterating)
            sg = -1 if big["backward"] else 1
            nk = abs(big["stop"] - big["start"]) // big["step"]
            big = dict(big, type="dates", container="list", order="descending" if big["backward"] else "ascending",
                       expected=[big["start"] + sg * k * big["step"] for k in range(nk + 1)])
            ctx.count("listener-reuse:dates-mode")
        else:
            ctx.count("listener-reuse:range-mode")
        q_big = ("i", big)
        mk = lambda: [L["NodeListener"](), L["ApsideListener"]()]
        ref_big = safe_answer(fresh(), q_big, "fresh listeners", listeners=mk())
        if ref_big is None:
            return
        if any(getattr(s, "event", None) is not None for s in ref_big):
            ctx.count("listener-reuse:events-present")
        lst = mk()
        obj = fresh()
        for rep in range(3):
            if rep == 1:
                # something else in between with the same listener objects: another range / another orbit
                if iq:
                    safe_answer(obj, iq[0], "other range, same listeners", listeners=lst)
                if not is_ephem:
                    o2 = build(make_spec(rng, L, rng.choice(["kepler", "j2"]), st, base), L, st, clock)
                    try:
                        list(o2.iter(stop=timedelta(seconds=4000), step=timedelta(seconds=400), listeners=lst))
                    except Exception as exc:
                        ctx.count("interleaved-call-raised:" + type(exc).__name__)
            got = safe_answer(obj, q_big, f"re-used listeners, iteration #{rep}", listeners=lst)
            if got is None:
                return
            compare_answers(ctx, kind, spec, ref_big, got, f"C08/{bk}-stream-depends-on-listener-reuse",
                            dict(witness, query=qdescr(q_big, clock), repetition=rep), f"re-used listener objects, iteration #{rep}")
    elif scen == "inplace-edit":
        # one object answers a query, is then edited in place to other numbers, and must answer like a fresh
        # object holding the new numbers (the Sgp4 wrapper caches the TLE by object identity)
        spec2 = make_spec(rng, L, kind, st, base, frames_job=frames_job)
        obj = fresh()
        for q in qs[:2]:
            safe_answer(obj, q, "before the edit")
        target = build(spec2, L, st, clock)
        mode = rng.choice(["values", "values", "date"])
        try:
            if kind == "sgp4":
                if mode == "date":
                    obj.date = target.date
                    spec_after = dict(spec)
                    ref_obj = build(spec, L, st, clock)
                    ref_obj.date = target.date
                else:
                    obj[:] = probe.arr(target)
                    ref_obj = build(spec, L, st, clock)
                    ref_obj[:] = probe.arr(target)
            else:
                if mode == "date":
                    newd = clock.date(rng.randrange(-3600 * US, 3600 * US))
                    obj.date = newd
                    ref_obj = build(spec, L, st, clock)
                    ref_obj.date = newd
                else:
                    vals = probe.arr(target.copy(form=spec["form"])) if kind != "cw" else probe.arr(target)
                    if not np.all(np.isfinite(vals)):
                        ctx.count("inplace-edit-setup:non-finite-target")
                        return
                    obj[:] = vals
                    ref_obj = build(spec, L, st, clock)
                    ref_obj[:] = vals
        except Exception as exc:
            ctx.count("inplace-edit-setup-raised:" + type(exc).__name__)
            return
        ctx.count("inplace-edit:" + mode)
        for q in qs:
            if q[0] == "pt":
                continue
            try:
                r = answer(ref_obj, q, clock, L, spec)  # never used before the edit
                ref_obj = None
            except Exception as exc:
                ctx.count("inplace-edit-ref-raised:" + type(exc).__name__)
                return
            got = safe_answer(obj, q, "after the in-place edit", guard_obj=False)
            if got is None:
                return
            key = "C08/sgp4-stale-tle-after-inplace-edit" if kind == "sgp4" else f"C08/{bk}-stale-state-after-inplace-edit"
            compare_answers(ctx, kind, spec, r, got, key, dict(witness, edit=mode, query=qdescr(q, clock), new_values=probe.arr(obj)),
                            f"orbit edited in place ({mode}) between two calls")
            # a fresh reference object per query
            ref_obj = build(spec, L, st, clock)
            if mode == "date":
                ref_obj.date = obj.date
            else:
                ref_obj[:] = probe.arr(obj)
    elif scen in ("shared-propagator-sequential", "shared-propagator-interleaved"):
        # two different orbits holding the *same* propagator object
        spec2 = make_spec(rng, L, kind, st, base, frames_job=frames_job)
        a, b = fresh(), build(spec2, L, st, clock)
        if kind == "cw":
            spec2 = dict(spec2, orientation=spec["orientation"], sma=spec["sma"])
            b = build(spec2, L, st, clock)
        if numerical:  # the shared propagator object has A's configuration: the reference for B must have it too
            spec2 = dict(spec2, h=spec["h"], method=spec["method"], tol=spec["tol"])
            b = build(spec2, L, st, clock)
        b.propagator = a.propagator
        qs2 = gen_queries(rng, spec2, len(qs))
        ref2 = []
        for q in qs2:
            try:
                ref2.append(answer(build(spec2, L, st, clock), q, clock, L, spec2))
            except Exception as exc:
                ctx.count("shared-propagator-ref-raised:" + type(exc).__name__)
                return
        if scen == "shared-propagator-sequential":
            for j in range(len(qs)):
                got = safe_answer(a, qs[j], "orbit A, propagator shared with orbit B")
                if got is None:
                    return
                compare_answers(ctx, kind, spec, ref[j], got, f"C08/{bk}-shared-propagator-sequential-calls",
                                dict(witness, spec_b=spec2, query=qdescr(qs[j], clock)), "two orbits share one propagator object, calls alternate (A)")
                try:
                    got2 = answer(b, qs2[j], clock, L, spec2)
                except Exception as exc:
                    ctx.violation(f"C08/{bk}-history-{scen}-raises-{type(exc).__name__}", dict(witness, spec_b=spec2, exc=repr(exc)), repr(exc))
                    return
                compare_answers(ctx, kind, spec2, ref2[j], got2, f"C08/{bk}-shared-propagator-sequential-calls",
                                dict(witness, spec_b=spec2, query=qdescr(qs2[j], clock)), "two orbits share one propagator object, calls alternate (B)")
        else:
            ia = [j for j, q in enumerate(qs) if q[0] == "i"]
            ib = [j for j, q in enumerate(qs2) if q[0] == "i"]
            if not ia or not ib:
                ctx.count("shared-propagator-interleaved:no-iteration-query")
                return
            ja, jb = ia[0], ib[0]
            try:
                ga = a.iter(**call_kwargs(qs[ja][1], clock, L))
                gb = b.iter(**call_kwargs(qs2[jb][1], clock, L))
                outa, outb = [], []
                done_a = done_b = False
                while not (done_a and done_b):
                    if not done_a:
                        try:
                            outa.append(next(ga))
                        except StopIteration:
                            done_a = True
                    if not done_b:
                        try:
                            outb.append(next(gb))
                        except StopIteration:
                            done_b = True
            except Exception as exc:
                ctx.violation("C08/shared-propagator-interleaved-iter", dict(witness, spec_b=spec2, exc=repr(exc)),
                              f"two orbits sharing one propagator, generators consumed alternately: {exc!r}")
                return
            ctx.count("shared-propagator-interleaved:evaluated")
            compare_answers(ctx, kind, spec, ref[ja], outa, "C08/shared-propagator-interleaved-iter",
                            dict(witness, spec_b=spec2, query=qdescr(qs[ja], clock)), "generators of two orbits sharing one propagator consumed alternately (A)")
            compare_answers(ctx, kind, spec2, ref2[jb], outb, "C08/shared-propagator-interleaved-iter",
                            dict(witness, spec_b=spec2, query=qdescr(qs2[jb], clock)), "generators of two orbits sharing one propagator consumed alternately (B)")
    elif scen == "copy-made":
        # an orbit made by copy() is an equal initial orbit: it must answer like the original
        obj = fresh()
        for j, q in enumerate(qs):
            try:
                cp = guard.call(obj, "copy()", lambda: obj.copy())
                got = answer(cp, q, clock, L, spec)
            except Exception as exc:
                ctx.violation(f"C08/{bk}-history-{scen}-raises-{type(exc).__name__}", dict(witness, exc=repr(exc)), repr(exc))
                return
            key = f"C08/{bk}-copy-answers-differently"
            if numerical:
                p0, p1 = obj.propagator, cp.propagator
                same_cfg = (p0.step == p1.step and p0.method == p1.method and p0.tol == p1.tol and str(p0.frame) == str(p1.frame))
                adaptive = p0.method in ("rkf54", "dopri54")
                if adaptive:  # tol only enters the adaptive methods
                    ctx.expect(same_cfg, "C08/keplernum-copy-drops-tol", dict(witness, tol=p0.tol, copy_tol=p1.tol, method=p0.method),
                               f"copy() of the orbit carries a propagator with tol={p1.tol!r} instead of {p0.tol!r}")
                elif not same_cfg:
                    ctx.count("keplernum-copy-drops-tol:fixed-step-method-no-effect")
                if not same_cfg:
                    key = "C08/keplernum-copy-drops-tol"
            compare_answers(ctx, kind, spec, ref[j], got, key, dict(witness, query=qdescr(q, clock)), "orbit made by copy()")
    elif scen == "generator-interleave":
        # two generators of the *same* object consumed alternately, with propagate() calls in between
        iq = [j for j, q in enumerate(qs) if q[0] == "i"]
        pq = [j for j, q in enumerate(qs) if q[0] == "p"]
        if len(iq) < 1:
            ctx.count("generator-interleave:no-iteration-query")
            return
        obj = fresh()
        if is_ephem and len(iq) >= 4 and (idx // 7) % 2:
            iq = iq[2:]  # the stepped (interpolating) iterations instead of the two own-node ones
        j1 = iq[0]
        j2 = iq[1] if len(iq) > 1 else iq[0]
        try:
            g1 = obj.iter(**call_kwargs(qs[j1][1], clock, L))
            g2 = obj.iter(**call_kwargs(qs[j2][1], clock, L))
            o1, o2 = [], []
            d1 = d2 = False
            k = 0
            while not (d1 and d2):
                if not d1:
                    try:
                        o1.append(next(g1))
                    except StopIteration:
                        d1 = True
                if pq:
                    j = pq[k % len(pq)]
                    k += 1
                    got = answer(obj, qs[j], clock, L, spec)
                    compare_answers(ctx, kind, spec, ref[j], got, f"C08/{bk}-propagate-depends-on-open-generator",
                                    dict(witness, query=qdescr(qs[j], clock)), "propagate() while generators of the same object are open")
                if not d2:
                    try:
                        o2.append(next(g2))
                    except StopIteration:
                        d2 = True
        except Exception as exc:
            ctx.violation(f"C08/{bk}-history-{scen}-raises-{type(exc).__name__}", dict(witness, exc=repr(exc)), repr(exc))
            return
        key = f"C08/{bk}-interleaved-generators-same-object"
        if qs[j1][1]["type"] == "own" and qs[j2][1]["type"] == "own":
            key = "C08/ephem-own-node-iteration-shared-cursor"  # Ephem.__iter__ returns self with the cursor self._i
        compare_answers(ctx, kind, spec, ref[j1], o1, key, dict(witness, query=qdescr(qs[j1], clock)),
                        "two generators of one object consumed alternately (first)")
        compare_answers(ctx, kind, spec, ref[j2], o2, key, dict(witness, query=qdescr(qs[j2], clock)),
                        "two generators of one object consumed alternately (second)")
