"""C11 -- ground-station geometry matches independent geodesy.

Monitors (all reference-model monitors against vmon/oracles/geodesy.py, plus call counters
attached to the real functions so that a monitor that never ran makes the run inconclusive):

  station     create_station(name, (lat, lon, alt)) ; the origin of the station frame
                * sits at the oracle's ECEF point (and Bowring's inverse gives lat/lon/h back)
                * has zero velocity in ITRF
                * has velocity  omega x r  in EME2000, TEME, TOD, MOD (GCRF sampled), and the
                  time derivative of its inertial position (5-point stencil) is that velocity
  topo        StateVector.copy(frame=station[, form='spherical']) of targets generated in the
              local frame (8 octants, near zenith, near nadir, horizon, cardinal azimuths),
              handed over in ITRF / WGS84 / EME2000 / TEME:
                * cartesian axes x north, y west, z up (position and velocity)
                * r = range, phi = elevation, -theta = azimuth, r_dot = range-rate
  measures    Range / Azimut / Elevation / Doppler .from_orbit with paths of 2 and 3
              participants (range = legs x topocentric range), date/path/type preserved
  mask        station.get_mask(az) == piecewise-linear interpolation with the 2pi == 0 wrap, for
              tables of 2..20 nodes given to create_station (list / tuple / ndarray) or assigned
              to station.mask, queried at nodes, midpoints, 0, 2pi, negative and > 2pi azimuths
"""

import math
from datetime import timedelta

import numpy as np

from .. import env, probe
from ..oracles import geodesy as geo

RULE = (
    "case = one ground station (latitude class x longitude class x altitude class, one date) with 28 targets "
    "generated in its local frame (2 x [8 octants, near-zenith, near-nadir, horizon, cardinal azimuth, 2 free]; range "
    "log-uniform 100 m..1e9 m; target handed over in ITRF/WGS84/EME2000/TEME), 4 simulated measures x 2 path lengths on ~8 of "
    "them, and 3 mask tables (2..20 nodes) with all nodes, all midpoints, 0, 2pi and out-of-range azimuths "
    "queried; distinct = digest of (lat, lon, alt, date, target specs, tables); non-trivial = at least one "
    "target with range > 0 off the station axes was converted"
)
EXHAUSTIVE = []
ASSUMPTIONS = [
    "vmon/oracles/geodesy.py (reduced-latitude geodetic->ECEF, explicit ENU unit vectors, Bowring inverse, atan2 "
    "angles, own piecewise-linear mask with 2pi==0 wrap) is the truth; it cross-validates itself at start-up",
    "Earth.r, Earth.f of beyond.constants are data (the ellipsoid the property is relative to), date.eop.lod is data",
    "the Earth-fixed (ITRF) state of a target handed over in EME2000/TEME is obtained with the library's public "
    "StateVector.copy(frame='ITRF') (the inertial<->ITRF maps are property C02's subject); likewise the direction "
    "of the Earth's rotation axis in an inertial frame is the library's TOD (resp. CIRF) z-axis mapped to that frame",
    "Azimut measures carry the library's theta convention (value = -azimuth, as the TDM reader/writer negate "
    "consistently); the check requires -value == compass azimuth mod 2pi",
    "a 3-participant path is the two-way path (station, target, station)",
    "mask tables whose first azimuth is exactly 0 are generated with equal elevations at 0 and 2pi (otherwise the "
    "statement defines two values at azimuth 0)",
]

# create_station costs O(N^2..3) in the number N of registered stations (route tables of the two
# Node graphs are rebuilt on every link: 1 ms at N=0, 40 ms at N=40, 0.4 s at N=120, 2.4 s at N=200),
# so a subprocess registers only 48 (+ <= 3 failed ndarray-mask registrations) and works them hard.
STATIONS_PER_PROCESS = 48
NDARRAY_EVERY = 19
REUSE_EVERY = 7

LAT_CLASSES = ["uniform", "p89.9", "uniform-south", "m89.9", "zero", "polarN", "polarS", "tiny"]
LON_CLASSES = ["uniform", "m180", "zero", "p180", "p360", "east-neg", "gt180", "p90", "p270", "uniform2"]
ALT_CLASSES = ["uniform", "m400", "zero", "p9000"]
TARGET_CLASSES = (
    [f"oct{'+-'[(k >> 2) & 1]}{'+-'[(k >> 1) & 1]}{'+-'[k & 1]}" for k in range(8)]
    + ["zenith", "nadir", "horizon", "cardinal", "free", "free"]
) * 2
FRAMES_IN = ["ITRF", "EME2000", "TEME", "WGS84"]
INERTIAL_1980 = ["EME2000", "TEME", "TOD", "MOD"]


def jobs(tier):
    shards = 16 if tier == "quick" else 160
    n = shards * STATIONS_PER_PROCESS
    return [
        {"name": "geo-real", "n": n, "shards": shards, "eop": "real"},
        {"name": "geo-const", "n": n, "shards": shards, "eop": "const"},
    ]


def requirements(tier):
    k = 1 if tier == "quick" else 10
    req = {}
    for c in set(LAT_CLASSES):
        req["lat:" + c] = 100 * k
    for c in set(LON_CLASSES):
        req["lon:" + c] = 100 * k
    for c in ALT_CLASSES:
        req["alt:" + c] = 100 * k
    for c in set(TARGET_CLASSES):
        req["target:" + c] = 500 * k
    for f in FRAMES_IN:
        req["given-in:" + f] = 1000 * k
    for f in INERTIAL_1980:
        req["station-inertial:" + f] = 1000 * k
    req["station-inertial:GCRF"] = 50 * k
    req["station-derivative"] = 1000 * k
    req["station-placed"] = 1400 * k
    req["revisit-earlier-station"] = 1000 * k
    req["topo-evaluated"] = 20000 * k
    req["below-horizon"] = 5000 * k
    for m in ("Range", "Azimut", "Elevation", "Doppler"):
        req[f"measure:{m}:legs1"] = 1000 * k
        req[f"measure:{m}:legs2"] = 1000 * k
    req["measure:re-measured-after-in-place-edit"] = 1000 * k
    req["measure:state-given-in-another-station-frame"] = 1000 * k
    req["measure:path:three-way"] = 100 * k
    req["measure:path:relayed"] = 100 * k
    for h in COORD_TYPES:
        req["coords-given-as:" + h] = 10 * k
    for q in ("node", "midpoint", "wrap-midpoint", "zero", "two-pi", "negative", "gt-2pi", "random", "node-shifted"):
        req["maskq:" + q] = 1000 * k
    for n in range(2, 21):
        req[f"mask-size:{n}"] = 20 * k
    for how in ("create-list", "create-tuple", "assign-ndarray"):
        req["mask-given:" + how] = 300 * k
    req["mask-given:create-ndarray"] = 50 * k
    req["mask-first-az-zero"] = 100 * k
    # the monitors really sat on the real functions
    req["call:create_station"] = 1400 * k
    req["station-name-reused"] = 100 * k
    req["call:_geodetic_to_cartesian"] = 1400 * k
    req["call:get_mask"] = 50000 * k
    req["call:TopocentricOrientation._to_parent"] = 20000 * k
    return req


# ----------------------------------------------------------------------------------------------
def setup(ctx, job):
    ok, worst = geo.selfcheck()
    if not ok:
        raise RuntimeError(f"geodesy oracle failed its self check: {worst}")
    ctx.note("oracle-selfcheck", worst)

    from beyond.constants import Earth
    from beyond.frames import stations, orient

    st = {"a": float(Earth.r), "f": float(Earth.f), "probes": [], "earlier": []}

    def counter(name):
        def post(a, k, res):
            ctx.count("call:" + name)

        return post

    st["probes"].append(probe.attach(stations, "create_station", post=counter("create_station")))
    st["probes"].append(probe.attach(stations.TopocentricFrame, "_geodetic_to_cartesian", post=counter("_geodetic_to_cartesian")))
    st["probes"].append(probe.attach(stations.TopocentricFrame, "get_mask", post=counter("get_mask")))
    st["probes"].append(
        probe.attach(orient.TopocentricOrientation, "_to_parent", post=counter("TopocentricOrientation._to_parent"))
    )
    st["stations"] = stations
    return st


def finish(ctx, job, st):
    for p in st["probes"]:
        p.remove()


# ----------------------------------------------------------------------------------------------
# generators
def gen_lat(rng, cls):
    if cls == "uniform":
        return rng.uniform(-89.0, 89.0)
    if cls == "uniform-south":
        return rng.uniform(-89.0, 0.0)
    if cls == "p89.9":
        return 89.9
    if cls == "m89.9":
        return -89.9
    if cls == "zero":
        return 0.0
    if cls == "polarN":
        return 90.0 - 10 ** rng.uniform(-4, -1)  # 89.9 ... 89.9999
    if cls == "polarS":
        return -90.0 + 10 ** rng.uniform(-4, -1)
    if cls == "tiny":
        return rng.choice((-1, 1)) * 10 ** rng.uniform(-9, -3)
    raise ValueError(cls)


def gen_lon(rng, cls):
    if cls in ("uniform", "uniform2"):
        return rng.uniform(-180.0, 360.0)
    if cls == "m180":
        return -180.0
    if cls == "zero":
        return 0.0
    if cls == "p180":
        return 180.0
    if cls == "p360":
        return 360.0
    if cls == "p90":
        return 90.0
    if cls == "p270":
        return 270.0
    if cls == "east-neg":
        return rng.uniform(-180.0, 0.0)
    if cls == "gt180":
        return rng.uniform(180.0, 360.0)
    raise ValueError(cls)


def gen_alt(rng, cls):
    return {"uniform": rng.uniform(-400.0, 9000.0), "m400": -400.0, "zero": 0.0, "p9000": 9000.0}[cls]


def gen_date(rng, job):
    if job.get("eop") == "real":
        d = rng.randint(env.EOP_MJD_MIN + 6, env.EOP_MJD_MAX - 6)
    else:
        d = rng.randint(33282, 69807)  # 1950 ... 2050
    # >= 5 min away from midnight: no leap second, no EOP day boundary within the +-64 s stencil
    s = round(rng.uniform(300.0, 86100.0), 6)
    return d, s


def gen_target(rng, cls):
    """(az, el, range, vel_enu) in the local frame of the oracle (az clockwise from north)."""
    lo = 1e-3  # keep octant targets off the coordinate planes (a class of their own: 'cardinal', 'horizon')
    if cls.startswith("oct"):
        se = 1 if cls[3] == "+" else -1
        sn = 1 if cls[4] == "+" else -1
        su = 1 if cls[5] == "+" else -1
        az_q = rng.uniform(lo, math.pi / 2 - lo)  # angle from north toward east in the first quadrant
        az = math.atan2(se * math.sin(az_q), sn * math.cos(az_q)) % geo.TWO_PI
        el = su * rng.uniform(lo, math.pi / 2 - lo)
    elif cls == "zenith":
        az = rng.uniform(0, geo.TWO_PI)
        el = math.pi / 2 - 10 ** rng.uniform(-6, -2)
    elif cls == "nadir":
        az = rng.uniform(0, geo.TWO_PI)
        el = -math.pi / 2 + 10 ** rng.uniform(-6, -2)
    elif cls == "horizon":
        az = rng.uniform(0, geo.TWO_PI)
        el = rng.choice((-1, 1)) * 10 ** rng.uniform(-9, -3) if rng.random() < 0.8 else 0.0
    elif cls == "cardinal":
        az = rng.randrange(4) * (math.pi / 2)
        el = rng.uniform(-1.2, 1.2)
    else:
        az = rng.uniform(0, geo.TWO_PI)
        el = math.asin(rng.uniform(-1, 1)) * 0.999
    rho = 10 ** rng.uniform(2, 9)
    vclass = rng.random()
    if vclass < 0.1:
        vel = (0.0, 0.0, 0.0)
    else:
        vm = 10 ** rng.uniform(-3, math.log10(1.2e4))
        d = [rng.gauss(0, 1) for _ in range(3)]
        n = math.sqrt(sum(x * x for x in d)) or 1.0
        vel = tuple(vm * x / n for x in d)
    return az, el, rho, vel


def gen_mask(rng, n=None):
    """Strictly increasing azimuths ending at 2 pi, n in 2..20."""
    n = n or rng.randint(2, 20)
    style = rng.choice(("random", "random", "clustered", "regular", "first-zero"))
    if style == "regular":
        az = [geo.TWO_PI * (k + 1) / n for k in range(n)]
        az[-1] = geo.TWO_PI  # exactly the float 2 pi (2pi*n/n may round one ulp below: outside the quantifier)
    else:
        while True:
            if style == "clustered":
                c = rng.uniform(0.2, 6.0)
                inner = sorted(min(max(c + rng.gauss(0, 0.05), 1e-3), geo.TWO_PI - 1e-3) for _ in range(n - 1))
            else:
                inner = sorted(rng.uniform(1e-3, geo.TWO_PI - 1e-3) for _ in range(n - 1))
            az = inner + [geo.TWO_PI]
            # strictly increasing with a minimal spacing of 1e-4 rad (documented convention)
            if all(b - a > 1e-4 for a, b in zip(az, az[1:])):
                break
        if style == "first-zero":
            az[0] = 0.0
    el = [round(rng.uniform(-0.1, 1.4), rng.choice((2, 6, 15))) for _ in range(n)]
    if az[0] == 0.0:
        el[0] = el[-1]
    if rng.random() < 0.1:
        el = [0.25] * n  # flat mask
    return az, el


# ----------------------------------------------------------------------------------------------
def _lib_vec(sv):
    return [float(x) for x in probe.arr(sv)]


def run_case(ctx, job, idx, rng, st):
    from beyond.orbits import StateVector, Orbit
    from beyond.dates import Date
    from beyond.utils import measures

    stations = st["stations"]
    a, f = st["a"], st["f"]

    lat_cls = LAT_CLASSES[idx % len(LAT_CLASSES)]
    lon_cls = LON_CLASSES[(idx // len(LAT_CLASSES)) % len(LON_CLASSES)]
    alt_cls = ALT_CLASSES[(idx // 3) % len(ALT_CLASSES)] if rng.random() < 0.5 else "uniform"
    lat_deg, lon_deg, alt = gen_lat(rng, lat_cls), gen_lon(rng, lon_cls), gen_alt(rng, alt_cls)
    d_mjd, d_sec = gen_date(rng, job)
    targets = []
    for j, cls in enumerate(TARGET_CLASSES):
        az, el, rho, vel = gen_target(rng, cls)
        targets.append({"cls": cls, "az": az, "el": el, "rho": rho, "vel": list(vel), "frame": FRAMES_IN[(idx + j) % len(FRAMES_IN)]})
    mask0 = gen_mask(rng, n=2 + (idx % 19))
    mask_more = [gen_mask(rng), gen_mask(rng)]
    how0 = ("create-list", "create-tuple")[idx % 2]
    descr = {
        "lat_deg": lat_deg, "lon_deg": lon_deg, "alt": alt, "mjd": d_mjd, "sec": d_sec,
        "classes": [lat_cls, lon_cls, alt_cls], "targets": targets, "mask0": mask0, "how0": how0,
    }
    ctx.case(descr)
    for c in ("lat:" + lat_cls, "lon:" + lon_cls, "alt:" + alt_cls):
        ctx.count(c)

    name = f"S{idx}"
    base_w = {"station": name, "lat_deg": lat_deg, "lon_deg": lon_deg, "alt_m": alt, "date_mjd_utc": [d_mjd, d_sec], "eop": job.get("eop")}
    date = Date(d_mjd, d_sec)
    lat, lon = math.radians(lat_deg), math.radians(lon_deg)
    ost = geo.Station(lat, lon, alt, a, f)

    # ---------------------------------------------------------------- creation (with mask #0)
    m0 = [list(mask0[0]), list(mask0[1])]
    if how0 == "create-tuple":
        m0 = (tuple(mask0[0]), tuple(mask0[1]))
    coords_how = COORD_TYPES[(idx // 2) % len(COORD_TYPES)]
    if coords_how.startswith("int"):
        # whole degrees and metres given as integers (the natural way to type (45, 10, 100)); the oracle station follows
        lat_deg, lon_deg, alt = int(round(max(-89, min(89, lat_deg)))), int(round(lon_deg)), int(round(alt))
        lat, lon = math.radians(lat_deg), math.radians(lon_deg)
        ost = geo.Station(lat, lon, float(alt), a, f)
        base_w.update(lat_deg=lat_deg, lon_deg=lon_deg, alt_m=alt)
    coords = {"tuple": lambda: (lat_deg, lon_deg, alt), "list": lambda: [lat_deg, lon_deg, alt],
              "ndarray": lambda: np.array([lat_deg, lon_deg, alt], dtype=float),
              "int-tuple": lambda: (lat_deg, lon_deg, alt), "int-ndarray": lambda: np.array([lat_deg, lon_deg, alt]),
              "np-scalars": lambda: (np.float64(lat_deg), np.float64(lon_deg), np.float64(alt))}[coords_how]()
    base_w["coordinates_given_as"] = coords_how
    ctx.count("coords-given-as:" + coords_how)
    given_copy = list(coords)
    try:
        station = stations.create_station(name, coords, mask=m0)
    except Exception as exc:
        ctx.violation("C11/create-station-raises", dict(base_w, mask=mask0, how=how0, exc=repr(exc)), f"create_station raised {exc!r}")
        return
    ctx.count("mask-given:" + how0)
    ctx.expect(list(coords) == given_copy, "C11/create-station-modifies-the-coordinates-given", dict(base_w, before=[float(x) for x in given_copy], after=[float(x) for x in coords]),
               "create_station changed the caller's coordinate container")

    n_before = sum(v["count"] for v in ctx.violations.values())
    station_checks(ctx, job, idx, rng, st, station, ost, date, base_w)
    topo_checks(ctx, idx, rng, st, station, ost, date, targets, base_w, StateVector, Orbit, measures)
    revisit_check(ctx, rng, st, date, StateVector)
    if sum(v["count"] for v in ctx.violations.values()) == n_before:
        # only stations that were right when fresh are re-examined later (separates "wrong geometry"
        # from "corrupted by later registrations")
        st["earlier"].append((station, ost, base_w))

    # ---------------------------------------------------------------- masks
    mask_checks(ctx, rng, station, mask0, how0, base_w)
    for tab in mask_more:
        station.mask = np.array([tab[0], tab[1]])  # as the repository's own tests do
        ctx.count("mask-given:assign-ndarray")
        mask_checks(ctx, rng, station, tab, "assign-ndarray", base_w)

    if idx % REUSE_EVERY == 3:
        # history: the same station NAME is registered again with other coordinates (the library logs "Overriding" and the
        # newest registration wins): the geometry of the new station must be that of its own coordinates
        st["earlier"] = [e for e in st["earlier"] if e[0] is not station]
        lat2, lon2, alt2 = gen_lat(rng, "uniform"), gen_lon(rng, "uniform"), gen_alt(rng, "uniform")
        ost2 = geo.Station(math.radians(lat2), math.radians(lon2), alt2, a, f)
        w2 = dict(base_w, lat_deg=lat2, lon_deg=lon2, alt_m=alt2, reused_name=True, first_coordinates=[lat_deg, lon_deg, alt])
        ctx.count("station-name-reused")
        try:
            station2 = stations.create_station(name, (lat2, lon2, alt2))
        except Exception as exc:
            ctx.violation("C11/create-station-raises-on-reused-name", dict(w2, exc=repr(exc)), f"create_station on a name used before raised {exc!r}")
        else:
            n0 = sum(v["count"] for v in ctx.violations.values())
            station_checks(ctx, job, idx, rng, st, station2, ost2, date, w2)
            topo_checks(ctx, idx, rng, st, station2, ost2, date, targets[:8], w2, StateVector, Orbit, measures)
            n1 = sum(v["count"] for v in ctx.violations.values())
            ctx.expect(n1 == n0, "C11/station-name-reuse-stale-geometry", w2,
                       f"a station registered under a name used before (other coordinates) shows {n1 - n0} geometry violations")

    if idx % NDARRAY_EVERY == 0:
        # the documented type of `mask` is "2D array of float": hand an ndarray to create_station
        tab = gen_mask(rng)
        nd_name = f"S{idx}nd"
        ctx.count("mask-given:create-ndarray")
        try:
            st2 = stations.create_station(nd_name, (lat_deg, lon_deg, alt), mask=np.array([tab[0], tab[1]]))
        except Exception as exc:
            ctx.violation(
                "C11/mask-create-station-ndarray-raises",
                dict(base_w, station=nd_name, mask=tab, exc=repr(exc)),
                f"create_station(..., mask=<2xN ndarray>) raised {exc!r}: no station, no mask value for a documented table type",
            )
        else:
            ctx.ok("create-ndarray")
            mask_checks(ctx, rng, st2, tab, "create-ndarray", dict(base_w, station=nd_name))


# ----------------------------------------------------------------------------------------------
def rotation_axis(st, date, frame_name, chain):
    """Direction of the Earth's rotation axis (z of TOD / of CIRF) in an inertial frame, through the
    library's own orientation maps (trusted here, checked by C02)."""
    from beyond.orbits import StateVector

    src = "TOD" if chain == "1980" else "CIRF"
    if frame_name == src:
        return (0.0, 0.0, 1.0)
    v = probe.arr(StateVector([0.0, 0.0, 1.0, 0.0, 0.0, 0.0], date, "cartesian", src).copy(frame=frame_name))
    ax = (float(v[0]), float(v[1]), float(v[2]))
    n = geo.norm(ax)
    return geo.scale(ax, 1.0 / n)


def station_checks(ctx, job, idx, rng, st, station, ost, date, base_w):
    from beyond.orbits import StateVector

    a, f = st["a"], st["f"]
    origin = StateVector([0.0] * 6, date, "cartesian", station)
    try:
        e = probe.arr(origin.copy(frame="ITRF"))
    except Exception as exc:
        ctx.violation("C11/station-origin-conversion-raises", dict(base_w, to="ITRF", exc=repr(exc)), repr(exc))
        return
    ctx.count("station-placed")
    # the coordinates the station says it has are the ones it was given (radians, radians, metres)
    try:
        lla = [float(x) for x in station.latlonalt]
        exp_lla = [math.radians(base_w["lat_deg"]), math.radians(base_w["lon_deg"]), float(base_w["alt_m"])]
        ctx.count("station-latlonalt-read")
        ctx.expect(len(lla) == 3 and all(abs(g - x) <= 1e-15 * max(1.0, abs(x)) for g, x in zip(lla, exp_lla)), "C11/station-latlonalt-not-the-given-coordinates",
                   dict(base_w, latlonalt=lla, expected=exp_lla), f"station.latlonalt = {lla}, created with {exp_lla} (rad, rad, m)")
    except Exception as exc:
        ctx.violation("C11/station-latlonalt-raises", dict(base_w, exc=repr(exc)), f"station.latlonalt raised {exc!r}")
    pos = (float(e[0]), float(e[1]), float(e[2]))
    R = geo.norm(ost.ecef)
    # --- on the ellipsoid at height h.  Noise: 3 products/sums on 6.4e6 m -> ~2e-9 m (measured
    # <= 2e-9); tol 1e-6 m (DESIGN) = 500x noise; smallest realistic break (h applied along the
    # geocentric instead of the geodetic vertical, h = 1 m) is > 1e-3 m.
    ctx.resid("station:ecef", geo.norm(geo.sub(pos, ost.ecef)), 1e-6, key="C11/station-ecef-position",
              witness=dict(base_w, got=pos, expected=ost.ecef),
              msg=f"station origin in ITRF {pos} != geodetic->ECEF {ost.ecef}")
    # --- inverse: Bowring iteration on the library's point gives the inputs back
    la, lo, hh = geo.ecef_to_geodetic(pos[0], pos[1], pos[2], a, f)
    rho_axis = max(math.hypot(ost.ecef[0], ost.ecef[1]), 1.0)
    w = dict(base_w, got_lat_lon_h=[la, lo, hh], expected=[ost.lat, ost.lon, ost.h])
    # 1e-6 m on the ground <=> 1.6e-13 rad; tol 1e-12 rad + inverse's own 1e-15
    ctx.resid("station:inv-lat", abs(la - ost.lat), 1e-12, key="C11/station-geodetic-inverse", witness=w,
              msg=f"geodetic latitude of the station origin {la!r} != {ost.lat!r}")
    ctx.resid("station:inv-lon", geo.angdiff(lo, ost.lon), 1e-6 / rho_axis + 1e-14, key="C11/station-geodetic-inverse", witness=w,
              msg=f"longitude of the station origin {lo!r} != {ost.lon!r} (mod 2pi)")
    ctx.resid("station:inv-h", abs(hh - ost.h), 1e-6, key="C11/station-geodetic-inverse", witness=w,
              msg=f"ellipsoidal height of the station origin {hh!r} != {ost.h!r}")
    # --- at rest in the Earth-fixed frame (exactly zero on the unchanged tree; 1e-12 m/s allowed)
    vit = float(np.linalg.norm(e[3:]))
    ctx.resid("station:itrf-velocity", vit, 1e-12, key="C11/station-not-at-rest-itrf", witness=dict(base_w, velocity=list(e[3:])),
              msg=f"station origin has velocity {list(e[3:])} m/s in ITRF")
    # --- the Earth-fixed station point maps back to the origin of the station frame
    try:
        back = probe.arr(StateVector(list(ost.ecef) + [0.0, 0.0, 0.0], date, "cartesian", "ITRF").copy(frame=station))
        ctx.resid("station:origin-back", float(np.linalg.norm(back[:3])), 1e-6, key="C11/station-origin-not-zero",
                  witness=dict(base_w, got=list(back)), msg=f"ECEF station point is at {list(back[:3])} in the station frame")
        ctx.resid("station:origin-back-vel", float(np.linalg.norm(back[3:])), 1e-12, key="C11/station-not-at-rest-itrf",
                  witness=dict(base_w, got=list(back)), msg=f"point at rest in ITRF moves with {list(back[3:])} in the station frame")
    except Exception as exc:
        ctx.violation("C11/station-origin-conversion-raises", dict(base_w, to="station", exc=repr(exc)), repr(exc))

    # --- moving with the Earth's rotation in inertial frames: v = omega (axis x r)
    lod = float(date.eop.lod) / 1000.0
    omega = geo.earth_rate(lod)
    frames = list(INERTIAL_1980)
    if idx % 16 == 0:
        frames.append("GCRF")  # IAU-2010 chain (7 ms per conversion): sampled
    for fr in frames:
        chain = "2010" if fr == "GCRF" else "1980"
        try:
            s = probe.arr(origin.copy(frame=fr))
            axis = rotation_axis(st, date, fr, chain)
        except Exception as exc:
            ctx.violation("C11/station-origin-conversion-raises", dict(base_w, to=fr, exc=repr(exc)), repr(exc))
            continue
        ctx.count("station-inertial:" + fr)
        r_in = (float(s[0]), float(s[1]), float(s[2]))
        v_in = (float(s[3]), float(s[4]), float(s[5]))
        v_exp = geo.corotation_velocity(axis, r_in, omega)
        w = dict(base_w, frame=fr, r=r_in, v=v_in, v_expected=v_exp, omega=omega, axis=axis, lod_s=lod)
        # rigid map: |r| preserved.  noise ~1e-9 m (<= 6 matrix products on 6.4e6 m); tol 1e-6 m
        ctx.resid("station:inertial-radius", abs(geo.norm(r_in) - R), 1e-6, key="C11/station-inertial-position-norm", witness=w,
                  msg=f"|r| of the station in {fr} = {geo.norm(r_in)!r}, on the ground {R!r}")
        # co-rotation.  noise: 465 m/s * 1e-15 * (<= 10 products) ~ 5e-12 m/s (measured <= 3e-12);
        # tol 1e-9 m/s = 300x; dropping only the LOD factor is 1e-5 m/s, a sign error 930 m/s.
        ctx.resid("station:inertial-velocity", geo.norm(geo.sub(v_in, v_exp)), 1e-9, key="C11/station-inertial-velocity", witness=w,
                  msg=f"station velocity in {fr} {v_in} != omega x r = {v_exp}")

    # --- differential-history monitor: d/dt of the inertial position == inertial velocity
    # 5-point stencil, h = 32 s: truncation (omega h)^4/30 * 465 m/s = 4e-10 m/s; the library's
    # sidereal angle is evaluated on a float MJD/century (time quantisation up to ~1 us => 0.5 mm),
    # noise measured <= 4e-5 m/s; precession+nutation of the axis adds <= 7e-12 rad/s * 6.4e6 =
    # 5e-5 m/s that the library's velocity map neglects by design (C02 allowance), nutation's
    # short-period terms as much again: measured worst 2.9e-4 m/s over 1e4 stations.  tol 5e-2 m/s:
    # 170x the measured floor, and 1e-4 of the 465 m/s effect a wrong/missing rate block has
    # (the fine structure of the velocity, LOD included, is decided by the omega x r monitor above).
    try:
        h = 32.0
        p = {}
        for k in (-2, -1, 1, 2):
            dk = date + timedelta(seconds=k * h)
            p[k] = probe.arr(StateVector([0.0] * 6, dk, "cartesian", station).copy(frame="EME2000"))[:3]
        deriv = (p[-2] - 8 * p[-1] + 8 * p[1] - p[2]) / (12 * h)
        v0 = probe.arr(origin.copy(frame="EME2000"))[3:]
        ctx.count("station-derivative")
        ctx.resid("station:derivative", float(np.linalg.norm(deriv - v0)), 5e-2, key="C11/station-inertial-motion-derivative",
                  witness=dict(base_w, derivative=list(deriv), velocity=list(v0), h=h),
                  msg=f"d/dt of the station's EME2000 position {list(deriv)} != its EME2000 velocity {list(v0)}")
    except Exception as exc:
        ctx.violation("C11/station-origin-conversion-raises", dict(base_w, to="EME2000 (stencil)", exc=repr(exc)), repr(exc))


# ----------------------------------------------------------------------------------------------
def topo_checks(ctx, idx, rng, st, station, ost, date, targets, base_w, StateVector, Orbit, measures):
    R = geo.norm(ost.ecef)
    for j, t in enumerate(targets):
        cls, fr = t["cls"], t["frame"]
        ctx.count("target:" + cls)
        r_spec, v_spec = ost.target(t["az"], t["el"], t["rho"], tuple(t["vel"]))
        w = dict(base_w, target=t, target_itrf_spec=list(r_spec) + list(v_spec))
        kind = "itrf" if fr in ("ITRF", "WGS84") else "inertial"
        try:
            sv_e = StateVector(list(r_spec) + list(v_spec), date, "cartesian", "ITRF")
            if kind == "itrf":
                given_vec = list(r_spec) + list(v_spec)
            else:
                given_vec = _lib_vec(sv_e.copy(frame=fr))
            # a fresh object built from plain numbers: no conversion history
            if j % 2:
                given = Orbit(given_vec, date, "cartesian", fr, "Kepler" if kind == "inertial" else None)
            else:
                given = StateVector(given_vec, date, "cartesian", fr)
            # Earth-fixed state of what was really handed over (library's public inertial->ITRF map)
            itrf = _lib_vec(given.copy(frame="ITRF")) if kind == "inertial" else given_vec
        except Exception as exc:
            ctx.violation("C11/target-setup-raises", dict(w, exc=repr(exc)), f"building the target in {fr} raised {exc!r}")
            continue
        w["given"] = {"frame": fr, "vector": given_vec}
        ctx.count("given-in:" + fr)
        lk = ost.look(itrf[:3], itrf[3:])
        if lk["el"] < 0:
            ctx.count("below-horizon")
        L = geo.norm(itrf[:3]) + R
        vrel = geo.norm(itrf[3:])
        rho = lk["range"]
        # ---- tolerances --------------------------------------------------------------------
        # position noise: the station map is m @ x + offset with m a product of <= 7 3x3 matrices
        # and |x|, |offset| <= L: measured <= 6e-16 L.  tol_pos = 1e-13 L (>= 150x), floor 1e-6 m.
        # (LEO: 1.4e-6 m; omitting e^2 moves the station by 21 km, a latitude sign by > 1 km.)
        tol_pos = max(1e-6, 1e-13 * L)
        # direction noise = position noise / range (+1e-10 rad floor); azimuth is divided by cos(el)
        # (undefined at the zenith), the library's arcsin(z/r) has conditioning 1/cos(el) on 1e-16.
        cel = max(math.cos(lk["el"]), 1e-12)
        tol_ang = 1e-10 + tol_pos / rho
        tol_el = tol_ang + 1e-13 / cel
        tol_az = tol_ang / cel
        # velocity noise: |v_itrf| + omega L (the omega x r block) times 1e-15 * few; tol 1e-11 rel,
        # floor 1e-9 m/s; range-rate adds direction noise times |v|.
        tol_vel = 1e-9 + 1e-11 * (vrel + geo.OMEGA_EARTH * L)
        tol_rr = tol_vel + (tol_pos / rho) * vrel
        sfx = "-" + kind

        try:
            cart = probe.arr(given.copy(frame=station, form="cartesian"))
            sph = probe.arr(given.copy(frame=station, form="spherical"))
        except Exception as exc:
            ctx.violation("C11/topo-conversion-raises" + sfx, dict(w, exc=repr(exc)), f"{fr}->station raised {exc!r}")
            continue
        ctx.count("topo-evaluated")
        x_exp = geo.xyz_north_west_up(lk["e"], lk["n"], lk["u"])
        v_exp = geo.xyz_north_west_up(lk["ve"], lk["vn"], lk["vu"])
        w2 = dict(w, oracle=lk, lib_cartesian=list(cart), lib_spherical=list(sph))
        dpos = geo.norm(geo.sub(tuple(float(c) for c in cart[:3]), x_exp))
        ctx.resid("topo:axes-pos" + sfx, dpos, tol_pos, key="C11/topo-axes-north-west-up" + sfx, witness=w2,
                  msg=f"station-frame position {list(cart[:3])} != (north, west, up) = {x_exp}")
        dvel = geo.norm(geo.sub(tuple(float(c) for c in cart[3:]), v_exp))
        ctx.resid("topo:axes-vel" + sfx, dvel, tol_vel + 1e-9, key="C11/topo-velocity-axes" + sfx, witness=w2,
                  msg=f"station-frame velocity {list(cart[3:])} != Earth-fixed relative velocity on (north, west, up) = {v_exp}")
        r_l, th_l, ph_l, rd_l = (float(sph[k]) for k in range(4))
        ctx.resid("topo:range" + sfx, abs(r_l - rho), tol_pos, key="C11/topo-range" + sfx, witness=w2,
                  msg=f"range {r_l!r} != ENU range {rho!r}")
        ctx.resid("topo:elevation" + sfx, abs(ph_l - lk["el"]), tol_el, key="C11/topo-elevation" + sfx, witness=w2,
                  msg=f"phi {ph_l!r} != ENU elevation {lk['el']!r}")
        ctx.resid("topo:azimuth" + sfx, geo.angdiff(-th_l, lk["az"]), tol_az, key="C11/topo-azimuth" + sfx, witness=w2,
                  msg=f"-theta {(-th_l) % geo.TWO_PI!r} != ENU azimuth {lk['az']!r}")
        ctx.resid("topo:range-rate" + sfx, abs(rd_l - lk["range_rate"]), tol_rr, key="C11/topo-range-rate" + sfx, witness=w2,
                  msg=f"r_dot {rd_l!r} != ENU range-rate {lk['range_rate']!r}")
        # harness sanity (no key): the oracle reproduces the generated local specification
        if kind == "itrf":
            ctx.resid("oracle:spec-el", abs(lk["el"] - t["el"]), tol_el)
            ctx.resid("oracle:spec-range", abs(rho - t["rho"]), tol_pos)

        # ---- simulated measures on 4 targets per station -------------------------------------
        if j % 4 == idx % 4 or cls in ("zenith",) and j % 2 == 0:
            measure_checks(ctx, rng, station, given, date, lk, (tol_pos, tol_el, tol_az, tol_rr), w2, measures, sfx,
                           others=[e[0] for e in st["earlier"] if e[0] is not station])


def revisit_check(ctx, rng, st, date, StateVector):
    """A station registered earlier in this process still answers right after more stations (global
    Orientation/Center class attributes, route tables) have been registered."""
    if not st["earlier"]:
        return
    station, ost, w0 = rng.choice(st["earlier"])
    az, el, rho, vel = gen_target(rng, "free")
    fr = rng.choice(FRAMES_IN)
    r_spec, v_spec = ost.target(az, el, rho, vel)
    w = dict(w0, revisit_target={"az": az, "el": el, "rho": rho, "vel": list(vel), "frame": fr}, registered_since=len(st["earlier"]))
    try:
        given = StateVector(list(r_spec) + list(v_spec), date, "cartesian", "ITRF")
        if fr not in ("ITRF", "WGS84"):
            given = StateVector(_lib_vec(given.copy(frame=fr)), date, "cartesian", fr)
        itrf = _lib_vec(given.copy(frame="ITRF"))
        sph = probe.arr(given.copy(frame=station, form="spherical"))
    except Exception as exc:
        ctx.violation("C11/topo-earlier-station-raises", dict(w, exc=repr(exc)), f"conversion to an earlier station raised {exc!r}")
        return
    ctx.count("revisit-earlier-station")
    lk = ost.look(itrf[:3], itrf[3:])
    L = geo.norm(itrf[:3]) + geo.norm(ost.ecef)
    tol_pos = max(1e-6, 1e-13 * L)  # as in topo_checks
    cel = max(math.cos(lk["el"]), 1e-12)
    tol_ang = 1e-10 + tol_pos / lk["range"]
    bad = (
        abs(float(sph[0]) - lk["range"]) > tol_pos
        or abs(float(sph[2]) - lk["el"]) > tol_ang + 1e-13 / cel
        or geo.angdiff(-float(sph[1]), lk["az"]) > tol_ang / cel
    )
    ctx.expect(not bad, "C11/topo-earlier-station-corrupted", dict(w, oracle=lk, lib_spherical=list(sph)),
               f"station {station.name} registered {len(st['earlier'])} registrations ago no longer matches the ENU computation")


COORD_TYPES = ["tuple", "list", "ndarray", "int-tuple", "int-ndarray", "np-scalars", "tuple", "tuple"]


def measure_checks(ctx, rng, station, given, date, lk, tols, w, measures, sfx, others=()):
    tol_pos, tol_el, tol_az, tol_rr = tols
    # the state may be held in any element form (an orbit-determination state in keplerian or equinoctial elements, a
    # tracking point in spherical coordinates): the measure is that of the same point of space-time.  Kept only when the form
    # itself represents the state to 1e-12 (element forms of an Earth-fixed or unbound state do not), tolerances x 1000
    # (1e-10 of the distances: the rounding of a form round trip), still 1e-6 of any wrong-form effect
    given0 = given
    form = rng.choice([None, None, "spherical", "cylindrical", "keplerian", "equinoctial", "keplerian_mean"])
    if form is not None:
        try:
            c0 = probe.arr(given.copy(form="cartesian"))
            alt = given.copy(form=form)
            c1 = probe.arr(alt.copy(form="cartesian"))
            rel = float(np.linalg.norm(c1[:3] - c0[:3]) / np.linalg.norm(c0[:3]) + np.linalg.norm(c1[3:] - c0[3:]) / max(np.linalg.norm(c0[3:]), 1e-3))
            good = bool(np.all(np.isfinite(c1))) and rel <= 1e-12
        except Exception:
            good = False
        if good:
            given = alt
            ctx.count("measure:state-held-in-form:" + form)
            ctx.count("measure:state-held-in-another-form")
            w = dict(w, state_form=form)
            tol_pos, tol_el, tol_az, tol_rr = (1000 * t_ for t_ in tols)
        else:
            ctx.count("measure:form-variant-not-representable")
    shapes = [("one-way", 1), ("two-way", 2)]
    if others:
        # paths that do not come back to the emitting station: one leg per hop all the same
        shapes.append(rng.choice([("three-way", 2), ("relayed", 4)]))
    for shape, legs in shapes:
        by_name = rng.random() < 0.5
        first = station.name if by_name else station
        if shape in ("three-way", "relayed"):
            other = rng.choice(list(others))
            second = other.name if by_name else other
            path = [first, "TARGET", second] if shape == "three-way" else [first, "TARGET", second, "TARGET", first]
            ctx.count("measure:path:" + shape)
        else:
            path = [first, "TARGET"] if legs == 1 else [first, "TARGET", first]
        if rng.random() < 0.5:
            path = tuple(path)
        for cls_name in ("Range", "Azimut", "Elevation", "Doppler"):
            M = getattr(measures, cls_name)
            wm = dict(w, measure=cls_name, path=[str(p) for p in path], path_by_name=by_name)
            try:
                proto = M(path, date, float("nan"))
                got = proto.from_orbit(given)
                val = float(got.value)
            except Exception as exc:
                ctx.violation(f"C11/measure-{cls_name.lower()}-raises", dict(wm, exc=repr(exc)), f"{cls_name}.from_orbit raised {exc!r}")
                continue
            ctx.count(f"measure:{cls_name}:legs{min(legs, 2)}")
            # the residual of an observed measure against the simulated one is the difference of their values
            try:
                obs_val = val + rng.choice([-1.0, 1.0]) * 10 ** rng.uniform(-6, 2)
                res = M(path, got.date, obs_val) - got
                ctx.count("measure:residual")
                ctx.expect(float(res.value) == obs_val - val and res.date == got.date and res.frame is first, "C11/measure-residual", dict(wm, observed=obs_val, simulated=val, residual=float(res.value)),
                           f"{cls_name}: observed - simulated = {float(res.value)!r}, values differ by {obs_val - val!r}")
            except Exception as exc:
                ctx.violation(f"C11/measure-{cls_name.lower()}-raises", dict(wm, exc=repr(exc), step="residual"), f"{cls_name} residual raised {exc!r}")
            if cls_name == "Range":
                ctx.resid("measure:range" + sfx, abs(val - legs * lk["range"]), legs * tol_pos, key="C11/measure-range-legs", witness=dict(wm, got=val, legs=legs),
                          msg=f"Range over {legs} leg(s) = {val!r}, topocentric range {lk['range']!r} x {legs}")
            elif cls_name == "Azimut":
                ctx.resid("measure:azimut" + sfx, geo.angdiff(-val, lk["az"]), tol_az, key="C11/measure-azimut", witness=dict(wm, got=val),
                          msg=f"Azimut value {val!r}: -value != azimuth {lk['az']!r} (mod 2pi)")
            elif cls_name == "Elevation":
                ctx.resid("measure:elevation" + sfx, abs(val - lk["el"]), tol_el, key="C11/measure-elevation", witness=dict(wm, got=val),
                          msg=f"Elevation value {val!r} != elevation {lk['el']!r}")
            else:
                ctx.resid("measure:doppler" + sfx, abs(val - lk["range_rate"]), tol_rr, key="C11/measure-doppler", witness=dict(wm, got=val),
                          msg=f"Doppler value {val!r} != range-rate {lk['range_rate']!r}")
            # history: the same state object measured again after it was edited in place (finite-difference sensitivities of
            # an orbit determination do exactly that) gives what a brand-new state holding the new numbers gives
            if shape == "two-way" and cls_name in ("Range", "Doppler", "Azimut", "Elevation") and hasattr(given, "copy"):
                try:
                    edited = given0.copy()  # (edits are made on cartesian numbers: any six of them are a state)
                    M(path, date, float("nan")).from_orbit(edited)  # first measurement on this object
                    k_ = rng.randrange(6)
                    edited[k_] = float(edited[k_]) * (1 + 1e-3) + (1000.0 if k_ < 3 else 1.0)
                    again = float(M(path, date, float("nan")).from_orbit(edited).value)
                    from beyond.orbits import StateVector as _SV

                    fresh = _SV(np.array(edited, dtype=float), edited.date, edited.form.name, edited.frame)
                    ref_v = float(M(path, date, float("nan")).from_orbit(fresh).value)
                    ctx.count("measure:re-measured-after-in-place-edit")
                    ctx.expect(again == ref_v, "C11/measure-of-an-edited-state-is-the-earlier-one",
                               dict(wm, component=k_, measured_again=again, fresh_object_with_the_same_numbers=ref_v, first=val),
                               f"{cls_name}: state edited in place and measured again gives {again!r}, a fresh state with the same numbers {ref_v!r}")
                except Exception as exc:
                    ctx.violation(f"C11/measure-{cls_name.lower()}-raises", dict(wm, exc=repr(exc), step="re-measure after in-place edit"), f"{cls_name}.from_orbit raised {exc!r}")
            # the state may be handed over expressed in ANOTHER station's frame (a point yielded by that station's
            # visibility): the measure is still the one of the measuring station
            if shape == "one-way" and others and hasattr(given, "copy"):
                try:
                    other_frame = rng.choice(list(others))
                    # (cartesian: a target next to the measuring station sits at the nadir of an antipodal one, where the
                    # spherical form is ill-conditioned -- arcsin next to -1 --, which is C01's subject: 7e-5 m observed)
                    elsewhere = given.copy(frame=other_frame, form="cartesian")
                    v2 = float(M(path, date, float("nan")).from_orbit(elsewhere).value)
                    ctx.count("measure:state-given-in-another-station-frame")
                    d2 = geo.angdiff(v2, val) if cls_name == "Azimut" else abs(v2 - val)
                    # the detour adds two more station <-> Earth-fixed conversions, each within the base tolerance (measured worst
                    # 3e-4 of it over 13 000 samples once the detour is cartesian); a wrong station is off by kilometres
                    tol2 = {"Range": 4 * tol_pos, "Doppler": 4 * tol_rr, "Azimut": 4 * tol_az, "Elevation": 4 * tol_el}[cls_name]
                    ctx.resid("measure:via-other-station-frame:" + cls_name.lower(), d2, tol2, key="C11/measure-depends-on-the-frame-the-state-is-given-in",
                              witness=dict(wm, given_in=str(other_frame), value=v2, value_from_the_original_frame=val),
                              msg=f"{cls_name} of the same state given in the frame of station {other_frame}: {v2!r}, given in its original frame: {val!r}")
                except Exception as exc:
                    ctx.violation(f"C11/measure-{cls_name.lower()}-raises", dict(wm, exc=repr(exc), step="state given in another station's frame"), f"{cls_name}.from_orbit raised {exc!r}")
            meta_ok = (
                type(got) is M and got.date == given.date and tuple(got.path) == tuple(path) and got.frame is first and got.type == cls_name
            )
            ctx.expect(meta_ok, "C11/measure-metadata", dict(wm, got_type=type(got).__name__, got_path=[str(p) for p in got.path], got_date=str(got.date)),
                       f"{cls_name}.from_orbit changed type/date/path")


# ----------------------------------------------------------------------------------------------
def mask_checks(ctx, rng, station, table, how, base_w):
    az_t, el_t = table
    n = len(az_t)
    ctx.count(f"mask-size:{n}")
    if az_t[0] == 0.0:
        ctx.count("mask-first-az-zero")
    queries = []
    for x in az_t:
        queries.append(("node", x))
    prev = 0.0
    for k, x in enumerate(az_t):
        if x > prev:
            queries.append(("wrap-midpoint" if k == 0 else "midpoint", 0.5 * (prev + x)))
        prev = x
    queries.append(("zero", 0.0))
    queries.append(("two-pi", geo.TWO_PI))
    for _ in range(3):
        queries.append(("random", rng.uniform(0.0, geo.TWO_PI)))
    for _ in range(3):
        queries.append(("negative", -rng.uniform(0.0, 3 * geo.TWO_PI)))
        queries.append(("gt-2pi", geo.TWO_PI + rng.uniform(0.0, 3 * geo.TWO_PI)))
    queries.append(("negative", -rng.choice(az_t)))
    queries.append(("negative", -10 ** rng.uniform(-18, -6)))
    # a node azimuth shifted by whole turns (lands within rounding of the node)
    for _ in range(2):
        queries.append(("node-shifted", rng.choice(az_t) + rng.choice((-2, -1, 1, 2, 3)) * geo.TWO_PI))

    def lib(q, as_np):
        return float(station.get_mask(np.float64(q) if as_np else q))

    for qcls, q in queries:
        ctx.count("maskq:" + qcls)
        as_np = rng.random() < 0.5
        exp, slope, seg = geo.mask_value(az_t, el_t, q)
        w = dict(base_w, mask_az=list(az_t), mask_el=list(el_t), query=q, query_class=qcls, given=how, query_type="np.float64" if as_np else "float",
                 expected=exp, segment=seg)
        try:
            got = lib(q, as_np)
        except Exception as exc:
            ctx.violation("C11/mask-raises", dict(w, exc=repr(exc)), f"get_mask({q!r}) raised {exc!r}")
            continue
        # tol: the reduced azimuth may differ by 2 ulp(2pi) = 1.8e-15 rad (and by |k| * 2.4e-16 for
        # k whole turns) between two correct implementations -> |slope| * 1e-14; evaluation
        # rounding 4 eps * max|el| = 1.3e-15.  x100 -> 1e-12 (1 + |slope|); a wrong segment or a
        # missing wrap changes the value by ~ the elevation spread (1e-2 .. 1 rad).
        tol = 1e-12 * (1.0 + abs(slope))
        red = geo.reduce_azimuth(q)
        in_range = 0.0 <= q < geo.TWO_PI
        if red == 0.0 or qcls in ("zero", "two-pi"):
            key = "C11/mask-value-at-zero-2pi"
        elif qcls == "node" or (in_range and red in az_t):
            key = "C11/mask-node-value"
        elif seg == "wrap":
            key = "C11/mask-wrap-segment"
        else:
            key = "C11/mask-interior-interpolation"
        if not in_range and qcls != "two-pi":
            # separate "wrong value on the segment" from "wrong reduction of the azimuth"
            try:
                got_red = lib(red, False)
                exp_red = geo.mask_value(az_t, el_t, red)[0]
                if abs(got_red - exp_red) <= tol:
                    key = "C11/mask-periodicity"
            except Exception:
                pass
        ctx.resid("mask:" + qcls, abs(got - exp), tol, key=key, witness=dict(w, got=got),
                  msg=f"get_mask({q!r}) = {got!r}, piecewise-linear table value {exp!r}")
