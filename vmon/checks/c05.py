"""C05 -- analytical two-body (Kepler) and J2 propagation obey Kepler's laws.

Monitors (all reference-model monitors on the API boundary `Orbit.propagate(date|timedelta)`)
  * Kepler result vs the universal-variable solution (oracles/kepler_uv.py through
    oracles/twobody_ref.propagate_uv; a second elements+bisection route cross-checks the truth)
  * elements of the result (oracles/elements.py, vector definitions): a, e, i, node, perigee
    unchanged, M advanced by n*dt (and omega+M, which is well conditioned for small e)
  * composition  p(t2) o p(t1) == p(t1+t2),   inverse  p(-dt) o p(dt) == id,
    periodicity  p(dt +- T) == p(dt)  for bound orbits
  * J2: a, e, i constant; node / perigee / mean anomaly drift = first-order secular rates * dt
    (own formulas, Earth.J2 / Earth.r / mu read as data); explicit polar and critical inclinations;
    composition and inverse (consequences of "linear in time")

Tolerances (see `state_tol`) are derived from the conditioning of the element route the
propagators take by design (cartesian -> a by the vis-viva cancellation 2|a|/r0 -> n*dt;
e with an absolute error eps/e from sqrt(1-h^2/(a mu)); 1+e cos(nu) cancellation r/p far out on a
hyperbola), times K = 4000 ulp.  Measured floor on the unchanged tree: <= 1 % of the tolerance
(residual table in the evidence).  The smallest effect of a realistic defect (wrong mu, |a| vs a,
a J2 coefficient, a dropped modulo, a sign) is > 1e-6 relative; the widest tolerance is
~ 1e-9 relative (e = 1e-4) and typically 1e-12.
"""

import math

import numpy as np

from .. import env, gen, probe
from ..oracles import elements as el
from ..oracles import kepler_uv
from ..oracles import twobody_ref as tb

RULE = (
    "case = one generated initial state (eccentricity class in [1e-4,0.95] u [1.01,10], inclination class, "
    "central body, pericentre radius, anomaly / time since pericentre) given to the library in one of the 10 "
    "element forms (8 for hyperbolas) in one non-rotating frame, with one dt class in [-30 d, +30 d] on the "
    "microsecond grid, one random split dt=t1+t2 and one argument type (timedelta | Date); distinct = digest "
    "of these inputs; non-trivial = dt != 0 (dt = 0 cases are counted but flagged trivial)"
)
EXHAUSTIVE = []
ASSUMPTIONS = [
    "the universal-variable equations of oracles/kepler_uv.py are the two-body truth: bound orbits by kepler_uv.propagate "
    "itself; unbound orbits by the same equations re-solved in 60-digit decimal arithmetic (twobody_ref), because far out "
    "on a hyperbola f r0 + g v0 cancels like cosh(swept anomaly) in double precision; kepler_uv.propagate and an "
    "elements+bisection route must agree with it, else the case is not judged; oracles/elements.py = element definitions",
    "first-order secular J2 rates as in Vallado eq. 9-37/9-39/9-41 with the unperturbed mean motion; "
    "Earth.J2, Earth.equatorial_radius and body.mu of beyond.constants are data",
    "J2 secular rates are orbit averages: J2 cases are bound orbits (e in [1e-4, 0.95]) around the Earth",
    "for hyperbolic orbits the forms 'tle' and 'keplerian_mean_circular' are not defined (as in C01)",
    "non-rotating frames = EME2000, MOD, TOD, TEME, GCRF, G50, CIRF and body-centred frames with EME2000 "
    "orientation built like C01's; the propagators work in the frame of the orbit, no frame conversion is judged here",
    "instants are on the 1 us grid of datetime (the library measures dt through datetime); dates only label states",
    "Orbit/StateVector constructors, copy(form=) and Date arithmetic of the library are used to drive and read it",
]

DAY = 86400.0
DAY_US = 86400 * 10 ** 6
MAX_US = 30 * DAY_US
EPS = 2.220446049250313e-16
KTOL = 4000.0  # ulps; measured floor <= ~1 % of the resulting tolerances (>= 100x margin)

FORMS = list(el.FORMS)
HYP_UNDEFINED = {"tle", "keplerian_mean_circular"}
EARTH_FRAMES = ["EME2000", "MOD", "TOD", "TEME", "GCRF", "G50", "CIRF"]

ECC_CLASSES = [
    ("near-circular", 1e-4, 1e-2),
    ("moderate", 1e-2, 0.9),
    ("high", 0.9, 0.95),
    ("hyp-low", 1.01, 1.6),
    ("hyp-mid", 1.6, 3.6),
    ("hyp-high", 3.6, 10.0),
]
ELL_CLASSES = ECC_CLASSES[:3]
INC_CLASSES = list(gen.INC_CLASSES)
I_CRIT = math.acos(1 / math.sqrt(5.0))  # 63.4349 deg: 5 cos^2 i = 1
J2_INC = INC_CLASSES + ["polar-exact", "critical", "critical-retro"]
DT_CLASSES = ["uniform", "uniform", "log-small", "period", "k-periods", "zero", "1us", "edge"]


# ---------------------------------------------------------------------------------------------
def jobs(tier):
    q = tier == "quick"
    return [
        {"name": "kepler-earth", "n": 6000 if q else 160000, "eop": "zero", "kind": "kepler", "bodies": ["Earth"]},
        {"name": "kepler-bodies", "n": 3000 if q else 80000, "eop": "zero", "kind": "kepler", "bodies": ["Moon", "Sun", "Mars"]},
        {"name": "j2", "n": 4500 if q else 120000, "eop": "zero", "kind": "j2", "bodies": ["Earth"]},
        # dates only LABEL instants: epoch and request in different time scales, leap seconds in between (real IERS
        # tables), and one propagator object serving several orbits in turn (history)
        {"name": "labels-history", "n": 1500 if q else 40000, "eop": "real", "kind": "labels", "bodies": ["Earth"]},
    ]


def requirements(tier):
    req = {}
    for name, _lo, _hi in ECC_CLASSES:
        req["kepler:ecc:" + name] = 100
    for name, _lo, _hi in ELL_CLASSES:
        req["j2:ecc:" + name] = 100
    for f in FORMS:
        req["kepler:form:" + f] = 100
        req["j2:form:" + f] = 50
    for f in EARTH_FRAMES:
        req["kepler:frame:" + f] = 50
        req["j2:frame:" + f] = 50
    for b in ("Earth", "Moon", "Sun", "Mars"):
        req["kepler:body:" + b] = 100
    for d in set(DT_CLASSES):
        req["kepler:dt:" + d] = 50
    for a in ("timedelta", "Date"):
        req["kepler:arg:" + a] = 500
        req["j2:arg:" + a] = 500
    req.update({
        "M2E-calls-monitored": 10000,
        "kepler:dt-negative": 500, "kepler:dt-positive": 500,
        "kepler:uv-compared": 2000, "kepler:elements-compared": 2000, "kepler:composition": 2000,
        "kepler:inverse": 2000, "kepler:periodicity": 300, "kepler:hyperbolic-uv-compared": 500,
        "j2:rates-compared": 2000, "j2:inc:polar-exact": 100, "j2:inc:critical": 100, "j2:inc:critical-retro": 100,
        "j2:polar-node-checked": 100, "j2:critical-perigee-checked": 200, "j2:composition": 1000, "j2:inverse": 1000,
        "kepler:history-burn": 500, "j2:history-burn": 300,
        "labels:kepler:compared": 500, "labels:j2:compared": 500, "labels:leap-second-inside-span": 300,
        "labels:scales-differ": 500, "labels:shared-propagator-second-orbit": 500, "labels:inplace-edit": 200,
        "labels:first-orbit-asked-again": 500, "labels:several-dates-judged": 1500, "labels:several-dates:direct": 100,
        "labels:several-dates:iter": 100, "labels:several-dates:ephem": 100,
    })
    for s_ in LABEL_SCALES:
        req["labels:epoch-scale:" + s_] = 100
        req["labels:request-scale:" + s_] = 100
    return req


class NonTermination(Exception):
    """Raised by the iteration-budget monitor inside Form.M2E (never by the library)."""


M2E_BUDGET = 20000  # evaluations of sin / sinh inside ONE call of Form.M2E (a converging Newton needs < 20)


def setup(ctx, job):
    from beyond.frames.frames import Frame, get_frame
    from beyond.frames import orient
    from beyond.frames.center import Center
    from beyond.constants import Earth

    frames = {"Earth": [get_frame(n) for n in EARTH_FRAMES]}
    for name, body in gen.bodies().items():
        if name != "Earth":
            frames[name] = [Frame(f"VmonC05{name}Inertial", orient.EME2000, Center(f"VmonC05{name}", body=body))]
    # --- termination monitor (deterministic, no wall clock): Form.M2E iterates `while abs(E1 - E) >= tol`;
    # the module-level sin / sinh it calls are looked up late, so a counting wrapper can bound one call.
    from beyond.orbits import forms as forms_mod
    from beyond.orbits.forms import Form

    mon = {"active": False, "n": 0, "args": None}

    def counting(fn):
        def wrapper(x, *a, **k):
            if mon["active"]:
                mon["n"] += 1
                if mon["n"] > M2E_BUDGET:
                    mon["active"] = False
                    raise NonTermination(f"Form.M2E(e={mon['args'][0]!r}, M={mon['args'][1]!r}): more than {M2E_BUDGET} iterations")
            return fn(x, *a, **k)

        return wrapper

    orig = {"sin": forms_mod.sin, "sinh": forms_mod.sinh}
    forms_mod.sin = counting(orig["sin"])
    forms_mod.sinh = counting(orig["sinh"])
    raw_m2e = Form.__dict__["M2E"].__func__

    def guarded_m2e(cls, e, M):
        mon["active"], mon["n"], mon["args"] = True, 0, (float(e), float(M))
        try:
            return raw_m2e(cls, e, M)
        finally:
            mon["active"] = False
            ctx.count("M2E-calls-monitored")

    Form.M2E = classmethod(guarded_m2e)
    return {
        "restore": (forms_mod, orig, Form, Form.__dict__["M2E"], raw_m2e),
        "frames": frames,
        "j2": float(Earth.J2),
        "re": float(Earth.equatorial_radius),
        "oracle_disagree": 0,
        "n": 0,
    }


def finish(ctx, job, st):
    forms_mod, orig, Form, _g, raw = st["restore"]
    forms_mod.sin, forms_mod.sinh = orig["sin"], orig["sinh"]
    Form.M2E = classmethod(raw)
    # the universal-variable truth is cross-checked by a second route; if they disagree the case is
    # not judged.  That must stay exceptional, otherwise the run proves nothing.
    ctx.inconclusive_if(
        st["n"] > 0 and st["oracle_disagree"] > max(2, 0.002 * st["n"]),
        f"C05 oracles disagree in {st['oracle_disagree']} of {st['n']} cases (job {job['name']})",
    )


# ---------------------------------------------------------------------------------------------
def norm(x):
    return float(np.linalg.norm(x))


def state_tol(mu, a, e, inc, r0n, v0n, r1n, v1n, dt, extra_r=()):
    """Position / velocity tolerance of a state obtained through the mean-element route.

    error sources (each ~ eps = 2^-52 relative, K = KTOL of them allowed):
      * a from v^2/2 - mu/r : cancellation kappa0 = 2|a|/r0  -> dM = 1.5 n dt kappa0 eps
                              -> dr = 1.5 kappa0 |v1| |dt| eps   (along track)
      * e = sqrt(1 - h^2/(a mu)) : absolute error eps/e         -> dr = a eps/e
      * 1 - e^2 (p) near the parabola                           -> dr/r = eps/|1-e^2|
      * 1 + e cos(nu) = p/r far out on a hyperbola              -> dr/r = eps r/p (both ends)
      * node / argument of latitude from r_z / sin i             -> dr/r = eps / sin i
      * anomaly errors dM map to dr = |v1| dM / n : length scale L = max(r, |v1|/n)
    """
    aa = abs(a)
    p = aa * abs(1 - e * e)
    n = math.sqrt(mu / aa ** 3)
    kappa0 = max(1.0, 2 * aa / r0n)
    rr = max([r0n, r1n] + list(extra_r))
    cond = 4 + 1 / min(e, 1.0) + 2 / abs(1 - e * e) + 4 * (r0n + r1n + sum(extra_r)) / p + 2 / max(math.sin(inc), 1e-6)
    L = max(rr, v1n / n)
    g1 = mu / (r1n * r1n)
    Lv = max(v0n, v1n, g1 / n)
    tol_pos = KTOL * EPS * (cond * L + 1.5 * kappa0 * v1n * abs(dt))
    tol_vel = KTOL * EPS * (cond * Lv + 1.5 * kappa0 * g1 * abs(dt))
    return tol_pos, tol_vel


def element_tols(mu, a, e, i, r1n, v1n, M1, tol_pos, tol_vel):
    """First-order propagation of a state error (tol_pos, tol_vel) into the classical elements
    (safety factors >= 2 on every term)."""
    aa = abs(a)
    rho = tol_pos / r1n + tol_vel / v1n
    q = 1 + r1n * v1n * v1n / mu
    n = math.sqrt(mu / aa ** 3)
    si = max(math.sin(i), 1e-12)
    t_a = aa * (6 * aa / r1n + 2) * rho + 1e-13 * aa
    t_e = 4 * q * rho + 1e-14
    t_i = 4 * rho + 1e-13
    t_node = 4 * rho / si + 1e-13 / si
    t_peri = t_e / min(e, 1.0) + t_node
    t_M = abs(M1) * 1.5 * t_a / aa + 2 * n * tol_pos / v1n + 2 * t_e / min(e, 1.0) + 1e-13 * max(1.0, abs(M1))
    t_arglat = abs(M1) * 1.5 * t_a / aa + 2 * n * tol_pos / v1n + 4 * t_e + t_node + 1e-13 * max(1.0, abs(M1))
    return dict(a=t_a, e=t_e, i=t_i, raan=t_node, argp=t_peri, M=t_M, arglat=t_arglat)


def us_to_td(us):
    from beyond.dates import timedelta

    return timedelta(microseconds=int(us))


def gen_state(rng, job, idx, st, kind):
    """Initial state by class; returns a dict with truth (r, v) and the generated elements."""
    bodies = gen.bodies()
    body_name = job["bodies"][idx % len(job["bodies"])]
    body = bodies[body_name]
    mu = float(body.mu)
    classes = ELL_CLASSES if kind == "j2" else ECC_CLASSES
    cname, lo, hi = classes[(idx // len(job["bodies"])) % len(classes)]
    u = rng.random()
    if u < 0.04:
        e = lo  # the edges of the quantifier (1e-4, 0.95, 1.01) are hit exactly
    elif u < 0.08:
        e = hi
    elif cname == "near-circular":
        e = gen.loguniform(rng, lo, hi)
    else:
        e = rng.uniform(lo, hi)
    incs = J2_INC if kind == "j2" else INC_CLASSES
    iname = incs[(idx // (len(job["bodies"]) * len(classes))) % len(incs)]
    if iname == "polar-exact":
        inc = math.pi / 2
    elif iname == "critical":
        inc = I_CRIT
    elif iname == "critical-retro":
        inc = math.pi - I_CRIT
    else:
        inc = rng.uniform(*gen.INC_CLASSES[iname])
    raan = rng.uniform(0, 2 * math.pi)
    argp = rng.uniform(0, 2 * math.pi)
    R = float(body.equatorial_radius)
    rp = gen.loguniform(rng, 1.02 * R, (8 if kind == "j2" else 150) * R)
    a = rp / (1 - e)
    n = math.sqrt(mu / abs(a) ** 3)
    if e < 1:
        M, acls = gen.anomaly(rng, e)
    else:
        # time since pericentre within +-30 d (so that every reachable epoch stays within 60 d of it)
        acls = rng.choice(["near-peri", "days", "days", "hours"])
        span = {"near-peri": 600.0, "hours": 6 * 3600.0, "days": 30 * DAY}[acls]
        M = n * rng.uniform(-span, span)
    nu = el.nu_from_M(e, M)
    r, v = el.kep2cart(a, e, inc, raan, argp, nu, mu)
    return dict(body=body_name, mu=mu, ecc_class=cname, inc_class=iname, anomaly_class=acls, a=a, e=e, i=inc,
                raan=raan, argp=argp, M=M, nu=nu, n=n, r=np.array(r, float), v=np.array(v, float))


def gen_dt(rng, idx, c):
    """dt in integer microseconds, by class."""
    cls = rng.choice(DT_CLASSES)
    T_us = None
    if c["e"] < 1:
        T = 2 * math.pi / c["n"]
        if T * 1e6 <= MAX_US:
            T_us = int(round(T * 1e6))
    if cls in ("period", "k-periods") and T_us is None:
        cls = "uniform"
    sgn = rng.choice([-1, 1])
    if cls == "zero":
        us = 0
    elif cls == "1us":
        us = sgn
    elif cls == "edge":
        us = sgn * MAX_US
    elif cls == "period":
        us = sgn * T_us
    elif cls == "k-periods":
        kmax = MAX_US // T_us
        if kmax < 2:
            cls, us = "period", sgn * T_us
        else:
            us = sgn * int(round(rng.randint(2, min(kmax, 400)) * 2 * math.pi / c["n"] * 1e6))
            us = max(-MAX_US, min(MAX_US, us))
    elif cls == "log-small":
        us = sgn * int(round(gen.loguniform(rng, 1e-3, DAY) * 1e6))
    else:
        us = rng.randint(-MAX_US, MAX_US)
    return cls, us, T_us


def gen_split(rng, us):
    """t1 + t2 = us, both within +-30 d (integer microseconds)."""
    mode = rng.choice(["inside", "overshoot", "opposite", "any"])
    if mode == "inside":
        t1 = int(round(us * rng.random()))
    elif mode == "overshoot":
        # go past the target, then come back
        room = MAX_US - abs(us)
        t1 = us + (1 if us >= 0 else -1) * rng.randint(0, max(0, room))
    elif mode == "opposite":
        t1 = -(1 if us >= 0 else -1) * rng.randint(0, MAX_US - abs(us) if abs(us) < MAX_US else 0)
    else:
        t1 = rng.randint(max(-MAX_US, us - MAX_US), min(MAX_US, us + MAX_US))
    t1 = max(-MAX_US, min(MAX_US, t1))
    t2 = us - t1
    if abs(t2) > MAX_US:
        t1 = us // 2
        t2 = us - t1
    return mode, t1, t2


def make_orbit(form, vals, date, frame, pname, rng):
    from beyond.orbits import Orbit, StateVector
    from beyond.propagators import get_propagator

    how = rng.choice(["name", "instance", "as_orbit"])
    if how == "name":
        return Orbit(vals, date, form, frame, pname)
    if how == "instance":
        return Orbit(vals, date, form, frame, get_propagator(pname)())
    return StateVector(vals, date, form, frame).as_orbit(get_propagator(pname)())


def read_state(out, frame):
    """Cartesian numbers of a result in the case's frame (no-op conversions when already there)."""
    if out.form.name != "cartesian" or out.frame.name != frame.name:
        out = out.copy(form="cartesian", frame=frame)
    return probe.arr(out)


def argument(argtype, date0, us):
    td = us_to_td(us)
    return td if argtype == "timedelta" else date0 + td


# ---------------------------------------------------------------------------------------------
LABEL_SCALES = ["UTC", "TAI", "TT", "GPS", "TDB"]
_tables = None


def tables():
    global _tables
    if _tables is None:
        from ..oracles import timescales as ts

        _tables = ts.Tables(env.repo_dir() / env.POLE)
    return _tables


def run_labels_case(ctx, job, idx, rng, st):
    """The elapsed time that enters n*dt is the time between two INSTANTS, whatever scale labels them; and the state a
    propagator returns for an orbit depends on that orbit only, not on the orbits the same propagator object served before."""
    from beyond.dates import Date
    from beyond.orbits import Orbit
    from beyond.propagators import get_propagator

    kind = ("kepler", "j2")[idx % 2]
    K = kind
    pname = "Kepler" if kind == "kepler" else "J2"
    job_e = dict(job, bodies=["Earth"])

    def one_state(sub):
        c = gen_state(rng, job_e, rng.randrange(10 ** 6), st, "j2")  # bound Earth orbits for both propagators
        form = rng.choice(FORMS)
        vals = list(el.form_values(form, c["r"], c["v"], c["mu"]))
        r0, v0 = tb.form_to_cartesian(form, vals, c["mu"])
        return c, form, vals, r0, v0

    # ---- the two instants, built on the uniform scale, then labelled -------------------------------------------
    leaps = [m for m in tables().leap_mjds() if env.EOP_MJD_MIN + 40 < m < env.EOP_MJD_MAX - 40]
    span_us = int(round(gen.loguniform(rng, 60.0, 20 * DAY) * 1e6)) * rng.choice([-1, 1])
    if rng.random() < 0.5:
        # a leap second strictly inside the span
        leap = rng.choice(leaps)
        frac = rng.uniform(0.05, 0.95)
        t0 = Date(leap, scale="TAI") - us_to_td(int(span_us * frac))
    else:
        leap = None
        t0 = Date(rng.randrange(env.EOP_MJD_MIN + 40, env.EOP_MJD_MAX - 40), scale="TAI") + us_to_td(rng.randrange(DAY_US))
    t1 = t0 + us_to_td(span_us)
    s0, s1 = rng.choice(LABEL_SCALES), rng.choice(LABEL_SCALES)
    date0, date1 = t0.change_scale(s0), t1.change_scale(s1)
    if abs((date0 - t0).total_seconds()) > 1.5e-6 or abs((date1 - t1).total_seconds()) > 1.5e-6:
        # relabelling moved the instant: that is C03's subject (known there: offsets looked up by the day of the label,
        # within TAI-UTC seconds of a leap-second midnight); the propagators are judged on instants that survived
        ctx.count("labels:not-judged-relabelling-moved-the-instant")
        raise env.HarnessSkip()
    dt = span_us / 1e6
    lo, hi = sorted((t0.change_scale("UTC").mjd, t1.change_scale("UTC").mjd))
    inside = [m for m in leaps if lo < m <= hi]
    ctx.count("labels:epoch-scale:" + s0)
    ctx.count("labels:request-scale:" + s1)
    if s0 != s1:
        ctx.count("labels:scales-differ")
    if inside:
        ctx.count("labels:leap-second-inside-span")

    frame = rng.choice(st["frames"]["Earth"])
    cA, formA, valsA, rA, vA = one_state("A")
    cB, formB, valsB, rB, vB = one_state("B")
    descr = dict(kind=kind, frame=frame.name, epoch=str(date0), request=str(date1), dt_s=dt, leap_inside=bool(inside),
                 A=dict(form=formA, values=[float(x) for x in valsA]), B=dict(form=formB, values=[float(x) for x in valsB]))
    ctx.case(descr, nontrivial=True)
    W = dict(descr, how="one propagator object P; A = Orbit(valuesA, epoch, formA, frame, P); A.propagate(request); "
                        "B = Orbit(valuesB, epoch, formB, frame, P); B.propagate(request); A.propagate(request) again; "
                        "A[:] = valuesB-like edit; A.propagate(request)")

    def truth(r0, v0, mu):
        if kind == "kepler":
            rt, vt, _solver, _sr, _sv = tb.propagate_uv(r0, v0, dt, mu)
            return rt, vt
        ci = el.classical(r0, v0, mu)
        _e, rt, vt = tb.j2_secular(ci["a"], ci["e"], ci["i"], ci["raan"], ci["argp"], ci["M"], dt, mu, st["j2"], st["re"])
        return rt, vt

    def judge(tag, keyname, c, r0, v0, res, extra=None):
        o = read_state(res, frame)
        rt, vt = truth(r0, v0, c["mu"])
        tol_p, tol_v = state_tol(c["mu"], c["a"], c["e"], c["i"], norm(r0), norm(v0), norm(rt), norm(vt), dt)
        # the two labels are rounded to the microsecond once each, and so is their difference
        tol_p += 3e-6 * norm(vt)
        tol_v += 3e-6 * c["mu"] / norm(rt) ** 2
        ok = bool(np.all(np.isfinite(o)))
        dp = norm(o[:3] - rt) if ok else float("nan")
        dv = norm(o[3:] - vt) if ok else float("nan")
        w = dict(W, step=tag, got=o.tolist(), truth_r=rt.tolist(), truth_v=vt.tolist(), **(extra or {}))
        ctx.resid(f"labels:{K}:{keyname}:pos", dp, tol_p, key=f"C05/{K}-{keyname}", witness=w,
                  msg=f"{pname} {tag}: |dr|={dp!r} m from the state {dt} s after the epoch (epoch in {s0}, request in {s1}"
                      f"{', leap second in between' if inside else ''})")
        ctx.resid(f"labels:{K}:{keyname}:vel", dv, tol_v, key=f"C05/{K}-{keyname}", witness=w, msg=f"{pname} {tag}: |dv|={dv!r} m/s")
        return o

    P = get_propagator(pname)()
    try:
        A = Orbit(valsA, date0, formA, frame, P)
        resA = A.propagate(date1)
        ddate = abs((resA.date - date1).total_seconds())
        ctx.expect(ddate <= 1.5e-6, f"C05/{K}-result-date", dict(W, result_date=str(resA.date)), f"result dated {resA.date}, requested {date1}")
        ctx.count(f"labels:{K}:compared")
        oA = judge("A.propagate(request)", "elapsed-time-depends-on-date-labels", cA, rA, vA, resA)

        # ---- the same propagator object now serves another orbit -------------------------------------------
        B = Orbit(valsB, date0, formB, frame, P)
        resB = B.propagate(date1)
        ctx.count("labels:shared-propagator-second-orbit")
        judge("B.propagate(request) with the propagator object that served A", "result-depends-on-orbits-served-before", cB, rB, vB, resB)

        resA2 = A.propagate(date1)
        oA2 = read_state(resA2, frame)
        ctx.count("labels:first-orbit-asked-again")
        same = bool(np.array_equal(oA, oA2))
        ctx.expect(same, f"C05/{K}-result-depends-on-orbits-served-before", dict(W, first=oA.tolist(), again=oA2.tolist()),
                   f"{pname}: A.propagate(request) after the propagator served B differs from the first answer by "
                   f"{norm(oA2[:3] - oA[:3])!r} m")

        # ---- one assignment of the orbit, several dates: the propagator object used directly, an iteration, an ephemeris
        # (n.dt is counted from the epoch for every date, whatever was asked before)
        route = ("direct", "iter", "ephem")[(idx // 2) % 3]
        ctx.count("labels:several-dates:" + route)
        A2 = Orbit(valsA, date0, formA, frame, get_propagator(pname)())
        fr = sorted(rng.uniform(0.05, 1.0) for _ in range(3))
        if route == "direct":
            P2 = get_propagator(pname)()
            P2.orbit = A2
            seq = [(f, P2.propagate(t0 + us_to_td(int(span_us * f)))) for f in fr]
        else:
            n_s = 4
            step_td = us_to_td(span_us // n_s)
            if route == "iter":
                pts = list(A2.iter(start=date0, stop=step_td * n_s, step=step_td))
            else:
                pts = list(A2.ephem(start=date0, stop=step_td * n_s, step=step_td))
            seq = [((x.date - t0).total_seconds() / dt, x) for x in pts[1:]]
        dt_full = dt
        for f, res in seq:
            dt = dt_full * f  # `truth` and `judge` read dt
            if abs(dt) < 1e-3:
                continue
            ctx.count("labels:several-dates-judged")
            judge(f"{route}: date {f:.3f} of the span, asked after earlier dates on the same assignment", "state-depends-on-dates-asked-before",
                  cA, rA, vA, res, extra=dict(route=route, fraction=f))
        dt = dt_full

        # ---- the orbit is edited in place (another size and shape), then asked again -------------------------
        if rng.random() < 0.5:
            cC, formC, valsC, rC, vC = one_state("C")
            A.form = formC
            A[:] = valsC
            resC = A.propagate(date1)
            ctx.count("labels:inplace-edit")
            judge("A.propagate(request) after A.form = formC; A[:] = valuesC", "result-depends-on-orbits-served-before", cC, rC, vC, resC,
                  extra=dict(C=dict(form=formC, values=[float(x) for x in valsC])))
    except NonTermination as exc:
        ctx.violation(f"C05/{K}-mean-to-eccentric-anomaly-iteration-does-not-terminate", dict(W, exc=str(exc)), str(exc))
    except Exception as exc:
        ctx.violation(f"C05/{K}-propagate-raises", dict(W, exc=repr(exc)), f"labels/history scenario: propagate raised {exc!r}")


def run_case(ctx, job, idx, rng, st):
    from beyond.dates import Date

    kind = job["kind"]
    if kind == "labels":
        return run_labels_case(ctx, job, idx, rng, st)
    K = kind
    c = gen_state(rng, job, idx, st, kind)
    hyper = c["e"] > 1
    mu, r0, v0 = c["mu"], c["r"], c["v"]
    forms = [f for f in FORMS if not (hyper and f in HYP_UNDEFINED)]
    form = rng.choice(forms)
    frames = st["frames"][c["body"]]
    frame = rng.choice(frames)
    dtcls, us, T_us = gen_dt(rng, idx, c)
    argtype = rng.choice(("timedelta", "Date"))
    split_mode, t1, t2 = gen_split(rng, us)
    date0 = Date(2004, 1, 1) + us_to_td(rng.randrange(0, 12 * 365 * DAY_US))
    dt = us / 1e6

    vals = list(el.form_values(form, r0, v0, mu))
    if not hyper and form in ("keplerian_mean", "tle"):
        vals[5 if form == "keplerian_mean" else 4] = c["M"]  # possibly negative / > pi: solver branches
    # the truth starts from the state the given numbers represent (some forms are ill-conditioned views)
    rg, vg = r0, v0
    r0, v0 = tb.form_to_cartesian(form, vals, mu)
    if norm(r0 - rg) > 1e-8 * norm(rg) or norm(v0 - vg) > 1e-8 * norm(vg):
        raise RuntimeError(f"oracle inverse of form {form} inconsistent with the generated state")

    descr = dict(kind=kind, body=c["body"], frame=frame.name, form=form, a=c["a"], e=c["e"], i=c["i"], raan=c["raan"],
                 argp=c["argp"], M=c["M"], ecc_class=c["ecc_class"], inc_class=c["inc_class"], dt_class=dtcls,
                 dt_us=us, t1_us=t1, t2_us=t2, argtype=argtype, date0=str(date0))
    ctx.case(descr, nontrivial=(us != 0))
    for k, v in (("ecc", c["ecc_class"]), ("inc", c["inc_class"]), ("form", form), ("frame", frame.name), ("body", c["body"]),
                 ("dt", dtcls), ("arg", argtype), ("split", split_mode), ("anomaly", c["anomaly_class"])):
        ctx.count(f"{K}:{k}:{v}")
    ctx.count(f"{K}:dt-" + ("negative" if us < 0 else "positive" if us > 0 else "zero"))
    st["n"] += 1
    hy = "-hyperbolic" if hyper else ""
    nb = "-nonearth-body" if c["body"] != "Earth" else ""
    W = dict(descr, r0=r0.tolist(), v0=v0.tolist(), mu=mu, values_given=[float(x) for x in vals],
             how="Orbit(values_given, date0, form, frame, propagator).propagate(timedelta(microseconds=dt_us) | date0+that)")

    pname = "Kepler" if kind == "kepler" else "J2"
    orb = make_orbit(form, vals, date0, frame, pname, rng)

    def prop(o, d0, micro, tag):
        """o.propagate(argument) -> (result object, cartesian array) or None after reporting."""
        try:
            res = o.propagate(argument(argtype, d0, micro))
            arr = read_state(res, frame)
        except NonTermination as exc:
            # the Newton iteration of the mean -> eccentric/hyperbolic anomaly conversion cycles for ever
            ctx.violation(f"C05/{K}-mean-to-eccentric-anomaly-iteration-does-not-terminate{hy}",
                          dict(W, step=tag, t_us=micro, exc=str(exc)), f"{tag}: {exc}")
            return None
        except Exception as exc:  # the property promises a state for every such input
            ctx.violation(f"C05/{K}-propagate-raises{hy}", dict(W, step=tag, exc=repr(exc)), f"{tag}: propagate raised {exc!r}")
            return None
        return res, arr

    got = prop(orb, date0, us, "p(dt)")
    if got is None:
        return
    out, o1 = got
    # the result must be labelled with the requested instant (the composition law relies on it)
    ddate = abs((out.date - date0).total_seconds() - dt)
    ctx.expect(ddate <= 1.5e-6, f"C05/{K}-result-date", dict(W, result_date=str(out.date)),
               f"result dated {out.date}, requested {date0} + {dt} s")

    r0n, v0n = norm(r0), norm(v0)

    # ---------------- truth --------------------------------------------------------------------
    if kind == "kepler":
        rt, vt, solver, sr, sv = tb.propagate_uv(r0, v0, dt, mu)
        ctx.count("kepler:uv-solver:" + solver)
        r2, v2 = tb.propagate_elements(r0, v0, dt, mu)
        expected = None
        if hyper:
            # the shared double-precision solver must reproduce the 60-digit solution of the same equations within
            # its own rounding (eps * cancellation scale; measured <= 10): otherwise the truth is not trustworthy
            ru, vu = kepler_uv.propagate(r0, v0, dt, mu)
            if not (norm(ru - rt) <= 200 * EPS * sr + 1e-9 * norm(rt) * 1e-3 and norm(vu - vt) <= 200 * EPS * sv + 1e-12 * norm(vt)):
                st["oracle_disagree"] += 1
                ctx.count("kepler:oracle-disagree-not-judged")
                ctx.note("oracle-disagree-last", dict(descr, d_pos=norm(ru - rt), scale=sr, which="kepler_uv vs decimal"))
                return
            ctx.count("kepler:kepler_uv-agrees-with-decimal-truth")
    else:
        # elements of the state the given numbers represent (see form_to_cartesian): (omega, M) are individually
        # ill-conditioned for small e but enter the model state only through well-conditioned combinations
        ci = el.classical(r0, v0, mu)
        expected, rt, vt = tb.j2_secular(ci["a"], ci["e"], ci["i"], ci["raan"], ci["argp"], ci["M"], dt, mu, st["j2"], st["re"])
        r2 = v2 = None
    r1n, v1n = norm(rt), norm(vt)
    tol_p, tol_v = state_tol(mu, c["a"], c["e"], c["i"], r0n, v0n, r1n, v1n, dt)
    if r2 is not None and (norm(r2 - rt) > tol_p / 4 or norm(v2 - vt) > tol_v / 4):
        st["oracle_disagree"] += 1
        ctx.count("kepler:oracle-disagree-not-judged")
        ctx.note("oracle-disagree-last", dict(descr, d_pos=norm(r2 - rt), tol=tol_p))
        return

    # ---------------- result vs truth ----------------------------------------------------------
    finite = bool(np.all(np.isfinite(o1)))
    dpos = norm(o1[:3] - rt) if finite else float("nan")
    dvel = norm(o1[3:] - vt) if finite else float("nan")
    if kind == "kepler":
        key = "C05/kepler-nan" + hy + nb if not finite else "C05/kepler-vs-universal-variable" + hy + nb
        label = "kepler:uv" + (":hyp" if hyper else ":ell")
        what = "universal-variable solution"
        ctx.count("kepler:uv-compared")
        if hyper:
            ctx.count("kepler:hyperbolic-uv-compared")
    else:
        key = "C05/j2-nan" if not finite else "C05/j2-vs-secular-model-state"
        label = "j2:state"
        what = "first-order secular J2 model"
    w1 = dict(W, got=o1.tolist(), truth_r=rt.tolist(), truth_v=vt.tolist())
    ctx.resid(label + ":pos", dpos, tol_p, key=key, witness=w1, msg=f"{pname} p(dt): |dr|={dpos!r} m vs {what} (|r|={r1n:.6g} m)")
    ctx.resid(label + ":vel", dvel, tol_v, key=key, witness=w1, msg=f"{pname} p(dt): |dv|={dvel!r} m/s vs {what}")
    if not finite:
        return

    # ---------------- elements of the result ----------------------------------------------------
    cl0 = el.classical(r0, v0, mu)
    cl1 = el.classical(o1[:3], o1[3:], mu)
    r1o, v1o = norm(o1[:3]), norm(o1[3:])
    if kind == "kepler":
        M1_exp = cl0["M"] + cl0["n"] * dt
        raan_exp, argp_exp = cl0["raan"], cl0["argp"]
    else:
        M1_exp = cl0["M"] + expected["m_dot"] * dt
        raan_exp = cl0["raan"] + expected["raan_dot"] * dt
        argp_exp = cl0["argp"] + expected["argp_dot"] * dt
    et = element_tols(mu, c["a"], c["e"], c["i"], r1o, v1o, M1_exp if hyper else math.pi, tol_p, tol_v)
    if kind == "j2":
        # the secular angles are products rate*dt: relative rounding of the products
        for k_, ang in (("raan", expected["raan_dot"] * dt), ("argp", expected["argp_dot"] * dt), ("M", expected["m_dot"] * dt)):
            et[k_] += 1e-13 * abs(ang)
        et["arglat"] += 1e-13 * (abs(expected["m_dot"] * dt) + abs(expected["argp_dot"] * dt))
    we = dict(W, got=o1.tolist(), elements_in={k: cl0[k] for k in ("a", "e", "i", "raan", "argp", "M", "n")},
              elements_out={k: cl1[k] for k in ("a", "e", "i", "raan", "argp", "M")})
    ctx.count(f"{K}:elements-compared" if kind == "kepler" else "j2:rates-compared")
    const = "unchanged" if kind == "kepler" else "constant"

    def elem(name, d, tol, keyname, msg):
        ctx.resid(f"{K}:elem:{name}" + (":hyp" if hyper else ""), d, tol, key=f"C05/{K}-{keyname}{hy}", witness=we, msg=msg)

    elem("a", abs(cl1["a"] - cl0["a"]), et["a"], f"a-not-{const}", f"a: {cl0['a']!r} -> {cl1['a']!r}")
    elem("e", abs(cl1["e"] - cl0["e"]), et["e"], f"e-not-{const}", f"e: {cl0['e']!r} -> {cl1['e']!r}")
    elem("i", abs(cl1["i"] - cl0["i"]), et["i"], f"i-not-{const}", f"i: {cl0['i']!r} -> {cl1['i']!r}")
    if kind == "kepler":
        elem("raan", el.angdiff(cl1["raan"], raan_exp), et["raan"], "node-not-unchanged", f"node: {cl0['raan']!r} -> {cl1['raan']!r}")
        elem("argp", el.angdiff(cl1["argp"], argp_exp), et["argp"], "perigee-not-unchanged", f"perigee: {cl0['argp']!r} -> {cl1['argp']!r}")
        if hyper:
            dM = abs(cl1["M"] - M1_exp)
        else:
            dM = el.angdiff(cl1["M"], M1_exp)
            elem("argp+M", el.angdiff(cl1["argp"] + cl1["M"], argp_exp + M1_exp), et["arglat"], "perigee-plus-mean-anomaly-not-n-dt",
                 f"omega+M advanced by {el.wrap(cl1['argp'] + cl1['M'] - cl0['argp'] - cl0['M'])!r}, n*dt = {cl0['n'] * dt!r} (mod 2pi)")
        elem("M", dM, et["M"], "mean-anomaly-not-n-dt", f"M: {cl0['M']!r} -> {cl1['M']!r}, expected M0 + n*dt = {M1_exp!r}")
    else:
        elem("raan", el.angdiff(cl1["raan"], raan_exp), et["raan"], "node-rate",
             f"node drift {el.wrap(cl1['raan'] - cl0['raan'])!r} rad, secular rate*dt = {expected['raan_dot'] * dt!r} (mod 2pi)")
        elem("argp", el.angdiff(cl1["argp"], argp_exp), et["argp"], "perigee-rate",
             f"perigee drift {el.wrap(cl1['argp'] - cl0['argp'])!r} rad, secular rate*dt = {expected['argp_dot'] * dt!r} (mod 2pi)")
        elem("M", el.angdiff(cl1["M"], M1_exp), et["M"], "mean-anomaly-rate",
             f"M drift {el.wrap(cl1['M'] - cl0['M'])!r} rad, (n + secular rate)*dt = {expected['m_dot'] * dt!r} (mod 2pi)")
        elem("argp+M", el.angdiff(cl1["argp"] + cl1["M"], argp_exp + M1_exp), et["arglat"], "perigee-plus-mean-anomaly-rate",
             "omega+M drift differs from the sum of the secular rates * dt")
        if c["inc_class"] == "polar-exact":
            ctx.count("j2:polar-node-checked")
            ctx.resid("j2:polar-node-drift", el.angdiff(cl1["raan"], cl0["raan"]), et["raan"], key="C05/j2-node-drift-on-polar-orbit",
                      witness=we, msg=f"polar orbit: node moved by {el.wrap(cl1['raan'] - cl0['raan'])!r} rad in {dt} s")
        if c["inc_class"] in ("critical", "critical-retro"):
            ctx.count("j2:critical-perigee-checked")
            ctx.resid("j2:critical-perigee-drift", el.angdiff(cl1["argp"], cl0["argp"]), et["argp"],
                      key="C05/j2-perigee-drift-at-critical-inclination", witness=we,
                      msg=f"critical inclination: perigee moved by {el.wrap(cl1['argp'] - cl0['argp'])!r} rad in {dt} s")

    # ---------------- composition  p(t2) o p(t1) = p(t1+t2) -------------------------------------
    got1 = prop(orb, date0, t1, "p(t1)")
    if got1 is not None:
        mid, m1 = got1
        got2 = prop(mid, mid.date, t2, "p(t2) after p(t1)") if np.all(np.isfinite(m1)) else None
        if got2 is not None:
            _o12, o12 = got2
            rmn, vmn = norm(m1[:3]), norm(m1[3:])
            ta_p, ta_v = state_tol(mu, c["a"], c["e"], c["i"], r0n, v0n, rmn, vmn, t1 / 1e6)
            tb_p, tb_v = state_tol(mu, c["a"], c["e"], c["i"], rmn, vmn, r1n, v1n, t2 / 1e6)
            # an error of the intermediate state is carried over t2 (along-track growth 3 n t2 / 2 ... : bounded by
            # the same dynamical term with the intermediate tolerance as relative a-error)
            n_ = math.sqrt(mu / abs(c["a"]) ** 3)
            grow = 1 + 3 * n_ * abs(t2) / 1e6 * max(1.0, abs(c["a"]) / min(rmn, r1n))
            cp = tol_p + tb_p + (ta_p + ta_v / vmn * rmn) * grow * max(1.0, v1n / vmn, r1n / rmn)
            cv = tol_v + tb_v + (ta_v + ta_p / rmn * vmn) * grow * max(1.0, v1n / vmn, (mu / r1n ** 2) / (mu / rmn ** 2))
            ok12 = bool(np.all(np.isfinite(o12)))
            d12 = norm(o12[:3] - o1[:3]) if ok12 else float("nan")
            dv12 = norm(o12[3:] - o1[3:]) if ok12 else float("nan")
            wc = dict(W, direct=o1.tolist(), intermediate=m1.tolist(), composed=o12.tolist())
            ctx.count(f"{K}:composition")
            ctx.resid(f"{K}:composition:pos" + (":hyp" if hyper else ""), d12, cp, key=f"C05/{K}-composition{hy}", witness=wc,
                      msg=f"p(t2) after p(t1) differs from p(t1+t2) by {d12!r} m (t1={t1 / 1e6} s, t2={t2 / 1e6} s)")
            ctx.resid(f"{K}:composition:vel" + (":hyp" if hyper else ""), dv12, cv, key=f"C05/{K}-composition{hy}", witness=wc,
                      msg=f"p(t2) after p(t1) differs from p(t1+t2) by {dv12!r} m/s")

    # ---------------- inverse  p(-dt) o p(dt) = id ----------------------------------------------
    gotb = prop(out, out.date, -us, "p(-dt) after p(dt)")
    if gotb is not None:
        _b, ob = gotb
        tb_p, tb_v = state_tol(mu, c["a"], c["e"], c["i"], r1n, v1n, r0n, v0n, dt)
        n_ = math.sqrt(mu / abs(c["a"]) ** 3)
        grow = 1 + 3 * n_ * abs(dt) * max(1.0, abs(c["a"]) / min(r0n, r1n))
        ip = tb_p + (tol_p + tol_v / v1n * r1n) * grow * max(1.0, v0n / v1n, r0n / r1n)
        iv = tb_v + (tol_v + tol_p / r1n * v1n) * grow * max(1.0, v0n / v1n, (r1n / r0n) ** 2)
        okb = bool(np.all(np.isfinite(ob)))
        db = norm(ob[:3] - r0) if okb else float("nan")
        dvb = norm(ob[3:] - v0) if okb else float("nan")
        wi = dict(W, forward=o1.tolist(), back=ob.tolist())
        ctx.count(f"{K}:inverse")
        ctx.resid(f"{K}:inverse:pos" + (":hyp" if hyper else ""), db, ip, key=f"C05/{K}-inverse{hy}", witness=wi,
                  msg=f"p(-dt) after p(dt) misses the initial position by {db!r} m (dt={dt} s)")
        ctx.resid(f"{K}:inverse:vel" + (":hyp" if hyper else ""), dvb, iv, key=f"C05/{K}-inverse{hy}", witness=wi,
                  msg=f"p(-dt) after p(dt) misses the initial velocity by {dvb!r} m/s")

    # ---------------- periodicity (Kepler, bound orbits whose period fits the quantifier) ------
    if kind == "kepler" and T_us is not None:
        s = -1 if us > 0 else 1
        if abs(us + s * T_us) > MAX_US:
            s = -s
        if abs(us + s * T_us) <= MAX_US:
            gotT = prop(orb, date0, us + s * T_us, "p(dt +- T)")
            if gotT is not None:
                _t, oT = gotT
                T_true = 2 * math.pi / cl0["n"]
                # the period is not on the microsecond grid: p(dt + s*T_us) is p(dt) advanced by the known slip
                slip = s * (T_us / 1e6 - T_true)
                pred_r = o1[:3] + o1[3:] * slip
                pred_v = o1[3:] - mu * o1[:3] / r1o ** 3 * slip
                unc = 8 * EPS * T_true  # rounding of T_true itself
                tp_p, tp_v = state_tol(mu, c["a"], c["e"], c["i"], r0n, v0n, r1n, v1n, dt + s * T_us / 1e6)
                okT = bool(np.all(np.isfinite(oT)))
                dT = norm(oT[:3] - pred_r) if okT else float("nan")
                dvT = norm(oT[3:] - pred_v) if okT else float("nan")
                wT = dict(W, at_dt=o1.tolist(), at_dt_plus_T=oT.tolist(), T_us=s * T_us, T_true=T_true, slip_s=slip)
                ctx.count("kepler:periodicity")
                ctx.resid("kepler:periodicity:pos", dT, tol_p + tp_p + v1n * unc, key="C05/kepler-periodicity", witness=wT,
                          msg=f"p(dt {'+' if s > 0 else '-'} T) differs from p(dt) by {dT!r} m (T={T_true} s, grid slip {slip} s accounted)")
                ctx.resid("kepler:periodicity:vel", dvT, tol_v + tp_v + (mu / r1n ** 2) * unc, key="C05/kepler-periodicity", witness=wT,
                          msg=f"p(dt +- T) differs from p(dt) by {dvT!r} m/s")

    # ---------------- history: coast / burn / coast -----------------------------------------------
    # The state the propagator returned (or a copy of it, or the initial orbit after its derived quantities were looked at)
    # is edited in place so that its semi-major axis changes, and is propagated again: the second arc obeys the same laws
    # with the elements of the EDITED state.  Nothing may survive from the object's past (mean motion, rates).
    if idx % 3 == 0:
        mode = ("returned-state", "copy-of-returned-state", "initial-orbit-after-infos")[(idx // 3) % 3]
        try:
            if mode == "returned-state":
                obj = out
            elif mode == "copy-of-returned-state":
                obj = out.copy()
            else:
                _ = (orb.infos.n, orb.infos.period if not hyper else None)
                obj = orb.copy()
            if obj.form.name != "cartesian":
                obj.form = "cartesian"
            f = 1 + rng.choice((-1, 1)) * rng.uniform(0.004, 0.03)
            obj[3:] = probe.arr(obj)[3:] * f
            hb = read_state(obj, frame)
        except Exception as exc:
            ctx.violation(f"C05/{K}-history-edit-raises", dict(W, mode=mode, exc=repr(exc)), f"editing a {mode} in place raised {exc!r}")
            return
        rb, vb = hb[:3].copy(), hb[3:].copy()
        cb = el.classical(rb, vb, mu)
        if not (cb["e"] < 0.97 and cb["a"] > 0 and np.all(np.isfinite(hb))):
            ctx.count(f"{K}:history-burn-skipped-not-elliptic")
            return
        dtb = t2 / 1e6 if t2 else dt
        micro = t2 if t2 else us
        gotc = prop(obj, obj.date, micro, f"second arc after an in-place edit ({mode})")
        if gotc is None:
            return
        _c, oc = gotc
        if kind == "kepler":
            rtb, vtb, _s, _sr, _sv = tb.propagate_uv(rb, vb, dtb, mu)
        else:
            _e, rtb, vtb = tb.j2_secular(cb["a"], cb["e"], cb["i"], cb["raan"], cb["argp"], cb["M"], dtb, mu, st["j2"], st["re"])
        tp, tv = state_tol(mu, cb["a"], cb["e"], cb["i"], norm(rb), norm(vb), norm(rtb), norm(vtb), dtb)
        okc = bool(np.all(np.isfinite(oc)))
        dpc = norm(oc[:3] - rtb) if okc else float("nan")
        dvc = norm(oc[3:] - vtb) if okc else float("nan")
        wh = dict(W, mode=mode, factor=f, edited_state=hb.tolist(), dt_second_arc=dtb, got=oc.tolist(), truth_r=rtb.tolist(), truth_v=vtb.tolist(),
                  how="state edited in place (velocity scaled), then propagated again; truth from the edited numbers")
        ctx.count(f"{K}:history-burn")
        ctx.count(f"{K}:history-burn:{mode}")
        ctx.resid(f"{K}:history-burn:pos", dpc, tp, key=f"C05/{K}-second-arc-after-inplace-edit", witness=wh,
                  msg=f"{pname}: second arc after an in-place velocity change ({mode}) is {dpc!r} m off the law applied to the edited state")
        ctx.resid(f"{K}:history-burn:vel", dvc, tv, key=f"C05/{K}-second-arc-after-inplace-edit", witness=wh,
                  msg=f"{pname}: second arc after an in-place velocity change ({mode}) is {dvc!r} m/s off")
