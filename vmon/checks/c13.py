"""C13 -- CCSDS OPM / OEM / OMM / TDM messages round-trip in KVN and XML.

Monitors (all observe the real `beyond.io.ccsds.dumps` / `loads` on generated objects)

  * restore      : loads(dumps(x, fmt)) vs x, structural comparator per object type with
                   written-precision tolerances (reference = the numbers the generator fed into the
                   object; epochs = the clock reading of the original object in its own scale)
  * kvn-xml      : object decoded from the KVN text vs object decoded from the XML text
  * redump       : every decoded object is written again, in both formats ("anything that was read
                   can be written again")
  * second-gen   : loads(dumps(loads(dumps(x, fmt)), other fmt)) vs loads(dumps(x, fmt))
  * format       : the text produced is KVN / XML as selected by the `fmt` argument, by
                   config['io']['ccsds_default_format'], or by the documented default (kvn);
                   the argument wins over the configuration

Every exception of the library on these paths is an observation.  It is mapped to a key naming the
mechanism (message type, stage, format, exception type and the innermost frame of the ccsds package
it escaped from); the mechanisms already known get a readable name through `KNOWN_RULES`, each rule
being a deterministic predicate over (stage, format, exception, call site, input class).
"""

import datetime as dtm
import io
import math
import traceback

import numpy as np

from .. import gen, probe
from ..oracles import kepler_uv

RULE = (
    "case = one generated object (OPM: StateVector/Orbit; OEM: Ephem or list of 2 Ephem; OMM: TLE mean-element "
    "Orbit; TDM: MeasureSet) with its optional parts (covariance kind, maneuvers, user-defined fields, "
    "interpolation, observation kinds/paths) pushed through dumps/loads in KVN and XML, re-dumped in both formats and "
    "re-loaded from the other format; distinct = digest of the full generated specification; non-trivial = at least "
    "one dumps succeeded and one loads was attempted on its text"
)
EXHAUSTIVE = [
    "per case: both encodings x {restore, kvn-vs-xml, 2x2 re-dump, second generation through the other encoding}",
    "format selection: argument / configuration (kvn, xml) / documented default, one subprocess per configuration",
]
ASSUMPTIONS = [
    "public attributes of the library objects are the observation interface: Date.datetime, Date.scale.name, "
    "Frame.name, Frame.center.name, StateVector array values / form.name / name / cospar_id / cov / maneuvers / "
    "ccsds_user_defined, Cov.frame, Ephem.method/order/name/cospar_id, Measure.path/date/value, and the private "
    "Man._dv (the only accessor of the stated delta-v; it is what the writer itself reads)",
    "the reference epoch of an object is its own clock reading (Date.datetime) in its own scale: Date construction "
    "in UT1 may move the reading by 1 us (C03's subject), the round trip is judged against what the object says",
    "non-cartesian inputs: the reference coordinates are the generator's cartesian numbers (vmon.gen / "
    "oracles.elements kep2cart, kepler_uv for ephemeris points); form conversion accuracy is C01's subject",
    "'written precision' = one unit of the last printed decimal of the field (1 mm, 1 mm/s for coordinates as in the "
    "statement); covariance elements are printed with 13 significant digits (1e-12 relative)",
    "classification / ephemeris type of an OMM are outside the attributes the statement enumerates: recorded, not judged",
    "leap seconds are avoided (days 2..27 of a month); frames are the 10 Earth-centred built-in frames, plus (job "
    "'jpl-centres') the body/barycentre frames created by beyond.env.jpl.create_frames from the DE403 kernel",
]

FRAMES = ["EME2000", "GCRF", "MOD", "TOD", "TEME", "CIRF", "G50", "ITRF", "PEF", "TIRF"]
# frames of the job 'jpl-centres' (name of the frame = name of its centre; EME2000 axes)
JPL_FRAMES = ["Moon", "Mars", "Sun", "MarsBarycenter", "EarthBarycenter", "SolarSystemBarycenter", "Venus", "JupiterBarycenter"]
SCALES = ["UTC", "TAI", "TT", "GPS", "UT1", "TDB"]
MU_EARTH = 3.986004418e14  # only used to lay out plausible ephemeris points (not judged)
DATE_FMT = "%Y-%m-%dT%H:%M:%S.%f"
FMTS = ("kvn", "xml")

# tolerances = one unit of the last printed decimal, in SI (see each writer's format string)
TOL_POS = 1e-3  # X Y Z        '%.6f' km              -> 1 mm           (statement: 1 mm)
TOL_VEL = 1e-3  # X_DOT ...    '%.6f' km/s            -> 1 mm/s         (statement: 1 mm/s)
TOL_FORM_REL = 1e-9  # extra allowance, relative to |r| / |v|, only when the *input* was given in a non-cartesian form: the
#                      writer converts it to cartesian first and C01 accepts 1e-9 relative for that conversion (probed ~3e-12)
TOL_DV = 1e-3  # MAN_DV_i      '%.6f' km/s            -> 1 mm/s
TOL_DUR = 1e-3  # MAN_DURATION '%.3f' s               -> 1 ms
TOL_COV_REL = 1e-12  # C*_*    '%.12e'                -> 13 significant digits
TOL_N = 1e-8 * 2 * math.pi / 86400.0  # MEAN_MOTION '%.8f' rev/day
TOL_E = 1e-7  # ECCENTRICITY   '%.7f'
TOL_ANG = math.radians(1e-4)  # INCLINATION ... '%.4f' deg
TOL_BSTAR = 1e-9  # BSTAR      '%.9f'
TOL_NDOT = 2e-8  # MEAN_MOTION_DOT '%.8f' of ndot/2
TOL_NDDOT = 0.6  # MEAN_MOTION_DDOT '%.1f' of ndotdot/6
TOL_RANGE = 1e-3  # RANGE      '%.6f' km
TOL_AZEL = math.radians(1e-2)  # ANGLE_1/2 '%.2f' deg
TOL_DOPPLER = 1e-6  # DOPPLER_INSTANTANEOUS '%.6f'
TOL_EPOCH_US = 1  # statement: to the microsecond.  Readings are integer microseconds (datetime).  The only jitter on correct
#                   paths is Date's own UT1 reading, which rounds the instant and the offset separately: exactly -1/0/+1 us
#                   per construction from a reading (probed 200 000 dates: 2.5 % at +1, 2.4 % at -1, never 2; UTC/TAI/TT/GPS/TDB
#                   always 0), so one write+read generation stays within 1 us of what the object said.


# =================================================================================================
# jobs
# =================================================================================================
def jobs(tier):
    if tier == "quick":
        n_arg, n_cfg = 5000, 1500
    else:
        n_arg, n_cfg = 64000, 32000
    return [
        {"name": "arg", "n": n_arg, "eop": "real", "cfg_fmt": None},
        {"name": "cfg-xml", "n": n_cfg, "eop": "real", "cfg_fmt": "xml"},
        {"name": "cfg-kvn", "n": n_cfg, "eop": "real", "cfg_fmt": "kvn"},
        # OPM / OEM around other centres (frames created by beyond.env.jpl from the DE403 kernel + PCK)
        {"name": "jpl-centres", "n": n_cfg // 2, "eop": "real", "cfg_fmt": None, "jpl": "pck", "centres": True},
    ]


def requirements(tier):
    k = 1 if tier == "quick" else 8
    req = {
        "type:opm": 800 * k, "type:oem": 500 * k, "type:omm": 300 * k, "type:tdm": 400 * k,
        "restore-evaluated:opm:kvn": 500 * k, "restore-evaluated:opm:xml": 300 * k,
        "restore-evaluated:oem:kvn": 300 * k, "restore-evaluated:oem:xml": 100 * k,
        "restore-evaluated:omm:xml": 100 * k,
        "restore-evaluated:tdm:kvn": 100 * k, "restore-evaluated:tdm:xml": 50 * k,
        "kvn-xml-evaluated:opm": 300 * k, "kvn-xml-evaluated:oem": 100 * k, "kvn-xml-evaluated:tdm": 50 * k,
        "redump-attempted": 3000 * k, "second-gen-evaluated": 800 * k,
        "fmt-by-arg": 2000 * k, "fmt-by-config:xml": 500 * k, "fmt-by-config:kvn": 500 * k, "fmt-by-default": 100 * k,
        "fmt-arg-over-config": 500 * k,
        "opm:cls:StateVector": 200 * k, "opm:cls:Orbit": 200 * k, "opm:cov-frame-history": 30 * k,
        "opm:nman:0": 100 * k, "opm:nman:1": 100 * k, "opm:nman:2": 100 * k, "opm:nman:3": 100 * k,
        "man:impulsive": 200 * k, "man:continuous": 200 * k,
        "man:frame:None": 100 * k, "man:frame:QSW": 100 * k, "man:frame:TNW": 100 * k,
        "man:comment:yes": 100 * k, "man:comment:no": 100 * k,
        "user:0": 200 * k, "user:1": 200 * k, "user:2": 200 * k, "user:5": 200 * k,
        "oem:n:1": 60 * k, "oem:n:2": 60 * k, "oem:n:9": 60 * k, "oem:n:30": 60 * k,
        "oem:ncov:0": 100 * k, "oem:ncov:1": 100 * k, "oem:ncov:n": 100 * k,
        "oem:method:linear": 100 * k, "oem:list-of-2": 60 * k,
        "omm:src:tle": 80 * k, "omm:src:direct": 80 * k,
        "tdm:range": 100 * k, "tdm:azel": 100 * k, "tdm:doppler": 60 * k,
        "tdm:npaths:1": 100 * k, "tdm:npaths:2": 60 * k, "tdm:single-observation": 40 * k, "tdm:many-observations": 100 * k,
    }
    for f in FRAMES:
        req["frame:" + f] = 60 * k
    for s in SCALES:
        req["scale:" + s] = 150 * k
    for c in ("absent", "state", "QSW", "TNW", "other"):
        req["cov:" + c] = 100 * k
    for o in range(2, 10):
        req[f"oem:lagrange-order:{o}"] = 15 * k
    for c in JPL_FRAMES:
        req["centre:" + c] = 20 * k
    return req


# =================================================================================================
# generators: pure-python specifications (JSON-able)
# =================================================================================================
def iso(dt):
    return dt.strftime(DATE_FMT)


def parse_iso(s):
    return dtm.datetime.strptime(s, DATE_FMT)


WORDS = ["SAT", "ISS", "ZARYA", "DEMO", "COSMOS", "NOAA", "PROBE", "TEST", "ALPHA", "B2", "X-1", "METOP", "(DEB)", "R/B", "OBJ_7", "19"]


def gen_name(rng):
    return " ".join(rng.choice(WORDS) for _ in range(rng.randint(1, 3)))


def gen_cospar(rng):
    return f"{rng.randint(1958, 2016)}-{rng.randint(1, 999):03d}{rng.choice(['A', 'B', 'C', 'AB', 'ZZZ'])}"


def gen_epoch(rng):
    """Clock reading on the microsecond grid, never within a day of a leap second (days 2..27)."""
    base = dtm.datetime(rng.randint(1980, 2016), rng.randint(1, 12), rng.randint(2, 27))
    cls = rng.choice(["random", "random", "random", "whole-second", "midnight", "before-midnight", "millisecond"])
    if cls == "random":
        return base + dtm.timedelta(seconds=rng.randrange(86400), microseconds=rng.randrange(10 ** 6)), cls
    if cls == "whole-second":
        return base + dtm.timedelta(seconds=rng.randrange(86400)), cls
    if cls == "millisecond":
        return base + dtm.timedelta(seconds=rng.randrange(86400), milliseconds=rng.randrange(1000)), cls
    if cls == "midnight":
        return base, cls
    return base + dtm.timedelta(seconds=86399, microseconds=rng.choice([999999, 999000, 500000, rng.randrange(10 ** 6)])), cls


def gen_state(rng, allow_hyperbolic=True):
    ecc = rng.choice(["near-circular", "moderate", "moderate", "moderate", "high"] + (["hyp-low"] if allow_hyperbolic else []))
    c = gen.orbit_case(rng, body_name="Earth", ecc_class=ecc, rp_range=(6.55e6, 4.3e7))
    return c["r"], c["v"], {"e": c["e"], "a": c["a"], "ecc_class": ecc}


def gen_cov_values(rng):
    """Symmetric positive definite 6x6 (m^2, m^2/s, m^2/s^2), exactly symmetric, realistic scales."""
    A = np.array([[rng.gauss(0, 1) for _ in range(6)] for _ in range(6)])
    G = A @ A.T + 0.5 * np.eye(6)
    d = np.sqrt(np.diag(G))
    R = G / np.outer(d, d)
    sig = np.array([gen.loguniform(rng, 1.0, 5e3) for _ in range(3)] + [gen.loguniform(rng, 1e-3, 5.0) for _ in range(3)])
    C = R * np.outer(sig, sig)
    C = (C + C.T) / 2.0
    if rng.random() < 0.15:  # exact zeros in the cross blocks (a printed 0.000000000000e+00)
        C[3:, :3] = 0.0
        C[:3, 3:] = 0.0
    return C.tolist()


COV_KINDS = ["absent", "state", "QSW", "TNW", "other"]


def gen_cov(rng, kind, state_frame):
    if kind == "absent":
        return None
    if kind == "state":
        frame = state_frame
    elif kind in ("QSW", "TNW"):
        frame = kind
    else:
        frame = rng.choice([f for f in FRAMES if f != state_frame])
    # how the frame is handed to Cov(): a Frame object (what works today) or its name (documented type)
    as_str = kind in ("QSW", "TNW") or rng.random() < 0.25
    out = {"kind": kind, "frame": frame, "as_str": as_str, "values": gen_cov_values(rng)}
    if kind == "other" and state_frame in FRAMES and rng.random() < 0.4:
        out["history"] = "state-moved-after-attachment"  # OPM only (see build_opm)
    return out


COMMENTS = ["apogee maneuver", "inclination correction", "burn 2 of 3", "station keeping E/W", "test", "Hohmann, first impulse", "dv_1 (nominal)"]


def gen_mans(rng, n, epoch):
    mans = []
    t = epoch
    for _ in range(n):
        t = t + dtm.timedelta(seconds=rng.randrange(10, 20000), microseconds=rng.choice([0, 0, rng.randrange(10 ** 6)]))
        kind = rng.choice(["impulsive", "continuous"])
        frame = rng.choice([None, "QSW", "TNW"])
        dv = [round(rng.uniform(-50, 50), rng.choice([1, 3, 6])) for _ in range(3)]
        if rng.random() < 0.1:
            dv[rng.randrange(3)] = 0.0
        m = {
            "kind": kind, "frame": frame, "frame_case": rng.choice(["upper", "upper", "lower"]),
            "comment": rng.choice(COMMENTS) if rng.random() < 0.5 else None, "dv": dv,
        }
        if kind == "impulsive":
            m["start"] = iso(t)
            m["duration"] = 0.0
        else:
            dur_ms = rng.choice([rng.randrange(1000, 3600000), 1000 * rng.randrange(1, 3600), 2 * rng.randrange(500, 100000)])
            dur_ms += dur_ms % 2  # even number of ms: 'median' positioning stays on the microsecond grid
            m["duration"] = dur_ms / 1000.0
            m["date_pos"] = rng.choice(["start", "stop", "median"])
            m["given"] = rng.choice(["dv", "accel"])
            m["start"] = iso(t)
            t = t + dtm.timedelta(milliseconds=dur_ms)
        mans.append(m)
    return mans


UD_KEYS = ["FOO", "MASS_KG", "OPERATOR", "X1", "REVISION", "SOURCE_ID", "ABC_DEF_2", "Q"]
UD_VALS = ["bar", "12.5", "ops team 3", "a-b_c", "0", "2021-03-04T00:00:00", "TRUE", "x y z", "v1.2 (draft)",
           # free text is free text: brackets, equal signs, markup characters, non-ASCII letters
           "mass [dry] 100", "a[1]", "k = v", "<b> & </b>", "5 % 'approx' \"q\"", "caf\u00e9 \u00b5m"]


def gen_user(rng, n):
    keys = rng.sample(UD_KEYS, n)
    return {k: rng.choice(UD_VALS) for k in keys}


def pick(seq, k):
    return seq[k % len(seq)]


def gen_naming(rng):
    via = rng.choice(["attr", "attr", "attr", "kwarg", "absent"])
    return {"name_via": via, "name": gen_name(rng), "cospar_id": gen_cospar(rng)}


def gen_opm(rng, k, frames=FRAMES):
    frame = pick(frames, k)
    scale = pick(SCALES, k // 2)
    n_user = pick([0, 1, 2, 5], k // 3)
    n_man = pick([0, 1, 2, 3], k // 5)
    cov_kind = pick(COV_KINDS, k // 7)
    cls = pick(["StateVector", "Orbit"], k // 11)
    epoch, ecls = gen_epoch(rng)
    r, v, info = gen_state(rng)
    hyper = info["e"] > 1
    form = "cartesian"
    if rng.random() < 0.2 and not hyper and frame in FRAMES:
        # non-cartesian inputs only where the form conversion is well conditioned (bound Earth orbits, Earth's mu):
        # the conversion itself is C01's subject
        form = rng.choice(["keplerian", "spherical", "keplerian_circular", "equinoctial", "keplerian_mean"])
    spec = {
        "mtype": "opm", "cls": cls, "propagator": rng.choice(["Kepler", "J2", None]) if cls == "Orbit" else None,
        "form": form, "frame": frame, "scale": scale, "epoch": iso(epoch), "epoch_class": ecls, "r": r, "v": v, "orbit": info,
        "cov": gen_cov(rng, cov_kind, frame), "mans": gen_mans(rng, n_man, epoch), "user": gen_user(rng, n_user),
        "kep": rng.random() < 0.85, "originator": rng.choice([None, None, "VMON"]),
    }
    spec.update(gen_naming(rng))
    return spec


def gen_segment(rng, frame, scale, n, ncov_class, method, order):
    epoch, ecls = gen_epoch(rng)
    r0, v0, info = gen_state(rng, allow_hyperbolic=False)
    step_us = rng.choice([10, 60, 60, 180, 600]) * 10 ** 6
    if rng.random() < 0.3:
        step_us = rng.randrange(5 * 10 ** 6, 600 * 10 ** 6)
    jitter = rng.random() < 0.2
    t_us = 0
    points = []
    for i in range(n):
        rr, vv = kepler_uv.propagate(np.array(r0), np.array(v0), t_us * 1e-6, MU_EARTH)
        points.append({"epoch": iso(epoch + dtm.timedelta(microseconds=t_us)), "r": [float(x) for x in rr], "v": [float(x) for x in vv], "cov": None})
        t_us += step_us + (rng.randrange(-step_us // 5, step_us // 5) if jitter else 0)
    if ncov_class == "1":
        which = [rng.randrange(n)]
    elif ncov_class == "n":
        which = list(range(n)) if rng.random() < 0.5 else sorted(rng.sample(range(n), max(2, n // 2))) if n >= 2 else [0]
    else:
        which = []
    cov_kind = rng.choice(COV_KINDS[1:])
    for i in which:
        points[i]["cov"] = gen_cov(rng, cov_kind if rng.random() < 0.8 else rng.choice(COV_KINDS[1:]), frame)
        points[i]["cov"].pop("history", None)
    form = "cartesian" if (rng.random() < 0.9 or frame not in FRAMES) else rng.choice(["keplerian", "spherical"])
    seg = {"frame": frame, "scale": scale, "n": n, "ncov": len(which), "ncov_class": ncov_class, "method": method, "order": order,
           "form": form, "epoch_class": ecls, "points": points}
    seg.update(gen_naming(rng))
    return seg


def gen_oem(rng, k, frames=FRAMES):
    n = pick([1, 2, 9, 30], k)
    ncov_class = pick(["0", "1", "n"], k // 4)
    if pick([0, 1, 2, 3, 4], k // 3) == 0:
        method, order = "linear", rng.choice([None, 1, 3, 8])
    else:
        method, order = "lagrange", pick(list(range(2, 10)), k // 12 + k)
    nseg = 2 if pick(range(6), k // 5) == 0 else 1
    segs = []
    for s in range(nseg):
        segs.append(gen_segment(rng, pick(frames, k // 2 + 3 * s), pick(SCALES, k // 7 + s), n if s == 0 else rng.choice([1, 2, 9, 30]),
                                ncov_class if s == 0 else rng.choice(["0", "1", "n"]), method if s == 0 else rng.choice(["linear", "lagrange"]),
                                order if s == 0 else rng.choice([None, 2, 5, 8])))
    spec = {"mtype": "oem", "segments": segs, "as_list": nseg == 2 or rng.random() < 0.2, "originator": rng.choice([None, "VMON"])}
    if nseg == 2 and segs[0]["name_via"] == "kwarg":
        # a keyword argument applies to every segment of the message
        segs[1]["name_via"], segs[1]["name"], segs[1]["cospar_id"] = "kwarg", segs[0]["name"], segs[0]["cospar_id"]
    elif nseg == 2 and segs[1]["name_via"] == "kwarg":
        segs[1]["name_via"] = "attr"
    return spec


def tle_exp_field(mant5, exp, neg):
    """' 12345-3' : 0.12345e-3 (sign, 5 digits, exponent sign, 1 digit)."""
    if mant5 == 0:
        return " 00000-0", 0.0
    val = (-1 if neg else 1) * mant5 * 1e-5 * 10.0 ** exp
    return f"{'-' if neg else ' '}{mant5:05d}{'-' if exp < 0 else '+'}{abs(exp)}", val


def tle_checksum(line68):
    return sum(int(ch) if ch.isdigit() else (1 if ch == "-" else 0) for ch in line68) % 10


def gen_omm(rng, k):
    src = pick(["tle", "direct"], k)
    cov_kind = pick(COV_KINDS, k // 2)
    n_user = pick([0, 1, 2, 5], k // 3)
    spec = {"mtype": "omm", "src": src, "frame": "TEME", "user": gen_user(rng, n_user), "originator": rng.choice([None, "VMON"])}
    norad = rng.randint(1, 99999)
    elnb = rng.randint(0, 999)
    revs = rng.randint(0, 99999)
    if src == "tle":
        # own 69-column formatter (CelesTrak format table); the values below are the printed decimals
        year = rng.randint(1980, 2016)
        launch_year = rng.randint(1958, year)
        piece = rng.choice(["A", "B", "AB", "ZZZ"])
        launch_nb = rng.randint(1, 999)
        doy = rng.randint(2, 360) + rng.randrange(10 ** 8) / 1e8
        # stay a day away from 30 June / 31 December (leap seconds)
        d0 = dtm.datetime(year, 1, 1) + dtm.timedelta(days=int(doy) - 1)
        if (d0.month, d0.day) in ((6, 30), (7, 1), (12, 31), (1, 1), (6, 29), (12, 30)):
            doy -= 5
        ndot2 = rng.randrange(-99999999, 99999999) if rng.random() < 0.8 else 0
        nddot_txt, nddot6 = tle_exp_field(rng.choice([0, 0, rng.randrange(10000, 99999)]), rng.randint(-9, -3), rng.random() < 0.3)
        bstar_txt, bstar = tle_exp_field(rng.choice([0, rng.randrange(10000, 99999), rng.randrange(10000, 99999)]), rng.randint(-8, -2), rng.random() < 0.2)
        inc = rng.randrange(0, 1800000) / 1e4
        raan = rng.randrange(0, 3600000) / 1e4
        ecc7 = rng.randrange(0, 9000000)
        argp = rng.randrange(0, 3600000) / 1e4
        M = rng.randrange(0, 3600000) / 1e4
        nrev = rng.randrange(50000000, 1650000000) / 1e8
        cls = "U" if rng.random() < 0.9 else rng.choice(["C", "S"])
        ndot_txt = f"{'-' if ndot2 < 0 else ' '}.{abs(ndot2):08d}"
        l1 = f"1 {norad:05d}{cls} {launch_year % 100:02d}{launch_nb:03d}{piece:<3} {year % 100:02d}{doy:012.8f} {ndot_txt} {nddot_txt} {bstar_txt} 0 {elnb:4d}"
        l2 = f"2 {norad:05d} {inc:8.4f} {raan:8.4f} {ecc7:07d} {argp:8.4f} {M:8.4f} {nrev:11.8f}{revs:5d}"
        assert len(l1) == 68 and len(l2) == 68, (len(l1), len(l2), l1, l2)
        l1 += str(tle_checksum(l1))
        l2 += str(tle_checksum(l2))
        name = gen_name(rng)
        spec.update({
            "tle": [name, l1, l2], "scale": "UTC", "classification": cls,
            "name_via": "attr", "name": name, "cospar_id": f"{launch_year}-{launch_nb:03d}{piece}",
            "elements": [math.radians(inc), math.radians(raan), ecc7 * 1e-7, math.radians(argp), math.radians(M), nrev * 2 * math.pi / 86400.0],
            "bstar": bstar, "ndot": ndot2 * 1e-8 * 2, "ndotdot": nddot6 * 6,
            "norad_id": norad, "element_nb": elnb, "revolutions": revs,
        })
    else:
        epoch, ecls = gen_epoch(rng)
        spec.update({
            "scale": pick(SCALES, k // 2), "epoch": iso(epoch), "epoch_class": ecls, "classification": "U",
            "elements": [rng.uniform(0, math.pi), rng.uniform(0, 2 * math.pi), gen.loguniform(rng, 1e-5, 0.8), rng.uniform(0, 2 * math.pi),
                         rng.uniform(-math.pi, 2 * math.pi), rng.uniform(0.5, 16.5) * 2 * math.pi / 86400.0],
            "bstar": rng.choice([0.0, rng.uniform(-1e-3, 1e-2)]), "ndot": rng.uniform(-1e-2, 1e-2), "ndotdot": rng.choice([0.0, rng.uniform(-1e-4, 1e-4), rng.uniform(-3, 3)]),
            "norad_id": norad, "element_nb": elnb, "revolutions": revs,
        })
        spec.update(gen_naming(rng))
    spec["cov"] = gen_cov(rng, cov_kind, "TEME")
    if spec["cov"]:
        spec["cov"].pop("history", None)  # the frame history is an OPM scenario (build_opm)
    return spec


STATIONS = ["Toulouse", "Kourou", "Kiruna", "STA-7", "Hartebeesthoek"]
TARGETS = ["SAT", "ISS", "PROBE-2", "1998-067A"]
TDM_CONTENTS = [("range",), ("azel",), ("range", "azel"), ("doppler",), ("range", "doppler"), ("range", "azel", "doppler"), ("azel",), ("range",),
                ("range", "azel"), ("elevation",), ("range",), ("azel",)]


def gen_tdm(rng, k):
    content = pick(TDM_CONTENTS, k)
    npaths = 2 if pick(range(3), k // 8) == 0 else 1
    nobs_class = pick(["1", "many", "many"], k // 2)
    scale = pick(SCALES, k // 3)
    epoch, ecls = gen_epoch(rng)
    sta = rng.sample(STATIONS, 2)
    tgt = rng.choice(TARGETS)
    shapes = [[sta[0], tgt, sta[0]], [sta[0], tgt], [sta[0], tgt, sta[1]]]
    paths = [rng.choice(shapes)]
    if npaths == 2:
        paths.append(rng.choice([[sta[1], tgt, sta[1]], [sta[1], tgt]]))
    measures = []
    for pi, path in enumerate(paths):
        if nobs_class == "1" and (pi == 0 or rng.random() < 0.5):
            ndates = 1
            # exactly one observation on this path (of az+el only the azimuth: ANGLE_TYPE is then still announced)
            types = [rng.choice([("azimut" if c == "azel" else c) for c in content])]
        else:
            ndates = rng.randint(2, 25)
            types = [t for c in content for t in (("azimut", "elevation") if c == "azel" else (c,))]
        t = epoch + dtm.timedelta(seconds=rng.randrange(0, 600) * pi)
        for _ in range(ndates):
            for ty in types:
                if ty == "range":
                    val = rng.uniform(2e5, 4e7) * (len(path) - 1)
                elif ty == "azimut":
                    val = rng.uniform(-math.pi, math.pi)
                elif ty == "elevation":
                    val = rng.uniform(0.0, math.pi / 2)
                else:
                    val = rng.uniform(-7500.0, 7500.0)
                measures.append({"type": ty, "path": pi, "epoch": iso(t), "value": val})
            t = t + dtm.timedelta(seconds=rng.choice([1, 10, 30]), microseconds=rng.choice([0, rng.randrange(10 ** 6)]))
    return {"mtype": "tdm", "content": list(content), "scale": scale, "epoch_class": ecls, "paths": paths, "nobs_class": nobs_class,
            "measures": measures, "originator": rng.choice([None, "VMON"])}


# =================================================================================================
# builders: library objects from a specification (fresh objects for every dumps call)
# =================================================================================================
def mk_date(s, scale):
    from beyond.dates import Date

    return Date(parse_iso(s), scale=scale)


def mk_cov(owner, cspec):
    from beyond.orbits.cov import Cov
    from beyond.frames.frames import get_frame

    frame = cspec["frame"]
    if not cspec["as_str"]:
        frame = get_frame(frame)
    return Cov(owner, np.array(cspec["values"], dtype=float), frame)


def mk_man(m, scale):
    from beyond.dates import timedelta
    from beyond.orbits.man import ImpulsiveMan, ContinuousMan

    frame = m["frame"]
    if frame is not None and m["frame_case"] == "lower":
        frame = frame.lower()
    start = parse_iso(m["start"])
    if m["kind"] == "impulsive":
        return ImpulsiveMan(mk_date(m["start"], scale), list(m["dv"]), frame=frame, comment=m["comment"])
    dur = dtm.timedelta(seconds=m["duration"])
    ref = {"start": start, "stop": start + dur, "median": start + dur / 2}[m["date_pos"]]
    kw = {"dv": list(m["dv"])} if m["given"] == "dv" else {"accel": [x / m["duration"] for x in m["dv"]]}
    return ContinuousMan(mk_date(iso(ref), scale), timedelta(seconds=m["duration"]), date_pos=m["date_pos"], frame=frame, comment=m["comment"], **kw)


def build_opm(spec):
    from beyond.orbits import StateVector, Orbit

    date = mk_date(spec["epoch"], spec["scale"])
    kw = {}
    if spec["name_via"] == "attr":
        kw = {"name": spec["name"], "cospar_id": spec["cospar_id"]}
    coords = list(spec["r"]) + list(spec["v"])
    frame0 = spec["frame"]
    history = spec["cov"] is not None and spec["cov"].get("history") == "state-moved-after-attachment"
    if history:
        # history: the covariance is attached while the state is still in ANOTHER frame (the one the covariance is given
        # in); the state then moves to the frame of the message (the covariance follows it) and the covariance is brought
        # back.  End state: as specified -- state in spec["frame"], covariance in its own frame -- but the private copy of
        # the state held by the covariance is still in the frame of the attachment
        frame0 = spec["cov"]["frame"]
        coords = [float(t) for t in StateVector(coords, date, "cartesian", spec["frame"]).copy(frame=frame0)]
    if spec["cls"] == "Orbit":
        x = Orbit(coords, date, "cartesian", frame0, spec["propagator"], **kw)
    else:
        x = StateVector(coords, date, "cartesian", frame0, **kw)
    if spec["form"] != "cartesian":
        x.form = spec["form"]
    if spec["mans"]:
        x.maneuvers = [mk_man(m, spec["scale"]) for m in spec["mans"]]
    if spec["cov"] is not None:
        x.cov = mk_cov(x, spec["cov"])
        if history:
            x.frame = spec["frame"]
            x.cov.frame = frame0
    if spec["user"]:
        x.ccsds_user_defined = dict(spec["user"])
    return x, dump_kwargs(spec, spec)


def dump_kwargs(spec, naming):
    kw = {}
    if naming.get("name_via") == "kwarg":
        kw["name"] = naming["name"]
        kw["cospar_id"] = naming["cospar_id"]
    if spec.get("originator"):
        kw["originator"] = spec["originator"]
    if spec.get("kep") is False:
        kw["kep"] = False
    return kw


def build_oem(spec):
    from beyond.orbits import StateVector, Ephem

    ephems = []
    for seg in spec["segments"]:
        svs = []
        for p in seg["points"]:
            sv = StateVector(list(p["r"]) + list(p["v"]), mk_date(p["epoch"], seg["scale"]), "cartesian", seg["frame"])
            if seg["form"] != "cartesian":
                sv.form = seg["form"]
            if p["cov"] is not None:
                sv.cov = mk_cov(sv, p["cov"])
            svs.append(sv)
        e = Ephem(svs, method=seg["method"], order=seg["order"])
        if seg["name_via"] == "attr":
            e.name = seg["name"]
            e.cospar_id = seg["cospar_id"]
        ephems.append(e)
    obj = ephems if spec["as_list"] else ephems[0]
    return obj, dump_kwargs(spec, spec["segments"][0])


def build_omm(spec):
    from beyond.orbits import Orbit

    if spec["src"] == "tle":
        from beyond.io.tle import Tle

        x = Tle("\n".join(spec["tle"])).orbit()
    else:
        kw = {
            "bstar": spec["bstar"], "ndot": spec["ndot"], "ndotdot": spec["ndotdot"], "ephemeris_type": 0, "classification_type": "U",
            "norad_id": spec["norad_id"], "revolutions": spec["revolutions"], "element_nb": spec["element_nb"],
        }
        if spec["name_via"] == "attr":
            kw.update({"name": spec["name"], "cospar_id": spec["cospar_id"]})
        x = Orbit(list(spec["elements"]), mk_date(spec["epoch"], spec["scale"]), "TLE", "TEME", "Sgp4", **kw)
    if spec["cov"] is not None:
        x.cov = mk_cov(x, spec["cov"])
    if spec["user"]:
        x.ccsds_user_defined = dict(spec["user"])
    return x, dump_kwargs(spec, spec)


def build_tdm(spec):
    from beyond.utils.measures import MeasureSet, Range, Azimut, Elevation, Doppler

    klass = {"range": Range, "azimut": Azimut, "elevation": Elevation, "doppler": Doppler}
    ms = MeasureSet()
    for m in spec["measures"]:
        ms.append(klass[m["type"]](list(spec["paths"][m["path"]]), mk_date(m["epoch"], spec["scale"]), m["value"]))
    return ms, dump_kwargs(spec, {})


BUILD = {"opm": build_opm, "oem": build_oem, "omm": build_omm, "tdm": build_tdm}
GEN = {"opm": gen_opm, "oem": gen_oem, "omm": gen_omm, "tdm": gen_tdm}


# =================================================================================================
# extraction: library object -> plain structure (public attributes only)
# =================================================================================================
def ex_date(d):
    return {"dt": d.datetime, "scale": d.scale.name}


def ex_cov(c):
    if c is None:
        return None
    f = c.frame
    return {"frame": f if isinstance(f, str) else getattr(f, "name", repr(f)), "frame_is_str": isinstance(f, str),
            "values": np.array(np.asarray(c, dtype=float), dtype=float, copy=True)}


def ex_man(m):
    cont = hasattr(m, "duration")
    return {
        "kind": "continuous" if cont else "impulsive", "epoch": ex_date(m.start if cont else m.date),
        "duration": float(m.duration.total_seconds()) if cont else 0.0, "dv": [float(x) for x in m._dv], "frame": m.frame, "comment": m.comment,
    }


def ex_naming(x):
    return {"name": getattr(x, "name", None), "cospar_id": getattr(x, "cospar_id", None)}


def ex_user(x):
    ud = getattr(x, "ccsds_user_defined", None)
    return dict(ud) if ud else {}


def ex_state(x):
    if type(x).__name__ not in ("StateVector", "Orbit"):
        raise TypeError(f"not a state vector: {type(x).__name__}")
    out = {"epoch": ex_date(x.date), "frame": x.frame.name, "center": x.frame.center.name, "form": x.form.name, "cov": ex_cov(x.cov)}
    out.update(ex_naming(x))
    return out


def ex_opm(x):
    out = ex_state(x)
    c = x if x.form.name == "cartesian" else x.copy(form="cartesian")
    out["rv"] = probe.arr(c)
    out["mans"] = [ex_man(m) for m in x.maneuvers]
    out["user"] = ex_user(x)
    return out


def ex_omm(x):
    out = ex_state(x)
    out["elements"] = probe.arr(x)
    for k in ("bstar", "ndot", "ndotdot", "norad_id", "element_nb", "revolutions"):
        out[k] = getattr(x, k, None)
    out["propagator"] = type(getattr(x, "propagator", None)).__name__
    cl = getattr(x, "classification_type", None)
    if cl is None and getattr(x, "tle", None) is not None:
        cl = getattr(x.tle, "classification", None)
    out["classification"] = cl
    out["user"] = ex_user(x)
    return out


def ex_oem(obj):
    ephems = [obj] if type(obj).__name__ == "Ephem" else list(obj)
    segs = []
    for e in ephems:
        if type(e).__name__ != "Ephem":
            raise TypeError(f"not an Ephem: {type(e).__name__}")
        pts = []
        for sv in e[:]:
            c = sv if sv.form.name == "cartesian" else sv.copy(form="cartesian")
            pts.append({"epoch": ex_date(sv.date), "rv": probe.arr(c), "cov": ex_cov(sv.cov), "frame": sv.frame.name, "center": sv.frame.center.name})
        seg = {"points": pts, "method": str(e.method).lower(), "order": e.order}
        seg.update(ex_naming(e))
        segs.append(seg)
    return {"segments": segs}


def ex_tdm(obj):
    sets = [obj] if type(obj).__name__ == "MeasureSet" else list(obj)
    ms = []
    for s in sets:
        if type(s).__name__ != "MeasureSet":
            raise TypeError(f"not a MeasureSet: {type(s).__name__}")
        for m in s:
            ms.append({"type": type(m).__name__.lower(), "path": tuple(m.path), "epoch": ex_date(m.date), "value": float(m.value)})
    ms.sort(key=lambda m: (m["path"], m["epoch"]["dt"], m["type"]))
    return {"measures": ms, "container": "MeasureSet" if type(obj).__name__ == "MeasureSet" else f"{type(obj).__name__}[{len(sets)}]"}


EXTRACT = {"opm": ex_opm, "oem": ex_oem, "omm": ex_omm, "tdm": ex_tdm}


# =================================================================================================
# reference: what the original object says (epochs) + what the generator fed in (everything else)
# =================================================================================================
class HarnessMismatch(Exception):
    """The object built from the specification does not show the specified values: harness bug."""


def _need(cond, what):
    if not cond:
        raise HarnessMismatch(what)


def ref_cov(cspec, got):
    if cspec is None:
        _need(got is None, "cov present on the original although none was specified")
        return None
    _need(got is not None and got["frame"] == cspec["frame"], "original cov frame")
    if cspec.get("history"):
        # rotated there and back: the object's own values are the reference (they equal the generator's to round-off)
        # (exact zeros of the generated matrix come back as rounding noise of the rotations: absolute floor relative to max|C|)
        _need(np.allclose(got["values"], np.array(cspec["values"]), rtol=1e-9, atol=1e-11 * float(np.max(np.abs(np.array(cspec["values"]))))),
              "original cov values (after the frame history)")
        # (a rotated matrix is symmetric to round-off only; a CCSDS message carries the lower triangle CX_X, CY_X, CY_Y ...)
        L = np.tril(np.array(got["values"], dtype=float))
        return {"frame": cspec["frame"], "frame_is_str": cspec["as_str"], "values": L + L.T - np.diag(np.diag(L))}
    _need(np.array_equal(got["values"], np.array(cspec["values"])), "original cov values")
    return {"frame": cspec["frame"], "frame_is_str": cspec["as_str"], "values": np.array(cspec["values"], dtype=float)}


def ref_naming(naming, ref):
    if naming["name_via"] == "absent":
        ref["name"], ref["cospar_id"] = None, None  # 'N/A' is written; nothing to restore
    else:
        ref["name"], ref["cospar_id"] = naming["name"], naming["cospar_id"]


def reference(spec, orig):
    """Reference structure in the shape of EXTRACT[...]; `orig` = extraction of the original object."""
    mt = spec["mtype"]
    if mt == "opm":
        _need(orig["frame"] == spec["frame"] and orig["epoch"]["scale"] == spec["scale"], "original frame/scale")
        _need(abs((orig["epoch"]["dt"] - parse_iso(spec["epoch"])).total_seconds()) <= 1.5e-6, "original epoch")
        _need(len(orig["mans"]) == len(spec["mans"]), "original maneuvers")
        _need(orig["center"] == ("Earth" if spec["frame"] in FRAMES else spec["frame"]), "original centre")
        ref = {"epoch": orig["epoch"], "frame": spec["frame"], "center": orig["center"], "rv": np.array(list(spec["r"]) + list(spec["v"])),
               "cov": ref_cov(spec["cov"], orig["cov"]), "user": dict(spec["user"]), "mans": [], "converted": spec["form"] != "cartesian"}
        # the cartesian numbers shown by the original must be the generator's (conversion accuracy is C01's)
        _need(np.allclose(orig["rv"], ref["rv"], rtol=1e-7, atol=1e-4), "original coordinates")
        for m, om in zip(spec["mans"], orig["mans"]):
            _need(om["kind"] == m["kind"] and om["frame"] == m["frame"] and om["comment"] == m["comment"], "original maneuver")
            _need(abs((om["epoch"]["dt"] - parse_iso(m["start"])).total_seconds()) <= 2.5e-6, "original maneuver epoch")
            _need(np.allclose(om["dv"], m["dv"], rtol=1e-12, atol=1e-12) and abs(om["duration"] - m["duration"]) < 1e-9, "original maneuver dv/duration")
            ref["mans"].append({"kind": m["kind"], "epoch": om["epoch"], "duration": m["duration"], "dv": list(m["dv"]), "frame": m["frame"], "comment": m["comment"]})
        ref_naming(spec, ref)
        return ref
    if mt == "omm":
        _need(orig["frame"] == "TEME" and orig["epoch"]["scale"] == spec["scale"] and orig["form"] == "tle", "original frame/scale/form")
        _need(np.allclose(orig["elements"], spec["elements"], rtol=1e-12, atol=1e-15), "original elements")
        for k in ("bstar", "ndot", "ndotdot"):
            _need(abs(orig[k] - spec[k]) <= 1e-12 * max(1.0, abs(spec[k])), "original " + k)
        for k in ("norad_id", "element_nb", "revolutions"):
            _need(orig[k] == spec[k], "original " + k)
        if spec["src"] == "direct":
            _need(abs((orig["epoch"]["dt"] - parse_iso(spec["epoch"])).total_seconds()) <= 1.5e-6, "original epoch")
        ref = {"epoch": orig["epoch"], "frame": "TEME", "center": "Earth", "form": "tle", "elements": np.array(spec["elements"]),
               "cov": ref_cov(spec["cov"], orig["cov"]), "user": dict(spec["user"]), "classification": spec["classification"]}
        for k in ("bstar", "ndot", "ndotdot", "norad_id", "element_nb", "revolutions"):
            ref[k] = spec[k]
        ref_naming(spec, ref)
        if spec["src"] == "tle":
            _need(orig["name"] == spec["name"] and orig["cospar_id"] == spec["cospar_id"], "original TLE name/cospar")
        return ref
    if mt == "oem":
        _need(len(orig["segments"]) == len(spec["segments"]), "original segments")
        segs = []
        for seg, oseg in zip(spec["segments"], orig["segments"]):
            _need(len(oseg["points"]) == seg["n"], "original points")
            pts = []
            for p, op in zip(seg["points"], oseg["points"]):
                _need(abs((op["epoch"]["dt"] - parse_iso(p["epoch"])).total_seconds()) <= 1.5e-6 and op["epoch"]["scale"] == seg["scale"], "original point epoch")
                rv = np.array(list(p["r"]) + list(p["v"]))
                _need(np.allclose(op["rv"], rv, rtol=1e-7, atol=1e-4), "original point coordinates")
                _need(op["center"] == ("Earth" if seg["frame"] in FRAMES else seg["frame"]), "original centre")
                pts.append({"epoch": op["epoch"], "rv": rv, "cov": ref_cov(p["cov"], op["cov"]), "frame": seg["frame"], "center": op["center"]})
            _need(oseg["method"] == seg["method"] and (seg["order"] is None or oseg["order"] == seg["order"]), "original interpolation")
            r = {"points": pts, "method": seg["method"], "order": oseg["order"], "converted": seg["form"] != "cartesian"}  # order None -> the Ephem's own default
            ref_naming(seg, r)
            segs.append(r)
        return {"segments": segs}
    if mt == "tdm":
        _need(len(orig["measures"]) == len(spec["measures"]), "original measures")
        ms = []
        for m in spec["measures"]:
            ms.append({"type": m["type"], "path": tuple(spec["paths"][m["path"]]), "epoch": {"dt": parse_iso(m["epoch"]), "scale": spec["scale"]}, "value": m["value"]})
        ms.sort(key=lambda m: (m["path"], m["epoch"]["dt"], m["type"]))
        # epochs: what the original object says
        om = sorted(orig["measures"], key=lambda m: (m["path"], m["epoch"]["dt"], m["type"]))
        for a, b in zip(ms, om):
            _need(a["type"] == b["type"] and a["path"] == b["path"] and abs((a["epoch"]["dt"] - b["epoch"]["dt"]).total_seconds()) <= 1.5e-6, "original measure")
            a["epoch"] = b["epoch"]
        return {"measures": ms}
    raise ValueError(mt)


# =================================================================================================
# comparators
# =================================================================================================
class Cmp:
    """One comparison pass: family in {restore, kvn-xml-differ, second-generation}."""

    def __init__(self, ctx, mtype, family, fmt, witness):
        self.ctx, self.mtype, self.family, self.fmt, self.w = ctx, mtype, family, fmt, witness
        self.bad = 0

    def key(self, field):
        return f"C13/{self.mtype}-{self.family}-{field}" + (f"-{self.fmt}" if self.fmt else "")

    def rname(self, field):
        return f"{self.mtype}:{self.family}:{field}" + (f":{self.fmt}" if self.fmt else "")

    def wit(self, field, exp, got, where=None):
        w = dict(self.w, field=field, expected=exp, got=got)
        if where is not None:
            w["where"] = where
        return w

    def eq(self, field, exp, got, where=None, key=None):
        ok = self.ctx.expect(exp == got, key or self.key(field), self.wit(field, exp, got, where),
                             f"{self.mtype} {self.family} [{self.fmt}] {field}{' @' + str(where) if where else ''}: expected {exp!r}, got {got!r}")
        self.bad += not ok
        return ok

    def num(self, field, value, tol, exp=None, got=None, where=None, key=None):
        ok = self.ctx.resid(self.rname(field), value, tol, key=key or self.key(field), witness=self.wit(field, exp, got, where),
                            msg=f"{self.mtype} {self.family} [{self.fmt}] {field}{' @' + str(where) if where else ''}: |delta| = {value!r} > {tol!r} (expected {exp!r}, got {got!r})")
        self.bad += not ok
        return ok

    # ---- pieces ----------------------------------------------------------------------------
    def epoch(self, field, exp, got, where=None, tol_us=TOL_EPOCH_US):
        self.eq(field + "-scale", exp["scale"], got["scale"], where)
        d_us = abs((got["dt"] - exp["dt"]) // dtm.timedelta(microseconds=1))
        key = None
        if field == "maneuver-epoch" and d_us == 2 and exp["scale"] == got["scale"] == "UT1":
            # known mechanism (since repo commit 148dbb9): the OPM writer passes every maneuver date through
            # Date.change_scale(<scale of the message>) even when it already is in that scale; change_scale rebuilds the
            # date from its rounded UT1 reading (+-1 us), the reader adds its own +-1 us
            key = "C13/opm-maneuver-epoch-ut1-same-scale-rescale-2us"
        self.num(field, d_us, tol_us, iso(exp["dt"]), iso(got["dt"]), where, key=key)

    def naming(self, exp, got):
        if exp["name"] is None:
            self.ctx.count("name-not-judged(absent)")
            return
        self.eq("name", exp["name"], got["name"])
        self.eq("cospar-id", exp["cospar_id"], got["cospar_id"])

    def rv(self, exp, got, where=None, converted=False):
        e, g = np.asarray(exp, dtype=float), np.asarray(got, dtype=float)
        dp = float(np.max(np.abs(e[:3] - g[:3]))) if np.all(np.isfinite(g)) else float("nan")
        dv = float(np.max(np.abs(e[3:] - g[3:]))) if np.all(np.isfinite(g)) else float("nan")
        extra = TOL_FORM_REL if converted else 0.0
        sfx = ":converted-input" if converted else ""
        # + 4 ulp of the largest coordinate: m -> km, print, parse, km -> m each round once (1.5 ulp derived); only matters
        # for the far hyperbolic states (|r| ~ 1e12 m has ulp 0.24 mm), 4e-9 m at LEO
        fp, fv = 4 * float(np.spacing(np.max(np.abs(e[:3])))), 4 * float(np.spacing(np.max(np.abs(e[3:]))))
        self.num("position" + sfx, dp, TOL_POS + fp + extra * float(np.linalg.norm(e[:3])), e[:3].tolist(), g[:3].tolist(), where, key=self.key("position"))
        self.num("velocity" + sfx, dv, TOL_VEL + fv + extra * float(np.linalg.norm(e[3:])), e[3:].tolist(), g[3:].tolist(), where, key=self.key("velocity"))

    def cov(self, exp, got, where=None):
        if exp is None or got is None:
            self.eq("cov-presence", exp is not None, got is not None, where)
            return
        ef, gf = exp["frame"], got["frame"]
        if ef == "QSW" and gf in ("RSW", "RTN"):
            # the writer spells QSW as RSW (documented alias); the object must come back as QSW
            self.eq("cov-frame", ef, gf, where, key=f"C13/cov-frame-rsw-not-mapped-back-{self.fmt or 'x'}")
        else:
            self.eq("cov-frame", ef, gf, where)
        if ef == gf and ef not in ("QSW", "TNW") and not exp["frame_is_str"]:
            # the original carried a Frame object; a bare string cannot be converted (S-12)
            self.eq("cov-frame-type", "Frame", "str" if got["frame_is_str"] else "Frame", where,
                    key="C13/cov-named-frame-loaded-as-str" if self.family == "restore" else None)
        E, G = exp["values"], got["values"]
        if G.shape != (6, 6) or not np.all(np.isfinite(G)):
            self.num("cov-values", float("nan"), 1.0, None, G.tolist(), where)
            return
        scale = TOL_COV_REL * np.abs(E)
        D = np.abs(G - E)
        with np.errstate(divide="ignore", invalid="ignore"):
            ratio = np.where(D == 0, 0.0, D / scale)
        worst = float(np.max(ratio))
        i, j = np.unravel_index(int(np.argmax(ratio)), ratio.shape)
        self.num("cov-values", worst, 1.0, float(E[i, j]), float(G[i, j]), f"{where or ''}[{i},{j}] (ratio to 1e-12 relative)")
        self.num("cov-symmetry", float(np.max(np.abs(G - G.T))), 0.0, None, None, where)

    def mans(self, exp, got):
        if not self.eq("maneuver-count", len(exp), len(got)):
            return
        for i, (e, g) in enumerate(zip(exp, got)):
            where = f"maneuver {i}"
            self.eq("maneuver-kind", e["kind"], g["kind"], where)
            self.epoch("maneuver-epoch", e["epoch"], g["epoch"], where)
            self.num("maneuver-duration", abs(e["duration"] - g["duration"]), TOL_DUR, e["duration"], g["duration"], where)
            dv = max(abs(a - b) for a, b in zip(e["dv"], g["dv"])) if len(g["dv"]) == 3 else float("nan")
            self.num("maneuver-dv", dv, TOL_DV, e["dv"], g["dv"], where)
            if e["frame"] == "QSW" and g["frame"] in ("RSW", "RTN"):
                self.eq("maneuver-frame", e["frame"], g["frame"], where, key="C13/opm-maneuver-frame-rsw-not-mapped-back")
            else:
                self.eq("maneuver-frame", e["frame"], g["frame"], where)
            self.eq("maneuver-comment", e["comment"], g["comment"], where)

    def user(self, exp, got):
        self.eq("user-defined", dict(sorted(exp.items())), dict(sorted(got.items())))

    # ---- whole objects -----------------------------------------------------------------------
    def state_common(self, exp, got):
        self.epoch("epoch", exp["epoch"], got["epoch"])
        self.eq("frame", exp["frame"], got["frame"])
        self.eq("centre", exp["center"], got["center"])
        self.naming(exp, got)
        self.cov(exp["cov"], got["cov"])

    def opm(self, exp, got):
        self.state_common(exp, got)
        self.rv(exp["rv"], got["rv"], converted=exp.get("converted", False))
        self.mans(exp["mans"], got["mans"])
        self.user(exp["user"], got["user"])

    def omm(self, exp, got):
        self.state_common(exp, got)
        self.eq("form", "tle", got["form"])
        E, G = np.asarray(exp["elements"], dtype=float), np.asarray(got["elements"], dtype=float)
        names = ["inclination", "raan", "eccentricity", "arg-of-pericenter", "mean-anomaly", "mean-motion"]
        for k, nm in enumerate(names):
            if nm == "eccentricity":
                d, tol = abs(E[k] - G[k]), TOL_E
            elif nm == "mean-motion":
                d, tol = abs(E[k] - G[k]), TOL_N
            else:
                d = abs((G[k] - E[k] + math.pi) % (2 * math.pi) - math.pi)
                tol = TOL_ANG
            self.num(nm, float(d), tol, float(E[k]), float(G[k]))
        for k, tol in (("bstar", TOL_BSTAR), ("ndot", TOL_NDOT), ("ndotdot", TOL_NDDOT)):
            g = got[k]
            self.num(k, abs(exp[k] - g) if isinstance(g, (int, float)) else float("nan"), tol, exp[k], g)
        for k in ("norad_id", "element_nb", "revolutions"):
            self.eq(k.replace("_", "-"), exp[k], got[k])
        self.user(exp["user"], got["user"])

    def oem(self, exp, got):
        if not self.eq("segment-count", len(exp["segments"]), len(got["segments"])):
            return
        for s, (es, gs) in enumerate(zip(exp["segments"], got["segments"])):
            seg = f"segment {s}"
            self.naming(es, gs)
            self.eq("interpolation-method", es["method"], gs["method"], seg)
            if es["method"] == "lagrange":
                self.eq("interpolation-order", es["order"], gs["order"], seg)
            if not self.eq("point-count", len(es["points"]), len(gs["points"]), seg):
                continue
            for i, (ep, gp) in enumerate(zip(es["points"], gs["points"])):
                where = f"{seg} point {i}"
                self.epoch("epoch", ep["epoch"], gp["epoch"], where)
                self.eq("frame", ep["frame"], gp["frame"], where)
                self.eq("centre", ep["center"], gp["center"], where)
                self.rv(ep["rv"], gp["rv"], where, converted=es.get("converted", False))
                self.cov(ep["cov"], gp["cov"], where)

    def tdm(self, exp, got):
        if not self.eq("measure-count", len(exp["measures"]), len(got["measures"])):
            return
        for i, (e, g) in enumerate(zip(exp["measures"], got["measures"])):
            where = f"measure {i} ({e['type']})"
            self.eq("measure-type", e["type"], g["type"], where)
            self.eq("path", list(e["path"]), list(g["path"]), where)
            self.epoch("epoch", e["epoch"], g["epoch"], where)
            if e["type"] != g["type"]:
                continue
            if e["type"] == "range":
                self.num("range", abs(e["value"] - g["value"]), TOL_RANGE, e["value"], g["value"], where)
            elif e["type"] == "doppler":
                self.num("doppler", abs(e["value"] - g["value"]), TOL_DOPPLER, e["value"], g["value"], where)
            elif e["type"] == "azimut":
                d = abs((g["value"] - e["value"] + math.pi) % (2 * math.pi) - math.pi)
                self.num("azimuth", d, TOL_AZEL, e["value"], g["value"], where)
            else:
                self.num("elevation", abs(e["value"] - g["value"]), TOL_AZEL, e["value"], g["value"], where)

    def run(self, exp, got):
        getattr(self, self.mtype)(exp, got)
        return self.bad == 0


# =================================================================================================
# exception -> mechanism key
# =================================================================================================
def exc_site(exc):
    """(innermost frame inside beyond/io/ccsds/<type module>, innermost frame overall) as 'file.func'."""
    mod_site, last = None, None
    for fs in traceback.extract_tb(exc.__traceback__):
        fn = fs.filename.replace("\\", "/")
        base = fn.rsplit("/", 1)[-1][:-3] if fn.endswith(".py") else fn
        if "/beyond/" in fn:
            last = f"{base}.{fs.name}"
            if "/io/ccsds/" in fn and base in ("opm", "oem", "omm", "tdm", "ccsds"):
                mod_site = f"{base}.{fs.name}"
    return mod_site, last


def classes_of(spec):
    """Input classes of a specification that the known rules refer to."""
    mt = spec["mtype"]
    c = {"mtype": mt}
    if mt in ("opm", "omm"):
        c["n_user"] = len(spec["user"])
    if mt == "omm":
        c["src"] = spec["src"]
    if mt == "oem":
        c["min_points"] = min(s["n"] for s in spec["segments"])
        c["one_cov"] = any(s["ncov"] == 1 for s in spec["segments"])
        c["noncartesian"] = any(s["form"] != "cartesian" for s in spec["segments"])
    if mt == "tdm":
        per_path = {}
        for m in spec["measures"]:
            per_path[m["path"]] = per_path.get(m["path"], 0) + 1
        c["single_observation"] = any(v == 1 for v in per_path.values())
        c["doppler"] = "doppler" in spec["content"] and any(m["type"] == "doppler" for m in spec["measures"])
        c["npaths"] = len(spec["paths"])
        types = {m["type"] for m in spec["measures"]}
        c["elevation_without_azimuth"] = "elevation" in types and "azimut" not in types
    return c


def classify(stage, mtype, fmt, exc, cls, loaded_container=None):
    """Mechanism key of a library exception.  stage in {dump, load, redump, reload}."""
    et = type(exc).__name__
    site, last = exc_site(exc)
    msg = str(exc)
    loading = stage in ("load", "reload")
    dumping = stage in ("dump", "redump")
    single = et in ("AttributeError", "TypeError")
    if loading and fmt == "xml" and single:
        if site == "opm._loads_xml" and cls.get("n_user") == 1 and "field" in _src_line(exc):
            return "C13/xml-single-user-defined-opm"
        if site == "omm._loads_xml" and cls.get("n_user") == 1 and "field" in _src_line(exc):
            return "C13/xml-single-user-defined-omm"
        if site == "oem._loads_xml" and cls.get("min_points") == 1 and last == "commons.decode_unit":
            return "C13/xml-single-oem-statevector"
        if site == "oem._loads_xml" and cls.get("one_cov") and 'cov["EPOCH"]' in _src_line(exc):
            return "C13/xml-single-oem-covariance"
        if site == "tdm._loads_xml" and cls.get("single_observation") and "obs.pop" in _src_line(exc):
            return "C13/xml-single-tdm-observation"
    if loading and mtype == "tdm" and et == "CcsdsError" and "DOPPLER_INSTANTANEOUS" in msg and cls.get("doppler"):
        return "C13/tdm-doppler-written-not-readable"
    if loading and mtype == "tdm" and cls.get("elevation_without_azimuth") and (
        (fmt == "kvn" and et == "KeyError" and "ANGLE_TYPE" in msg) or (fmt == "xml" and et in ("UnboundLocalError", "NameError") and "angle_type" in msg)
    ):
        return "C13/tdm-elevation-without-azimuth-no-angle-type"
    if dumping and mtype == "omm" and fmt == "kvn" and et == "AttributeError" and "'tle'" in msg and site == "omm._dumps_kvn" and (
        stage == "redump" or cls.get("src") == "direct"
    ):
        return "C13/omm-kvn-dump-needs-tle-attribute"
    if stage == "redump" and mtype == "tdm" and et == "TypeError" and "Unknown object type" in msg and cls.get("npaths", 1) > 1 and (
        loaded_container or ""
    ).startswith("list["):
        return "C13/tdm-multi-path-loaded-list-not-dumpable"
    if dumping and mtype == "oem" and fmt == "xml" and et == "AttributeError" and "is not available in" in msg and site == "oem._dumps_xml" and (
        cls.get("noncartesian") or stage == "redump"
    ):
        return "C13/oem-xml-dump-noncartesian-form"
    return f"C13/{mtype}-{stage}-{fmt}-raises-{et}-in-{site or last or 'unknown'}"


def _src_line(exc):
    """Source text of the innermost line inside the message module (to tell call sites of one function apart)."""
    line = ""
    for fs in traceback.extract_tb(exc.__traceback__):
        fn = fs.filename.replace("\\", "/")
        if "/beyond/io/ccsds/" in fn and fn.rsplit("/", 1)[-1] in ("opm.py", "oem.py", "omm.py", "tdm.py"):
            line = fs.line or ""
    return line


# =================================================================================================
# the case
# =================================================================================================
def setup(ctx, job):
    from beyond.config import config
    from beyond.io.ccsds import commons

    st = {"probes": [], "cfg_fmt": job.get("cfg_fmt")}
    if job.get("cfg_fmt"):
        config["io"] = {"ccsds_default_format": job["cfg_fmt"]}
    else:
        config.pop("io", None)

    def post(args, kw, res):
        ctx.count("get_format:" + ("argument" if "fmt" in kw else "config-or-default") + ":" + str(res))

    st["probes"].append(probe.attach(commons, "get_format", post=post))
    if job.get("centres"):
        from beyond.env.jpl import create_frames
        from beyond.frames.frames import get_frame

        config.set("env", "jpl", "dynamic_frames", True)
        create_frames()
        st["frames"] = [f for f in JPL_FRAMES if get_frame(f).center.name == f]
        if len(st["frames"]) != len(JPL_FRAMES):
            raise RuntimeError(f"JPL frames missing: {sorted(set(JPL_FRAMES) - set(st['frames']))}")
    # the message modules bound get_format at import time: wrap their references as well
    from beyond.io.ccsds import opm, oem, omm, tdm

    for mod in (opm, oem, omm, tdm):
        st["probes"].append(probe.attach(mod, "get_format", post=post))
    return st


def finish(ctx, job, st):
    for p in st["probes"]:
        p.remove()


def text_format(text):
    t = text.lstrip()
    if t.startswith("CCSDS_"):
        return "kvn"
    if t.startswith("<?xml") or t.startswith("<"):
        return "xml"
    return "unknown"


MTYPE_PATTERN = ["opm", "oem", "opm", "tdm", "omm", "opm", "oem", "opm", "tdm", "omm", "opm", "oem", "opm", "tdm", "omm", "opm", "oem", "opm", "tdm", "oem"]


def summarize(spec):
    """Witness-sized version of a specification (ephemeris points beyond the first three dropped)."""
    if spec["mtype"] == "oem":
        s = dict(spec)
        s["segments"] = [dict(seg, points=seg["points"][:3] + ([f"... {len(seg['points']) - 3} more"] if len(seg["points"]) > 3 else [])) for seg in spec["segments"]]
        return s
    if spec["mtype"] == "tdm" and len(spec["measures"]) > 6:
        return dict(spec, measures=spec["measures"][:6] + [f"... {len(spec['measures']) - 6} more"])
    return spec


def count_classes(ctx, spec):
    mt = spec["mtype"]
    ctx.count("type:" + mt)
    if mt == "opm":
        ctx.count("opm:cls:" + spec["cls"])
        ctx.count("opm:form:" + spec["form"])
        ctx.count(("frame:" if spec["frame"] in FRAMES else "centre:") + spec["frame"])
        ctx.count("scale:" + spec["scale"])
        ctx.count("cov:" + (spec["cov"]["kind"] if spec["cov"] else "absent"))
        if spec["cov"] and spec["cov"]["kind"] in ("state", "other"):
            ctx.count("cov-frame-given-as:" + ("str" if spec["cov"]["as_str"] else "Frame"))
        ctx.count(f"opm:nman:{len(spec['mans'])}")
        for m in spec["mans"]:
            ctx.count("man:" + m["kind"])
            ctx.count("man:frame:" + str(m["frame"]))
            ctx.count("man:comment:" + ("yes" if m["comment"] else "no"))
        ctx.count(f"user:{len(spec['user'])}")
        ctx.count("name-via:" + spec["name_via"])
        ctx.count("orbit:" + spec["orbit"]["ecc_class"])
    elif mt == "omm":
        ctx.count("omm:src:" + spec["src"])
        ctx.count("scale:" + spec["scale"])
        ctx.count("frame:TEME")
        ctx.count("cov:" + (spec["cov"]["kind"] if spec["cov"] else "absent"))
        ctx.count(f"user:{len(spec['user'])}")
        ctx.count("omm:classification:" + spec["classification"])
    elif mt == "oem":
        ctx.count("oem:list-of-2" if len(spec["segments"]) == 2 else ("oem:list-of-1" if spec["as_list"] else "oem:single-ephem"))
        for seg in spec["segments"]:
            ctx.count(f"oem:n:{seg['n']}")
            ctx.count("oem:ncov:" + ("0" if seg["ncov"] == 0 else "1" if seg["ncov"] == 1 else "n"))
            ctx.count("oem:method:" + seg["method"])
            if seg["method"] == "lagrange":
                ctx.count(f"oem:lagrange-order:{seg['order']}")
            ctx.count("oem:form:" + seg["form"])
            ctx.count(("frame:" if seg["frame"] in FRAMES else "centre:") + seg["frame"])
            ctx.count("scale:" + seg["scale"])
            for p in seg["points"]:
                if p["cov"]:
                    ctx.count("cov:" + p["cov"]["kind"])
            if seg["ncov"] == 0:
                ctx.count("cov:absent")
    else:
        for c in spec["content"]:
            ctx.count("tdm:" + c)
        ctx.count("tdm:content:" + "+".join(spec["content"]))
        ctx.count(f"tdm:npaths:{len(spec['paths'])}")
        ctx.count("tdm:single-observation" if classes_of(spec)["single_observation"] else "tdm:many-observations")
        ctx.count("scale:" + spec["scale"])
        for p in spec["paths"]:
            ctx.count(f"tdm:path-length:{len(p)}")


def run_case(ctx, job, idx, rng, st):
    from beyond.io import ccsds

    mtype = MTYPE_PATTERN[idx % len(MTYPE_PATTERN)]
    k = idx // len(MTYPE_PATTERN) * 3 + rng.randrange(3)  # class rotation index within the type
    if job.get("centres"):
        mtype = "opm" if idx % 2 == 0 else "oem"
        k = idx // 2 * 3 + rng.randrange(3)
        spec = GEN[mtype](rng, k, st["frames"])
    else:
        spec = GEN[mtype](rng, k)
    cls = classes_of(spec)
    count_classes(ctx, spec)
    if mtype == "opm" and spec.get("cov") and spec["cov"].get("history"):
        ctx.count("opm:cov-frame-history")
    wbase = {"spec": summarize(spec), "cfg_fmt": st["cfg_fmt"]}

    # reference (before anything is dumped)
    x0, _ = BUILD[mtype](spec)
    ref = reference(spec, EXTRACT[mtype](x0))

    cfg = st["cfg_fmt"]
    use_file_api = rng.random() < 0.15

    def do_dumps(obj, fmt, kwargs, how):
        """how: 'arg' (fmt keyword) or 'implicit' (configuration / documented default)."""
        kw = dict(kwargs)
        if how == "arg":
            kw["fmt"] = fmt
        if use_file_api:
            fp = io.StringIO()
            ccsds.dump(obj, fp, **kw)
            return fp.getvalue()
        return ccsds.dumps(obj, **kw)

    def do_loads(text):
        if use_file_api:
            return ccsds.load(io.StringIO(text))
        return ccsds.loads(text)

    implicit_fmt = cfg or "kvn"
    texts, loaded, extracted = {}, {}, {}
    attempted_load = False
    for fmt in FMTS:
        how = "implicit" if (fmt == implicit_fmt and (cfg or rng.random() < 0.15)) else "arg"
        w = dict(wbase, fmt=fmt, fmt_selected_by=how)
        x, kwargs = BUILD[mtype](spec)  # fresh object: the KVN OEM writer changes the form of its input in place
        try:
            text = do_dumps(x, fmt, kwargs, how)
        except Exception as exc:
            ctx.violation(classify("dump", mtype, fmt, exc, cls), dict(w, exc=repr(exc), tb=_tb(exc)), f"dumps({mtype}, {fmt}) raised {exc!r}")
            ctx.count(f"dump-failed:{mtype}:{fmt}")
            continue
        ctx.count(f"dump-ok:{mtype}:{fmt}")
        got_fmt = text_format(text)
        if how == "arg":
            ctx.count("fmt-by-arg")
            if cfg and cfg != fmt:
                ctx.count("fmt-arg-over-config")
            key = "C13/format-argument-ignored"
        elif cfg:
            ctx.count(f"fmt-by-config:{cfg}")
            key = "C13/format-config-ignored"
        else:
            ctx.count("fmt-by-default")
            key = "C13/format-default-not-kvn"
        ctx.expect(got_fmt == fmt, key, dict(w, produced=got_fmt, text=text[:300]), f"dumps selected by {how} (config={cfg}) produced {got_fmt}, expected {fmt}")
        texts[fmt] = text
        attempted_load = True
        try:
            y = do_loads(text)
        except Exception as exc:
            ctx.violation(classify("load", mtype, fmt, exc, cls), dict(w, exc=repr(exc), tb=_tb(exc), text=text[:1500]), f"loads(dumps({mtype}, {fmt})) raised {exc!r}")
            ctx.count(f"load-failed:{mtype}:{fmt}")
            continue
        try:
            ey = EXTRACT[mtype](y)
        except Exception as exc:
            ctx.violation(f"C13/{mtype}-restore-unusable-object-{fmt}", dict(w, exc=repr(exc), tb=_tb(exc), text=text[:1500]),
                          f"object decoded from {fmt} is not a usable {mtype} object: {exc!r}")
            continue
        loaded[fmt], extracted[fmt] = y, ey
        ctx.count(f"restore-evaluated:{mtype}:{fmt}")
        Cmp(ctx, mtype, "restore", fmt, dict(w, text=text[:1500])).run(ref, ey)
        if mtype == "omm" and ref["classification"] != ey.get("classification"):
            ctx.count(f"omm-classification-not-restored(not judged):{fmt}")
        if mtype == "tdm":
            ctx.count("tdm-decoded-container:" + ey["container"])

    ctx.case({"job": job["name"], "spec": spec}, nontrivial=attempted_load)

    # KVN-decoded vs XML-decoded
    if len(extracted) == 2:
        ctx.count(f"kvn-xml-evaluated:{mtype}")
        Cmp(ctx, mtype, "kvn-xml-differ", None, dict(wbase, kvn=texts["kvn"][:1200], xml=texts["xml"][:1200])).run(extracted["kvn"], extracted["xml"])
        if mtype == "omm" and extracted["kvn"].get("classification") != extracted["xml"].get("classification"):
            ctx.count("omm-classification-kvn-xml-differ(not judged)")
    else:
        ctx.count(f"kvn-xml-skipped-after-failure:{mtype}")

    # anything that was read can be written again (both formats); second generation through the other format
    for fmt, y in loaded.items():
        other = "xml" if fmt == "kvn" else "kvn"
        container = extracted[fmt].get("container") if mtype == "tdm" else None
        for g in FMTS:
            w = dict(wbase, first_fmt=fmt, redump_fmt=g, first_text=texts[fmt][:1500])
            ctx.count("redump-attempted")
            try:
                # never by configuration here: the decoded object, the explicit format
                t2 = ccsds.dumps(y, fmt=g)
            except Exception as exc:
                ctx.violation(classify("redump", mtype, g, exc, cls, _container(y)), dict(w, exc=repr(exc), tb=_tb(exc)),
                              f"object decoded from {fmt} {mtype} cannot be written as {g}: {exc!r}")
                ctx.count(f"redump-failed:{mtype}:{fmt}->{g}")
                continue
            ctx.ok(f"redump:{mtype}:{fmt}->{g}")
            ctx.expect(text_format(t2) == g, "C13/format-argument-ignored", dict(w, produced=text_format(t2)), "re-dump format")
            if g != other:
                continue
            try:
                z = ccsds.loads(t2)
                ez = EXTRACT[mtype](z)
            except Exception as exc:
                ctx.violation(classify("reload", mtype, g, exc, cls), dict(w, exc=repr(exc), tb=_tb(exc), text=t2[:1500]),
                              f"second generation {fmt}->{g}: loads raised {exc!r}")
                ctx.count(f"reload-failed:{mtype}:{fmt}->{g}")
                continue
            ctx.count("second-gen-evaluated")
            ctx.count(f"second-gen-evaluated:{mtype}:{fmt}->{g}")
            Cmp(ctx, mtype, "second-generation", f"{fmt}-{g}", dict(w, text=t2[:1500])).run(extracted[fmt], ez)


def _container(y):
    if isinstance(y, list):
        return f"list[{len(y)}]"
    return type(y).__name__


def _tb(exc):
    return [f"{fs.filename.rsplit('/', 3)[-1] if '/' in fs.filename else fs.filename}:{fs.lineno} {fs.name}: {fs.line}" for fs in traceback.extract_tb(exc.__traceback__)][-4:]
