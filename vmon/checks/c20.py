"""C20 -- conversion routing is correct for every registration order.

  trees-nK    exhaustive: every unlabelled tree shape with K nodes x every insertion order x every orientation
              (a+b vs b+a); invariant checker hooked on Node.__add__ runs after EVERY insertion over all ordered pairs
  graphs-nK   every connected labelled graph on K nodes x sampled insertion orders/orientations: routes valid + shortest
  registry    the real registries (frames / stations / orbit frames / body frames): conversions between pre-existing
              frames are bitwise unchanged by later registrations; every new frame reaches every old one and back
"""

import itertools
import math

import numpy as np

from .. import env, probe
from ..oracles import graph as G

RULE = (
    "trees: case = one (tree shape, insertion order, orientation mask) history, enumerated exhaustively by index; graphs: case = one "
    "connected labelled graph with sampled edge orders; registry: case = one random interleaving of ~24 registrations with "
    "conversions. distinct = digest of the history; non-trivial = at least 2 links inserted"
)
EXHAUSTIVE = [
    "all unlabelled tree shapes with <= 6 nodes (quick) / <= 7 nodes (thorough) x all (n-1)! insertion orders x all 2^(n-1) orientations; "
    "7 nodes (quick) and 8 nodes (thorough) are SAMPLED uniformly (40 000 / 400 000 histories of 506 880 / 14 837 760): a pure-Python "
    "checker of all ordered pairs after every insertion costs ~5 ms per history",
    "all connected labelled graphs on <= 5 nodes (quick) / <= 6 nodes (thorough); their insertion orders are sampled",
]
ASSUMPTIONS = [
    "Node compares names only for equality (label equivariance): unlabelled shapes with randomly permuted names stand for all labelled trees",
    "BFS reference (vmon/oracles/graph.py)",
]

TREE_N = {"quick": [2, 3, 4, 5, 6, 7], "thorough": [2, 3, 4, 5, 6, 7, 8]}
GRAPH_N = {"quick": [3, 4, 5], "thorough": [3, 4, 5, 6]}
_shapes = {}
_graphs = {}


def shapes(n):
    if n not in _shapes:
        _shapes[n] = G.tree_shapes(n)
    return _shapes[n]


def graphs(n):
    if n not in _graphs:
        _graphs[n] = list(G.connected_graphs(n))
    return _graphs[n]


SAMPLED_TREES = {"quick": {7: 40000}, "thorough": {8: 400000}}


def jobs(tier):
    out = []
    for n in TREE_N[tier]:
        total = len(shapes(n)) * G.n_histories(n - 1)
        sampled = SAMPLED_TREES[tier].get(n)
        job = {"name": f"trees-n{n}", "n": sampled or total, "nodes": n, "eop": "zero", "timeout": 3000 if tier == "quick" else 14000,
               "sampled": bool(sampled), "total_histories": total}
        job["shards"] = 1 if job["n"] < 5000 else (16 if job["n"] > 100000 else 8)
        out.append(job)
    for n in GRAPH_N[tier]:
        out.append({"name": f"graphs-n{n}", "n": len(graphs(n)), "nodes": n, "eop": "zero", "orders": {"quick": 16, "thorough": 60}[tier] if n < 6 else 10,
                    "shards": 1 if n < 5 else (8 if n == 5 else 16)})
    out.append({"name": "registry", "n": 8 if tier == "quick" else 64, "eop": "const", "shards": 8 if tier == "quick" else 64})
    return out


def requirements(tier):
    req = {"tree:histories": 60000 if tier == "quick" else 900000, "tree:insertion-checks": 300000, "tree:pair-checks": 5000000,
           "graph:histories": 10000, "graph:pair-checks": 200000, "registry:registrations": 100, "registry:probe-comparisons": 10000,
           "registry:new-frame-roundtrips": 1000, "registry:origin-checks": 30, "registry:nested-orbit-frame": 10,
           "registry:name-differs-by-case-only": 10, "registry:name-registered-again-under-another-parent": 5,
           "registry:name-asked-before-it-exists": 30, "registry:local-frame-under-a-parent-named-otherwise-than-its-orientation": 5, "registry:kind:station-equatorial": 8, "registry:unconnected-frame-reported": 40, "registry:user-orientation-linked-roundtrips": 20}
    return req


# ----------------------------------------------------------------------------------------------
class Monitor:
    """Invariant checker run by the hook on Node.__add__ after every insertion."""

    def __init__(self, ctx, kind):
        self.ctx = ctx
        self.kind = kind
        self.reset({}, None)

    def reset(self, nodes, witness):
        self.nodes = nodes  # name -> Node
        self.edges = []
        self.witness = witness
        self.failed = False

    def after_add(self, args, kw, res):
        a, b = args[0], args[1]
        if a.name not in self.nodes or self.nodes[a.name] is not a:
            return  # not one of ours (e.g. library-internal graphs built at import)
        self.edges.append((a.name, b.name))
        self.check()

    def check(self):
        ctx = self.ctx
        if self.failed:
            return  # one witness per history is enough (keeps a badly broken tree from taking hours)
        adj = G.adjacency(self.edges)
        names = list(self.nodes)
        ctx.count(f"{self.kind}:insertion-checks")
        # forest (every component a tree) or cyclic?  #links == #nodes - #components  <=>  forest
        seen, comps = set(), 0
        for u in adj:
            if u not in seen:
                comps += 1
                seen.update(G.bfs_dist(adj, u))
        forest = len(set(frozenset(e) for e in self.edges)) == len(adj) - comps
        suffix = "" if forest else "-cyclic-graph"
        for u in names:
            dist = G.bfs_dist(adj, u) if u in adj else {u: 0}
            nu = self.nodes[u]
            for v in names:
                ctx.count(f"{self.kind}:pair-checks")
                w = dict(self.witness, inserted=list(self.edges), src=u, dst=v)
                if v not in dist:
                    if v in nu.routes:
                        # path() would follow it (possibly without end): the stale entry itself is the observation
                        self.fail("C20/route-to-unconnected-node", w, f"{u} holds a route towards {v} although they are not connected")
                        continue
                    try:
                        p = nu.path(v)
                        self.fail("C20/route-to-unconnected-node", w, f"path({u}->{v}) = {[x.name for x in p]} but they are not connected")
                    except ValueError:
                        ctx.evaluations += 1
                    except Exception as exc:
                        self.fail("C20/unconnected-wrong-exception", dict(w, exc=repr(exc)), repr(exc))
                    continue
                # path() follows routes[goal].direction in a bare `while True`: walk the same tables with a bound first, so
                # that a routing loop is an observation (logical steps), not a hang of the check
                hops, obj, looped = 0, nu, False
                while obj.name != v:
                    r = obj.routes.get(v)
                    if r is None:
                        break
                    obj = r.direction
                    hops += 1
                    if hops > len(names) + 1:
                        looped = True
                        break
                if looped:
                    self.fail("C20/route-loops-forever" + suffix, w, f"following the routing tables from {u} towards {v} never arrives (path() would not return)")
                    continue
                try:
                    p = nu.path(v)
                    steps = list(nu.steps(v))
                except Exception as exc:
                    self.fail("C20/connected-pair-no-route" + suffix, dict(w, exc=repr(exc)),
                              f"{u} and {v} are connected but path() raised {exc!r}")
                    continue
                pn = [x.name for x in p]
                valid = pn[0] == u and pn[-1] == v and all(b in adj.get(a, ()) for a, b in zip(pn, pn[1:])) and len(set(pn)) == len(pn)
                if not valid:
                    self.fail("C20/invalid-route" + suffix, dict(w, path=pn), f"path({u}->{v}) = {pn} is not a chain of existing links")
                    continue
                if len(pn) - 1 != dist[v]:
                    if forest:
                        key = "C20/tree-route-not-unique-chain"
                    else:
                        # known finding only if the recorded model of the pinned (stale depth-first) update predicts
                        # exactly this route length for this insertion history; otherwise it is something new
                        model = G.StaleDfsModel()
                        for a, b in self.edges:
                            model.add(a, b)
                        key = ("C20/non-shortest-route-cyclic-graph" if model.length(u, v) == len(pn) - 1
                               else "C20/non-shortest-route-cyclic-graph-not-explained-by-known-mechanism")
                        w = dict(w, model_length=model.length(u, v))
                    self.fail(key, dict(w, path=pn, shortest=dist[v]), f"path({u}->{v}) = {pn} has {len(pn) - 1} links, shortest chain has {dist[v]}")
                    if key != "C20/non-shortest-route-cyclic-graph":
                        return
                    self.failed = False  # the known finding does not stop the examination of the history
                    continue
                if [(a.name, b.name) for a, b in steps] != list(zip(pn, pn[1:])):
                    self.fail("C20/steps-disagree-with-path", dict(w, path=pn), "steps() is not the pairwise chain of path()")
                    continue
                ctx.evaluations += 1

    def fail(self, key, w, msg):
        self.failed = True
        self.ctx.evaluations += 1
        self.ctx.violation(key, w, msg)


def setup(ctx, job):
    from beyond.utils.node import Node

    st = {}
    if job["name"].startswith("trees") or job["name"].startswith("graphs"):
        kind = "tree" if job["name"].startswith("trees") else "graph"
        mon = Monitor(ctx, kind)
        st["mon"] = mon
        st["probe"] = probe.attach(Node, "__add__", post=mon.after_add)
    else:
        st.update(registry_setup(ctx, job))
    return st


def finish(ctx, job, st):
    if "probe" in st:
        st["probe"].remove()


def run_history(ctx, st, n, hist, rng, witness):
    from beyond.utils.node import Node

    perm = list(range(n))
    rng.shuffle(perm)
    names = [f"N{perm[k]}" for k in range(n)]
    nodes = {names[k]: Node(names[k]) for k in range(n)}
    st["mon"].reset(nodes, witness)
    for a, b in hist:
        nodes[names[a]] + nodes[names[b]]  # noqa: the hook checks every pair after this insertion
    return st["mon"].failed


def case_tree(ctx, job, idx, rng, st):
    n = job["nodes"]
    per = G.n_histories(n - 1)
    if job.get("sampled"):
        idx = rng.randrange(job["total_histories"])
    si, hi = divmod(idx, per)
    edges = shapes(n)[si]
    hist = G.history_at(edges, hi)
    w = {"nodes": n, "shape": edges, "history": [list(h) for h in hist]}
    ctx.cases += 1
    ctx.nontrivial.add(f"{n}:{si}:{hi}") if n > 2 else None
    if len(ctx.samples) < 3 and n >= 4:
        ctx.samples.append(w)
    ctx.count("tree:histories")
    run_history(ctx, st, n, hist, rng, w)


def case_graph(ctx, job, idx, rng, st):
    n = job["nodes"]
    edges = graphs(n)[idx]
    ctx.case({"nodes": n, "edges": edges}, nontrivial=len(edges) >= 2)
    cyclic = len(edges) > n - 1
    for k in range(job["orders"]):
        order = list(edges)
        rng.shuffle(order)
        hist = tuple((b, a) if rng.random() < 0.5 else (a, b) for a, b in order)
        # chained sums as the library writes them (A + B + C): consecutive links sharing a node, when possible
        w = {"nodes": n, "edges": edges, "history": [list(h) for h in hist], "cyclic": cyclic}
        ctx.count("graph:histories")
        ctx.count("graph:cyclic" if cyclic else "graph:acyclic")
        run_history(ctx, st, n, hist, rng, w)


# ----------------------------------------------------------------------------------------------
BUILTIN = ["EME2000", "MOD", "TOD", "TEME", "PEF", "ITRF", "TIRF", "CIRF", "GCRF", "G50"]


def registry_setup(ctx, job):
    return {}


def case_registry(ctx, job, idx, rng, st):
    from beyond.dates import Date, timedelta
    from beyond.orbits import Orbit, StateVector
    from beyond.frames.stations import create_station
    from beyond.frames.frames import get_frame, orbit2frame
    from beyond.env import solarsystem
    from beyond.propagators.kepler import Kepler
    from ..oracles import elements as el

    date0 = Date(2015, 3, 4, 5, 6, 7)
    mu = 3.986004418e14
    states = []
    for k in range(3):
        a = rng.uniform(6.8e6, 4.2e7)
        r, v = el.kep2cart(a, rng.uniform(0.001, 0.3), rng.uniform(0.1, 3.0), rng.uniform(0, 6.28), rng.uniform(0, 6.28), rng.uniform(0, 6.28), mu)
        states.append(([float(x) for x in r] + [float(x) for x in v], date0 + timedelta(seconds=rng.uniform(0, 86400 * 30))))
    pairs = [(a, b) for a in BUILTIN for b in BUILTIN if a != b]

    def probe_set(frames_pairs):
        out = {}
        for a, b in frames_pairs:
            for k, (coord, d) in enumerate(states):
                if k != (len(a) * 7 + len(b) * 3 + ord(a[0]) + ord(b[-1])) % 3:
                    continue  # one of the three states per ordered pair (fixed choice)
                sv = StateVector(coord, d, "cartesian", a)
                try:
                    out[(a, b, k)] = probe.arr(sv.copy(frame=b)).tobytes()
                except Exception as exc:
                    out[(a, b, k)] = "EXC:" + repr(exc)
        return out

    ctx.case({"scenario": idx, "states": [s[0] for s in states]})
    registered = []  # names of frames created so far (all reachable from the built-ins)
    station_names = []
    inertial_hosts = []  # registered frames with inertial axes and a name of their own: body frames, orbit frames without orientation
    ref = probe_set(pairs)
    old_pairs = list(pairs)
    n_reg = 24
    for step in range(n_reg):
        kind = rng.choice(["station", "station", "station-equatorial", "orbit-none", "orbit-qsw", "orbit-tnw", "orbit-qsw", "body"])
        name = f"R{idx}x{step}"
        twins = [r.swapcase() for r in registered if r.startswith("R") and r.swapcase() not in registered]
        if kind != "body" and twins and rng.random() < 0.3:
            # a NEW name that differs from an existing one only by the case of its letters
            name = rng.choice(twins)
            ctx.count("registry:name-differs-by-case-only")
        w = {"scenario": idx, "step": step, "kind": kind, "registered_before": list(registered)}
        if kind != "body" and name not in registered and rng.random() < 0.5:
            # history: the name is asked for BEFORE it exists (a conversion attempted too early): it is reported as unknown,
            # and that refusal must not outlive the registration that follows (judged by the conversions of step (2))
            coord, d = states[step % 3]
            try:
                res = StateVector(coord, d, "cartesian", "EME2000").copy(frame=name)
                ctx.violation("C20/unknown-frame-name-not-reported", dict(w, name=name, got=probe.arr(res).tolist()), f"conversion to the unknown frame name {name!r} returned a state")
            except Exception:
                ctx.count("registry:name-asked-before-it-exists")
        try:
            if kind == "station":
                create_station(name, (rng.uniform(-89, 89), rng.uniform(-180, 360), rng.uniform(-400, 9000)))
            elif kind == "station-equatorial":
                # the documented variant whose axes are the inertial ones (right ascension / declination from the site)
                create_station(name, (rng.uniform(-89, 89), rng.uniform(-180, 360), rng.uniform(-400, 9000)), equatorial=True)
            elif kind.startswith("orbit") and kind != "orbit-none" and inertial_hosts and rng.random() < 0.4:
                # a local orbital frame whose parent is a frame registered earlier whose NAME is not the name of its
                # orientation (the Moon- / Sun-centred frames, an orbit-attached frame with inertial axes)
                host = rng.choice(inertial_hosts)
                orient = {"orbit-qsw": "QSW", "orbit-tnw": "TNW"}[kind]
                for coord, d in rng.sample(states, 3):
                    # (a plain state vector, as in the nested case below: an Orbit re-expressed in a frame that is not inertial would
                    # be propagated there by Kepler's laws, which is nobody's intention)
                    ref_state = StateVector(coord, d, "cartesian", "EME2000").copy(frame=host)
                    # (not the state the host frame itself is attached to: it sits at the host's origin, where local axes are undefined)
                    if float(np.linalg.norm(probe.arr(ref_state)[:3])) > 1e3:
                        break
                orbit2frame(name, ref_state, orientation=orient, parent=get_frame(host))
                ctx.count("registry:local-frame-under-a-parent-named-otherwise-than-its-orientation")
                at = StateVector(coord, d, "cartesian", "EME2000").copy(frame=name)
                off = float(np.linalg.norm(probe.arr(at)[:3]))
                ctx.count("registry:origin-checks")
                ctx.resid("registry:reference-state-at-origin", off, 1e-5 + 1e-12 * 1.6e11, key="C20/orbit-frame-chain-misplaces-origin-nested",
                          witness=dict(w, new=name, host=host, offset=off), msg=f"the state used to create frame {name} is {off:.6g} m away from that frame's origin")
            elif kind.startswith("orbit"):
                coord, d = states[rng.randrange(3)]
                orient = {"orbit-none": None, "orbit-qsw": "QSW", "orbit-tnw": "TNW"}[kind]
                nested = bool(registered) and rng.random() < 0.5
                if nested:
                    # the reference state is expressed in a previously registered frame (station, orbit frame, body frame):
                    # the new centre hangs under that frame's centre, two or more links away from the Earth
                    host = rng.choice(registered)
                    ref_state = StateVector(coord, d, "cartesian", "EME2000").copy(frame=host)
                    ctx.count("registry:nested-orbit-frame")
                    if orient is None:
                        orbit2frame(name, ref_state)
                    else:
                        orbit2frame(name, ref_state, orientation=orient)
                    parent = "EME2000"
                else:
                    parent = rng.choice(["EME2000", "MOD", "TEME"])
                    ref_state = Orbit(coord, d, "cartesian", "EME2000", Kepler()).copy(frame=parent)
                    orbit2frame(name, ref_state, orientation=orient, parent=get_frame(parent))
                # the chain of links to the new centre must place its own reference state at the origin
                at = StateVector(coord, d, "cartesian", "EME2000").copy(frame=name)
                off = float(np.linalg.norm(probe.arr(at)[:3]))
                tol_o = 1e-5 + 1e-12 * (1.6e11 if any(r in ("Sun",) for r in registered) else 4.5e8)
                ctx.count("registry:origin-checks")
                ctx.resid("registry:reference-state-at-origin", off, tol_o, key="C20/orbit-frame-chain-misplaces-origin" + ("-nested" if nested else ""),
                          witness=dict(w, new=name, host=host if nested else parent, offset=off),
                          msg=f"the state used to create frame {name} is {off:.6g} m away from that frame's origin")
            else:
                body = rng.choice(["Moon", "Sun"])
                f = solarsystem.get_frame(body)
                name = f.name
        except Exception as exc:
            ctx.violation("C20/registration-raises", dict(w, exc=repr(exc)), f"registering {kind} {name} raised {exc!r}")
            continue
        ctx.count("registry:registrations")
        ctx.count("registry:kind:" + kind)
        # (1) conversions between frames that already existed are bitwise unchanged
        now = probe_set(old_pairs)
        changed = [k for k in ref if now[k] != ref[k]]
        ctx.count("registry:probe-comparisons", len(ref))
        ctx.expect(not changed, "C20/registration-changes-existing-conversion", dict(w, new=name, changed=[list(map(str, c)) for c in changed[:5]], n_changed=len(changed)),
                   f"after registering {name}, {len(changed)} of {len(ref)} conversions between pre-existing frames changed")
        # (2) the new frame reaches every old one and back
        if name not in registered:
            targets = BUILTIN + registered
            for other in targets:
                coord, d = states[step % 3]
                sv = StateVector(coord, d, "cartesian", "EME2000")
                try:
                    there = sv.copy(frame=other).copy(frame=name)
                    back = there.copy(frame=other).copy(frame="EME2000")
                    diff = float(np.linalg.norm(probe.arr(back)[:3] - np.array(coord[:3])))
                    # C02 algebraic tolerance: 1e-5 m + 1e-12 x largest centre offset (Sun frame: 1.5e11 m)
                    tol = 1e-5 + 1e-12 * max(float(np.linalg.norm(coord[:3])), 1.6e11 if ("Sun" in (name, other) or any(r in ("Sun",) for r in registered)) else 4.1e8 if ("Moon" in (name, other)) else 0.0)
                    ctx.count("registry:new-frame-roundtrips")
                    ctx.resid("registry:roundtrip", diff, tol, key="C20/new-frame-roundtrip", witness=dict(w, new=name, other=other, diff=diff))
                except Exception as exc:
                    ctx.violation("C20/new-frame-cannot-reach-existing", dict(w, new=name, other=other, exc=repr(exc)),
                                  f"{name} <-> {other}: {exc!r}")
            # extend the reference with conversions involving the new frame (they "already exist" for later registrations)
            extra = [(name, b) for b in rng.sample(BUILTIN, 2)] + [(b, name) for b in rng.sample(BUILTIN, 2)]
            ref.update(probe_set(extra))
            old_pairs += extra
            registered.append(name)
            if kind == "station":
                station_names.append(name)
            if kind in ("body", "orbit-none"):
                inertial_hosts.append(name)
    unlinked_orientation_scenario(ctx, idx, rng, states, registered)
    reparent_scenario(ctx, idx, rng, states, station_names)


def unlinked_orientation_scenario(ctx, idx, rng, states, registered):
    """A frame built by the user on an orientation that is not linked to anything yet (its centre is the Earth, which IS
    connected): conversions between it and connected frames -- built-in, station, orbit frame -- are reported (any exception),
    never answered.  Same for the Hill frame, whose orientation is outside the graph.  Once the orientation is linked, the
    conversions exist and round-trip."""
    from beyond.frames.frames import Frame, get_frame
    from beyond.frames.orient import Orientation
    from beyond.frames import orient, center
    from beyond.orbits import StateVector
    from beyond.utils.matrix import rot3

    oname = f"VmonC20Unlinked{idx}"
    user_orient = Orientation(oname)
    user = Frame(f"VmonC20User{idx}", user_orient, center.Earth)
    coord, d = states[0]
    others = rng.sample(BUILTIN, 3) + (rng.sample(registered, min(2, len(registered))) if registered else [])
    w = {"scenario": idx, "user_frame": user.name, "orientation": oname}
    for other in others:
        for direction in ("to", "from"):
            try:
                if direction == "to":
                    res = StateVector(coord, d, "cartesian", "EME2000").copy(frame=other).copy(frame=user)
                else:
                    res = StateVector(coord, d, "cartesian", user).copy(frame=other)
            except Exception:
                ctx.count("registry:unconnected-frame-reported")
                continue
            ctx.violation("C20/frames-with-unconnected-orientations-converted-without-report", dict(w, other=other, direction=direction, got=probe.arr(res).tolist()),
                          f"{'->'.join((other, user.name) if direction == 'to' else (user.name, other))}: the orientations are not connected, yet a state was returned")
    try:
        res = StateVector(coord, d, "cartesian", "EME2000").copy(frame="Hill")
        ctx.violation("C20/frames-with-unconnected-orientations-converted-without-report", dict(w, other="Hill", got=probe.arr(res).tolist()), "EME2000 -> Hill returned a state")
    except Exception:
        ctx.count("registry:unconnected-frame-reported")
    # linked now: a fixed rotation about z with respect to EME2000
    ang = rng.uniform(0.1, 3.0)
    setattr(Orientation, f"{oname}_to_EME2000", lambda self, date, ang=ang: (rot3(ang), None))
    orient.EME2000 + user_orient
    for other in others:
        try:
            sv = StateVector(coord, d, "cartesian", "EME2000").copy(frame=other)
            back = probe.arr(sv.copy(frame=user).copy(frame=other))
        except Exception as exc:
            ctx.violation("C20/new-frame-cannot-reach-existing", dict(w, other=other, exc=repr(exc)), f"{user.name} (orientation linked now) <-> {other}: {exc!r}")
            continue
        diff = float(np.linalg.norm(back[:3] - probe.arr(sv)[:3]))
        ctx.count("registry:user-orientation-linked-roundtrips")
        ctx.resid("registry:user-orientation-roundtrip", diff, 1e-5 + 1e-12 * 1.6e11, key="C20/new-frame-roundtrip", witness=dict(w, other=other, diff=diff))


def reparent_scenario(ctx, idx, rng, states, registered_stations):
    """A station name registered AGAIN under another parent frame (the library announces "already registered.
    Overriding"): conversions to and from the frame that now owns the name must follow ITS links.  On the pinned tree the
    old orientation node stays linked to the old parent, and routes that reach the name through that parent end on the
    replaced object (recorded as a known finding, recognised by exactly that: the route's last node is not the new
    frame's orientation)."""
    from beyond.frames.stations import create_station
    from beyond.frames.frames import get_frame
    from beyond.orbits import StateVector

    if not registered_stations:
        return
    name = rng.choice(registered_stations)
    new_parent = rng.choice(["TIRF", "PEF"])
    w = {"scenario": idx, "name": name, "first_parent": "ITRF", "second_parent": new_parent}
    try:
        new = create_station(name, (rng.uniform(-80, 80), rng.uniform(-180, 180), rng.uniform(0, 3000)), parent_frame=get_frame(new_parent))
    except Exception as exc:
        ctx.violation("C20/registration-raises", dict(w, exc=repr(exc)), f"re-registering {name} under {new_parent} raised {exc!r}")
        return
    ctx.count("registry:name-registered-again-under-another-parent")
    coord, d = states[0]
    for other in ("EME2000", "TOD", "ITRF", new_parent):
        sv = StateVector(coord, d, "cartesian", "EME2000").copy(frame=other)
        try:
            back = probe.arr(sv.copy(frame=new).copy(frame=other))
        except Exception as exc:
            ctx.violation("C20/new-frame-cannot-reach-existing", dict(w, other=other, exc=repr(exc)), f"{name} <-> {other}: {exc!r}")
            continue
        diff = float(np.linalg.norm(back[:3] - probe.arr(sv)[:3]))
        route_end = get_frame(other).orientation.path(name)[-1]
        stale = route_end is not new.orientation
        key = "C20/name-re-registered-under-another-parent-routes-through-replaced-node" if stale else "C20/re-registered-name-roundtrip"
        ctx.resid("registry:reparent-roundtrip", diff, 1e-5 + 1e-12 * float(np.linalg.norm(coord[:3])), key=key,
                  witness=dict(w, other=other, diff=diff, route_ends_on_replaced_object=stale),
                  msg=f"{other} -> {name} -> {other} after {name} was registered again under {new_parent}: {diff:.6g} m")


def run_case(ctx, job, idx, rng, st):
    if job["name"].startswith("trees"):
        case_tree(ctx, job, idx, rng, st)
    elif job["name"].startswith("graphs"):
        case_graph(ctx, job, idx, rng, st)
    else:
        case_registry(ctx, job, idx, rng, st)
