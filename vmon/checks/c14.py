"""C14 -- covariance frame changes are pure, path-independent rotations.

Monitors (all on the real `Cov`, `StateVector` objects; nothing in /repo is modified)
  * reference model: after EVERY hop of a generated history the covariance must equal  M C M^T  where
      - named target:  M = linear part of the state map (attachment frame -> target) obtained by pushing the zero
        vector and the six basis vectors through StateVector.copy(frame=) (public API, C02's subject),
      - QSW / TNW:     M = blockdiag(R, R), R built by vmon.oracles.cov_ref.lof_rotation from the *inertial*
        position / velocity of the attachment state (own kep2cart numbers, textbook axis definitions);
    plus symmetric, positive semi-definite, position-block spectrum unchanged, frame label = target.
  * differential history: the result of a sequence s1..sk is compared with the one-hop conversion to sk made
    on a fresh covariance (library against library, independent of the oracle above).
  * round trip: converting back to the attachment frame restores the generated matrix.
  * drag: `orb.frame = X` moves an attached covariance that is expressed in the state's frame, and only then;
    `orb.cov.frame = X` never moves the state; `Cov.copy(frame=)` never changes its receiver.
  * the same with the covariance constructed with the frame given as `str` (the documented argument type).

Violation keys = mechanism = clause + input class of the *first* breaching hop of a history (evaluation of a
history stops at its first breach; later hops are consequences):
    C14/<clause>-<src>-to-<tgt>[-via-drag]
      clause    value | symmetric | psd | pos-eig | label | raises | roundtrip ;   C14/path-ending-<named|local>
      src       start (never converted) | named | local ;  tgt  named | local
      via-drag  the breaching hop was driven by `orb.frame = `
    C14/local-hop-displaced    a hop from or to QSW/TNW made while the most recent *named* frame the covariance was
                               expressed in is not the attachment frame (whatever clause exposes it)
    C14/local-hop-after-copy   a hop from or to QSW/TNW, not displaced, after an earlier Cov.copy(frame=) hop
    C14/str-frame-*            the covariance was constructed with its frame given as str
    C14/copy-frame-mutates-receiver, C14/cov-frame-change-moves-state, C14/state-frame-change-moves-untangled-cov
"""

import math

import numpy as np

from .. import env, probe
from ..oracles import cov_ref as cr
from ..oracles import elements as el

NAMED = ["EME2000", "MOD", "TOD", "TEME", "PEF", "ITRF", "TIRF", "CIRF", "GCRF", "G50"]
LOCAL = ["QSW", "TNW"]
TARGETS = NAMED + LOCAL
START = ["EME2000", "MOD", "TOD", "TEME", "GCRF", "CIRF", "G50"]  # non-rotating frames of the quantifier
ROTATING = {"PEF", "ITRF", "TIRF"}
MU_EARTH = 3.986004418e14  # only to build test orbits with the oracle's kep2cart (value irrelevant to the property)

ORBIT_CLASSES = {
    # name: (a_min, a_max [m], e_min, e_max)
    "LEO": (6.65e6, 8.0e6, 1e-3, 0.05),
    "MEO": (8.0e6, 3.0e7, 1e-3, 0.3),
    "GTO": (2.4e7, 2.5e7, 0.6, 0.73),
    "GEO": (4.2e7, 4.23e7, 1e-3, 0.01),
    "HYP": (6.8e6, 3.0e7, 1.1, 2.0),  # fly-by: the first two numbers bound the pericentre radius
}
STATE_FORMS = ["cartesian", "keplerian", "spherical", "equinoctial", "keplerian_mean"]

RULE = (
    "case = one orbit (class LEO/MEO/GTO/GEO/hyperbolic fly-by, random orientation/anomaly, date in the IERS tables), one attachment "
    "frame of the 7 non-rotating ones, one random SPD 6x6 (condition number up to 1e12, sigma_pos 1 m..10 km, "
    "sigma_vel/sigma_pos 1e-4..1e-2 1/s) and a set of frame histories (all 144 two-hop sequences, or random "
    "sequences of length 1..5, each hop driven by cov.frame=, Cov.copy(frame=), orb.frame= or a mixture); "
    "distinct = digest of orbit, date, frame, matrix parameters; non-trivial = at least one hop changed the frame"
)
EXHAUSTIVE = ["all 12x12 ordered two-hop target sequences over {10 built-in frames, QSW, TNW} for every case of the job 'twohop'/'twohop-nocache'"]
ASSUMPTIONS = [
    "the 6x6 state map between named frames is read from the library's public StateVector.copy(frame=) (linear part, "
    "zero vector and basis vectors pushed through); its correctness is property C02, not C14",
    "QSW/TNW axis definitions of vmon/oracles/cov_ref.py (q=r/|r|, w=rxv/|rxv|, s=wxq; t=v/|v|, n=wxt) are the truth",
    "the velocity rows of the state map of Earth-fixed frames (omega x r coupling) belong to the 'rotation' M of the "
    "statement: the demanded result is M C M^T with the full 6x6 M; the position block is R C_pp R^T in every case",
    "jobs other than 'twohop-nocache' wrap beyond.frames.iau2010._xysxy2 (17 ms series evaluation, a pure function of "
    "the date) with a per-date cache attached from the harness; 'twohop-nocache' runs without it",
]

# Tolerances (DESIGN C14): elementwise |lib - oracle| / sqrt(S_i S_j) <= 1e-10 where S is the largest position
# (resp. velocity) variance among the expected matrices of every frame visited so far -- the rounding error of a hop
# M C M^T is ~1e-16 * S elementwise and the blocks are mixed by rotations; the generator keeps sigma_vel/sigma_pos
# >= 1e-4 1/s so that the omega x r coupling of Earth-fixed frames (7.3e-5 1/s) does not swamp the velocity block.
# Probed noise floor: 4.4e-15 for pure cov.frame= chains; worst over the thorough tier (2.0e6 hops, all drivers,
# states given in Keplerian forms): 4.6e-13 (value, path, round trip), 1.4e-15 (symmetry), 5.6e-15 (eigenvalues,
# relative to the largest). Tolerance = 200 x the worst observed; the smallest effect of a realistic bug (axes off
# by the equation of the equinoxes, 1e-4 rad) is ~1e-4, S-11 itself is 5e-4 ... 1.4.
TOL_VALUE = 1e-10
TOL_EIG = 1e-9


def jobs(tier):
    if tier == "quick":
        return [
            {"name": "twohop", "n": 128, "eop": "real", "kind": "twohop", "cache": True},
            {"name": "long", "n": 256, "eop": "real", "kind": "long", "cache": True, "nseq": 40},
            {"name": "twohop-nocache", "n": 8, "eop": "real", "kind": "twohop", "cache": False, "shards": 8},
            {"name": "strframe", "n": 160, "eop": "real", "kind": "str", "cache": True},
        ]
    return [
        {"name": "twohop", "n": 3000, "eop": "real", "kind": "twohop", "cache": True},
        {"name": "long", "n": 5000, "eop": "real", "kind": "long", "cache": True, "nseq": 60},
        {"name": "twohop-const-eop", "n": 160, "eop": "const", "kind": "twohop", "cache": True},
        {"name": "twohop-nocache", "n": 48, "eop": "real", "kind": "twohop", "cache": False, "shards": 16},
        {"name": "strframe", "n": 1600, "eop": "real", "kind": "str", "cache": True},
    ]


def requirements(tier):
    q = tier == "quick"
    req = {
        "hop-evaluated": 30000 if q else 1000000,
        "path-evaluated": 12000 if q else 400000,
        "roundtrip-evaluated": 12000 if q else 400000,
        "onehop-evaluated": 1000,
        "bystander-checked": 1500, "derived-matrix-evaluated": 1500, "values-updated-in-place-between-hops": 300, "twin-reading-other-scale": 50, "matrix-given-as:int-ndarray": 3, "matrix-given-as:int-lists": 3,
        "driver:set": 2000,
        "driver:copy": 2000,
        "driver:drag": 1000,
        "driver:attached-set": 1000,
        "driver:copy-reattach": 100,
        "drag-untangled-checked": 100,
        "copy-receiver-checked": 1000,
        "state-untouched-checked": 1000,
        "strframe:convert": 100,
        "strframe:drag": 50,
        "seqlen:1": 50, "seqlen:2": 5000, "seqlen:3": 200, "seqlen:4": 200, "seqlen:5": 200,
        "cond:1e8-1e12": 10,
    }
    for f in START:
        req["start:" + f] = 5
    for t in TARGETS:
        req["target:" + t] = 500
    for c in ORBIT_CLASSES:
        req["orbit:" + c] = 5
    return req


# ----------------------------------------------------------------------------------------------------------
def setup(ctx, job):
    st = {"probes": [], "cache": {}}
    if job.get("cache"):
        from beyond.frames import iau2010

        raw = iau2010._xysxy2
        cache = st["cache"]

        def cached(date):
            k = (date._d, date._s, date.scale.name)
            if k not in cache:
                if len(cache) > 8:
                    cache.clear()
                cache[k] = raw(date)
                ctx.count("xys-cache-miss")
            return cache[k]

        iau2010._xysxy2 = cached
        st["restore"] = (iau2010, "_xysxy2", raw)
    return st


def finish(ctx, job, st):
    if "restore" in st:
        mod, name, raw = st["restore"]
        setattr(mod, name, raw)


def fname(f):
    return f if isinstance(f, str) else getattr(f, "name", repr(f))


def gen_case(rng, idx):
    from beyond.dates import Date, timedelta

    oc = list(ORBIT_CLASSES)[idx % len(ORBIT_CLASSES)]
    a0, a1, e0, e1 = ORBIT_CLASSES[oc]
    a = math.exp(rng.uniform(math.log(a0), math.log(a1)))
    e = rng.uniform(e0, e1)
    inc = rng.choice([rng.uniform(0.05, 1.2), rng.uniform(1.2, 1.9), rng.uniform(1.9, 3.09)]) if oc != "GEO" else rng.uniform(0.01, 0.2)
    raan, argp, nu = (rng.uniform(0, 2 * math.pi) for _ in range(3))
    if oc == "HYP":
        a = -a / (e - 1)  # a < 0, pericentre radius = the drawn length
        nu = rng.uniform(-1.5, 1.5)  # well inside the asymptotes (acos(-1/e) >= 2.7 rad)
    r, v = el.kep2cart(a, e, inc, raan, argp, nu, MU_EARTH)
    start = START[(idx // len(ORBIT_CLASSES)) % len(START)]
    # date inside the real IERS tables (MJD 41684..57802), microsecond grid
    mjd = rng.uniform(env.EOP_MJD_MIN + 30, env.EOP_MJD_MAX - 30)
    day = int(mjd)
    usec = rng.randrange(0, 86400 * 10 ** 6)
    date = Date(day, 0.0) + timedelta(microseconds=usec)
    C, cd = cr.random_spd(rng)
    given = "float-ndarray"
    if idx % 5 == 3:
        # "every symmetric PSD 6x6 matrix", whatever holds its numbers: integer-valued matrices (a diagonal of variances typed
        # by hand, A A^T of an integer A) as int64 arrays or nested lists, float matrices as nested lists
        given = rng.choice(["int-ndarray", "int-lists", "float-lists", "int-diagonal"])
        if given != "float-lists":
            A_ = np.array([[rng.randint(-3, 3) for _ in range(6)] for _ in range(6)])
            Ci = A_ @ A_.T + np.diag([rng.randint(1, 9) for _ in range(6)]) if given != "int-diagonal" else np.diag([rng.randint(1, 400) for _ in range(6)])
            C = Ci.astype(float)
            cd = dict(cd, cond=float(np.linalg.cond(C)))
    form = rng.choice(STATE_FORMS if oc != "HYP" else ["cartesian", "spherical", "keplerian"])
    descr = dict(orbit_class=oc, a=a, e=e, i=inc, raan=raan, argp=argp, nu=nu, start=start, mjd_day=day, usec=usec,
                 state_form=form, matrix_given_as=given, **cd)
    return dict(r=r, v=v, start=start, date=date, C=C, form=form, descr=descr, oc=oc, given=given)


def statemap(A, T, date):
    """Linear part of the state map A -> T at `date` through the public API."""
    from beyond.orbits import StateVector

    z = probe.arr(StateVector([0.0] * 6, date, "cartesian", A).copy(frame=T))
    cols = []
    for j in range(6):
        e = [0.0] * 6
        e[j] = 1.0
        cols.append(probe.arr(StateVector(e, date, "cartesian", A).copy(frame=T)) - z)
    return np.array(cols).T


class Case:
    def __init__(self, ctx, c):
        from beyond.frames.frames import get_frame

        self.ctx = ctx
        self.c = c
        self.A = c["start"]
        self.C = c["C"]
        self.frameA = get_frame(self.A)
        M = {}
        for T in NAMED:
            M[T] = np.identity(6) if T == self.A else statemap(self.A, T, c["date"])
        for T in LOCAL:
            M[T] = cr.block2(cr.lof_rotation(T, c["r"], c["v"]))
        self.M = M
        self.exp = {T: M[T] @ self.C @ M[T].T for T in TARGETS}
        self.ev_pos = np.linalg.eigvalsh(self.C[:3, :3])
        self.witness = dict(
            c["descr"], r=[float(x) for x in c["r"]], v=[float(x) for x in c["v"]], date=str(c["date"]),
            C=[[float(x) for x in row] for row in self.C],
        )

    def given(self):
        """The matrix as the caller holds it (see gen_case): a new container at every call."""
        g = self.c.get("given", "float-ndarray")
        if g in ("int-ndarray", "int-diagonal"):
            return np.array(np.rint(self.C), dtype=np.int64)
        if g == "int-lists":
            return [[int(round(x)) for x in row] for row in self.C]
        if g == "float-lists":
            return [[float(x) for x in row] for row in self.C]
        return self.C.copy()

    def new_sv(self):
        from beyond.orbits import StateVector

        c = self.c
        sv = StateVector(list(c["r"]) + list(c["v"]), c["date"], "cartesian", self.frameA)
        if c["form"] != "cartesian":
            sv.form = c["form"]
        return sv


class History:
    """One covariance object driven through a sequence of target frames."""

    def __init__(self, case, attached):
        from beyond.orbits.cov import Cov

        self.case = case
        self.sv = case.new_sv()
        self.cov = Cov(self.sv, case.given(), case.frameA)
        self.attached = attached
        if attached:
            self.sv.cov = self.cov
        self.cur = case.A  # name of the frame the covariance is expressed in (specification view)
        self.last_named = case.A
        self.visited = [case.C]
        self.seq = []
        self.drivers = []
        self.tag = ""  # "", "-after-copy", "-after-reattach"
        self.broken = False
        self.scale = 1.0  # factor applied in place to the values since the start (see inflate)

    # -- classification of the hop about to be made ---------------------------------------------------
    def hopclass(self, T, driver):
        """Input class of a hop = mechanism part of the violation key.

        A hop from or to QSW/TNW needs the inertial position/velocity of the attachment state. Two history
        classes are singled out because the object then carries bookkeeping from earlier hops:
          local-hop-displaced   the most recent *named* frame the covariance was expressed in is not the
                                attachment frame (whatever the drivers)
          local-hop-after-copy  not displaced, but an earlier hop went through Cov.copy(frame=) (with or
                                without re-attachment to the state)
        everything else is keyed <src>-to-<tgt>[-via-drag].
        """
        src_local = bool(self.seq) and self.cur in LOCAL
        tgt_local = T in LOCAL
        if self.seq and (src_local or tgt_local):
            if self.last_named != self.case.A:
                return "local-hop-displaced"
            if self.tag:
                return "local-hop-after-copy"
        src = "start" if not self.seq else ("local" if src_local else "named")
        s = f"{src}-to-{'local' if tgt_local else 'named'}"
        if driver == "drag":
            s += "-via-drag"
        return s

    def wit(self, T, driver, **kw):
        w = dict(self.case.witness)
        w.update(sequence=self.seq + [T], drivers=self.drivers + [driver], attached=self.attached, target=T)
        w.update(kw)
        return w

    # -- the values are updated in place between two hops (process noise added, consider-parameter inflation) ---------------
    def inflate(self, rng):
        """cov *= k in place, in whatever frame the covariance currently is: from then on every expectation is k times what
        it was (the maps are linear); a conversion that brings back a matrix remembered from before the update shows."""
        k = rng.choice([1.5, 2.25, 4.0, 0.25])
        how = rng.choice(["imul", "slice", "asarray"])
        c = self.sv.cov if self.attached else self.cov
        if how == "imul":
            c *= k
        elif how == "slice":
            c[:, :] = np.asarray(c) * k
        else:
            np.asarray(c)[:] *= k
        self.scale *= k
        self.case.ctx.count("values-updated-in-place-between-hops")
        self.drivers.append(f"[values x{k} in place ({how})]")
        self.seq.append(self.cur)

    # -- a matrix derived from the covariance by numpy is converted: the covariance itself is a bystander ----------------
    def bystander(self, rng):
        """Before the first hop: an inflated / combined / transposed / sliced matrix obtained from the covariance is sent to
        another frame.  The covariance it was derived from keeps its frame label and its values (the following hops are then
        judged as usual, so a label that no longer matches the values shows there too)."""
        ctx, case = self.case.ctx, self.case
        src = self.sv.cov if self.attached else self.cov
        # only matrices that own their memory: a numpy view (cov.T, cov[:]) legitimately writes through to its base
        kind = rng.choice(["scaled", "sum", "transposed-sum", "negated-twice"])
        T = rng.choice(TARGETS)
        if self.attached and rng.random() < 0.4:
            # ... or a copy of the state (plain, or in another form) is sent to another frame and drags ITS covariance along
            kind = rng.choice(["state-copy", "state-copy-other-form"])
            T = rng.choice(NAMED)
        before = (np.asarray(src).tobytes(), fname(src.frame))
        w = dict(case.witness, derived=kind, derived_sent_to=T, attached=self.attached)
        try:
            if kind == "scaled":
                der, k = src * 4.0, 4.0
            elif kind == "sum":
                der, k = src + src, 2.0
            elif kind == "transposed-sum":
                der, k = src.T + src, 2.0
            elif kind.startswith("state-copy"):
                cp = self.sv.copy() if kind == "state-copy" else self.sv.copy(form="cartesian" if self.sv.form.name != "cartesian" else "spherical")
                cp.frame = T
                der, k = cp.cov, 1.0
                ctx.expect(fname(der.frame) == T, "C14/copy-of-state-moved-but-its-covariance-did-not-follow", dict(w, label=fname(der.frame)),
                           f"copy of the state sent to {T}: its covariance is labelled {fname(der.frame)}")
            else:
                der, k = -(-src), 1.0
            if not kind.startswith("state-copy"):
                der.frame = T
        except Exception as exc:
            ctx.count("derived-matrix-conversion-not-supported:" + type(exc).__name__)
            der = None
        after = (np.asarray(src).tobytes(), fname(src.frame))
        ctx.count("bystander-checked")
        if not ctx.expect(before == after, "C14/conversion-of-a-derived-matrix-changes-the-covariance-it-came-from", dict(w, label_before=before[1], label_after=after[1]),
                          f"converting a matrix derived from the covariance ({kind}) to {T} changed the covariance itself: frame {before[1]} -> {after[1]}, "
                          f"values {'changed' if before[0] != after[0] else 'unchanged'}"):
            self.broken = True
            return False
        if der is not None and hasattr(der, "frame"):
            got = np.array(np.asarray(der), dtype=float) / k
            sp, sv = cr.block_scales([case.C, case.exp[T]])
            d = cr.scaled_maxdiff(got, case.exp[T], sp, sv)
            ctx.count("derived-matrix-evaluated")
            ctx.resid("derived-value", d, TOL_VALUE, key="C14/derived-matrix-value", witness=dict(w, got=got.tolist(), expected=case.exp[T].tolist()),
                      msg=f"matrix derived from the covariance ({kind}) sent to {T}: differs from k M C M^T by {d:.3g}")
        return True

    # -- one hop ----------------------------------------------------------------------------------------
    def hop(self, T, driver, rng, check=True):
        """driver in set | attached-set | copy | copy-reattach | drag.  Returns False after a breach."""
        from beyond.frames.frames import get_frame

        ctx = self.case.ctx
        if driver not in ("set", "attached-set", "copy", "copy-reattach", "drag"):
            raise ValueError(driver)
        cls = self.hopclass(T, driver)
        arg = T if (T in LOCAL or rng.random() < 0.5) else get_frame(T)
        ctx.count("driver:" + driver)
        ctx.count("target:" + T)
        try:
            if driver in ("set", "attached-set"):
                if self.attached:
                    sv_before = (probe.arr(self.sv).tobytes(), fname(self.sv.frame), self.sv.form.name)
                    self.sv.cov.frame = arg
                    self.cov = self.sv.cov
                    sv_after = (probe.arr(self.sv).tobytes(), fname(self.sv.frame), self.sv.form.name)
                    ctx.count("state-untouched-checked")
                    ctx.expect(sv_before == sv_after, "C14/cov-frame-change-moves-state", self.wit(T, driver),
                               f"orb.cov.frame = {T} changed the state itself: frame {sv_before[1]} -> {sv_after[1]}")
                else:
                    self.cov.frame = arg
            elif driver in ("copy", "copy-reattach"):
                before = (np.asarray(self.cov).tobytes(), fname(self.cov.frame))
                new = self.cov.copy(frame=arg)
                after = (np.asarray(self.cov).tobytes(), fname(self.cov.frame))
                ctx.count("copy-receiver-checked")
                ctx.expect(before == after and not np.shares_memory(np.asarray(new), np.asarray(self.cov)),
                           "C14/copy-frame-mutates-receiver", self.wit(T, driver),
                           f"Cov.copy(frame={T}) changed or aliases its receiver (frame {before[1]} -> {after[1]})")
                self.cov = new
                if driver == "copy-reattach":
                    self.sv.cov = new
                    self.attached = True
                else:
                    self.attached = False
            elif driver == "drag":
                tangled = fname(self.sv.cov.frame) == fname(self.sv.frame)
                if not tangled:
                    # the covariance is expressed in another frame than its state: the state's change must not move it
                    before = (np.asarray(self.sv.cov).tobytes(), fname(self.sv.cov.frame))
                    self.sv.frame = arg
                    after = (np.asarray(self.sv.cov).tobytes(), fname(self.sv.cov.frame))
                    ctx.count("drag-untangled-checked")
                    ctx.expect(before == after, "C14/state-frame-change-moves-untangled-cov", self.wit(T, driver),
                               f"orb.frame = {T} changed a covariance expressed in {before[1]} (state was in another frame)")
                    self.sv.cov.frame = arg  # make the hop by hand
                else:
                    ctx.count("drag-tangled")
                    self.sv.frame = arg
                self.cov = self.sv.cov
        except Exception as exc:
            self.broken = True
            ctx.violation(self.key("raises", cls), self.wit(T, driver, exc=repr(exc)), f"hop to {T} via {driver} raised {exc!r}")
            return False

        self.seq.append(T)
        self.drivers.append(driver)
        self.cur = T
        if T in NAMED:
            self.last_named = T
        self.visited.append(self.case.exp[T] * self.scale)
        ok = self.evaluate(T, cls, driver) if check else True
        if driver == "copy" and not self.tag:
            self.tag = "-after-copy"
        if driver == "copy-reattach":
            self.tag = "-after-reattach"
        if not ok:
            self.broken = True
        return ok

    @staticmethod
    def key(clause, cls):
        # the two history classes name one mechanism each, whatever clause exposes it
        return f"C14/{cls}" if cls.startswith("local-hop-") else f"C14/{clause}-{cls}"

    def evaluate(self, T, cls, driver):
        ctx, case = self.case.ctx, self.case
        key = self.key
        got = np.array(np.asarray(self.cov), dtype=float)
        sp, sv = cr.block_scales(self.visited)

        exp_T = case.exp[T] * self.scale

        def wit():
            return self.wit(T, driver, got=got.tolist(), expected=exp_T.tolist(), values_scaled_in_place_by=self.scale)

        ctx.count("hop-evaluated")
        ctx.count("hopclass:" + cls)
        label = fname(self.cov.frame)
        ok = ctx.expect(label == T, key("label", cls), self.wit(T, driver, label=label), f"covariance labelled {label}, target {T}")
        d = cr.scaled_maxdiff(got, exp_T, sp, sv)
        ok &= ctx.resid("value", d, TOL_VALUE, key=key("value", cls), witness=wit() if not d <= TOL_VALUE else None,
                        msg=f"{self.case.A} -> {' -> '.join(self.seq)} ({driver}): covariance differs from M C M^T by {d:.3g} "
                            f"(scaled elementwise; tolerance {TOL_VALUE})")
        if not ok:
            return False
        ds = cr.scaled_maxdiff(got, got.T, sp, sv)
        ok &= ctx.resid("symmetric", ds, TOL_VALUE, key=key("symmetric", cls), witness=self.wit(T, driver, got=got.tolist()),
                        msg=f"result not symmetric ({ds:.3g} scaled)")
        dg = np.diag(got)
        if np.all(dg > 0):
            s = np.sqrt(dg)
            lam = float(np.linalg.eigvalsh(0.5 * (got + got.T) / np.outer(s, s))[0])
        else:
            lam = float("-inf")
        ok &= ctx.resid("psd:-lambda_min(scaled)", max(0.0, -lam), TOL_VALUE, key=key("psd", cls),
                        witness=self.wit(T, driver, got=got.tolist(), lambda_min=lam), msg=f"not positive semi-definite: {lam!r}")
        ev = np.linalg.eigvalsh(0.5 * (got[:3, :3] + got[:3, :3].T))
        de = float(np.max(np.abs(ev - case.ev_pos * self.scale)) / (case.ev_pos[-1] * self.scale))
        ok &= ctx.resid("pos-eig", de, TOL_EIG, key=key("pos-eig", cls), witness=self.wit(T, driver, got_eig=ev.tolist(), expected_eig=case.ev_pos.tolist()),
                        msg=f"position-block eigenvalues changed by {de:.3g} (relative to the largest)")
        return bool(ok)

    # -- end-of-history oracles -----------------------------------------------------------------------
    def final_checks(self, onehop, rng):
        ctx, case = self.case.ctx, self.case
        if self.broken or not self.seq:
            return
        T = self.seq[-1]
        sp, sv = cr.block_scales(self.visited)
        got = np.array(np.asarray(self.cov), dtype=float)
        if onehop.get(T) is not None:
            d = cr.scaled_maxdiff(got, onehop[T] * self.scale, sp, sv)
            ctx.count("path-evaluated")
            cls = self.hopclass_final("path")
            ctx.resid("path-independence", d, TOL_VALUE, key=cls, witness=self.wit_final(got=got.tolist(), onehop=onehop[T].tolist()),
                      msg=f"{case.A} -> {' -> '.join(self.seq)} differs from the direct {case.A} -> {T} by {d:.3g} (scaled)")
        # round trip to the attachment frame
        before_tag = self.hopclass(case.A, "set")
        try:
            self.cov.frame = case.A if rng.random() < 0.5 else case.frameA
        except Exception as exc:
            ctx.violation(self.key("raises", before_tag), self.wit(case.A, "set", exc=repr(exc)), f"conversion back to {case.A} raised {exc!r}")
            return
        back = np.array(np.asarray(self.cov), dtype=float)
        d = cr.scaled_maxdiff(back, case.C * self.scale, sp, sv)
        ctx.count("roundtrip-evaluated")
        ctx.resid("roundtrip", d, TOL_VALUE, key=self.key("roundtrip", before_tag), witness=self.wit(case.A, "set", got=back.tolist()),
                  msg=f"{case.A} -> {' -> '.join(self.seq)} -> {case.A} does not restore the matrix ({d:.3g} scaled)")

    def hopclass_final(self, clause):
        return f"C14/{clause}-ending-{'local' if self.cur in LOCAL else 'named'}"

    def wit_final(self, **kw):
        w = dict(self.case.witness)
        w.update(sequence=list(self.seq), drivers=list(self.drivers), attached=self.attached)
        w.update(kw)
        return w


def onehop_table(ctx, case):
    """Direct conversion A -> T on a fresh covariance for every target (the reference of the path clause);
    each is itself judged against the oracle (class start-to-*)."""
    import random as _random

    table = {}
    for T in TARGETS:
        h = History(case, attached=False)
        ok = h.hop(T, "copy", _random.Random(0))
        ctx.count("onehop-evaluated")
        table[T] = np.array(np.asarray(h.cov), dtype=float) if ok else None
    return table


def pick_driver(rng, h, T, allow_reattach=True):
    """A driver applicable to the current state of the history."""
    opts = ["set", "copy"]
    if h.attached:
        opts = ["attached-set", "copy"]
        if T in NAMED:
            opts += ["drag", "drag"]
    if allow_reattach and fname(h.sv.frame) not in ROTATING and rng.random() < 0.15:
        return "copy-reattach"
    return rng.choice(opts)


def run_case(ctx, job, idx, rng, st):
    c = gen_case(rng, idx)
    ctx.case(c["descr"])
    ctx.count("start:" + c["start"])
    ctx.count("orbit:" + c["oc"])
    ctx.count("form:" + c["form"])
    ctx.count("matrix-given-as:" + c.get("given", "float-ndarray"))
    cond = c["descr"]["cond"]
    ctx.count("cond:" + ("<1e4" if cond < 1e4 else "1e4-1e8" if cond < 1e8 else "1e8-1e12"))
    st["cache"].clear()
    case = Case(ctx, c)

    if job["kind"] == "str":
        return run_str(ctx, case, rng)

    onehop = onehop_table(ctx, case)

    if idx % 3 == 0:
        # history: another covariance in the same process, attached to a state whose date has the SAME clock reading in
        # another time scale (another instant, tens of seconds away: the Earth-fixed axes have turned by milliradians)
        from beyond.dates import Date

        other = rng.choice(["TAI", "TT", "GPS"])
        d0 = c["date"]
        c2 = dict(c, date=Date(d0.d, d0.s, scale=other), descr=dict(c["descr"], twin_of_the_reading_in="UTC", scale=other))
        case2 = Case(ctx, c2)
        case2.witness["date_scale"] = other
        ctx.count("twin-reading-other-scale")
        for T in rng.sample([t for t in TARGETS if t in ROTATING], 2) + [rng.choice(TARGETS)]:
            h2 = History(case2, attached=rng.random() < 0.5)
            h2.hop(T, pick_driver(rng, h2, T, allow_reattach=False), rng)

    if job["kind"] == "twohop":
        for s1 in TARGETS:
            for s2 in TARGETS:
                mode = rng.choice(["free-set", "free-mix", "attached-mix", "attached-drag"])
                h = History(case, attached=mode.startswith("attached"))
                if rng.random() < 0.1 and not h.bystander(rng):
                    continue
                for T in (s1, s2):
                    if mode == "free-set":
                        d = "set"
                    elif mode == "attached-drag":
                        d = "drag" if T in NAMED else "attached-set"
                        if not h.attached:
                            d = "set"
                    else:
                        d = pick_driver(rng, h, T, allow_reattach=False)
                    if not h.hop(T, d, rng):
                        break
                ctx.count("seqlen:2")
                h.final_checks(onehop, rng)
    else:
        for _ in range(job.get("nseq", 40)):
            L = rng.choice([1, 3, 3, 4, 4, 5, 5])
            attached = rng.random() < 0.6
            h = History(case, attached=attached)
            if rng.random() < 0.3 and not h.bystander(rng):
                continue
            for _k in range(L):
                T = rng.choice(TARGETS)
                if not h.hop(T, pick_driver(rng, h, T), rng):
                    break
                if rng.random() < 0.15:
                    h.inflate(rng)
            ctx.count(f"seqlen:{L}")
            h.final_checks(onehop, rng)


# ----------------------------------------------------------------------------------------------------------
def run_str(ctx, case, rng):
    """Covariance constructed with the frame given as `str` (documented type of the argument)."""
    from beyond.orbits.cov import Cov

    A = case.A
    T = rng.choice([t for t in TARGETS if t != A])
    w = dict(case.witness, target=T, cov_frame_argument=repr(A))

    # (a) the object can be built, reports its frame, and copies
    sv = case.new_sv()
    try:
        cov = Cov(sv, case.given(), A)
        lab = fname(cov.frame)
        ctx.expect(lab == A, "C14/str-frame-label", dict(w, label=lab), f"Cov(..., frame={A!r}).frame reports {lab!r}")
        c2 = cov.copy()
        ctx.expect(np.array_equal(np.asarray(c2), case.C) and fname(c2.frame) == A, "C14/str-frame-plain-copy", w, "plain copy differs")
    except Exception as exc:
        ctx.violation("C14/str-frame-construct-raises", dict(w, exc=repr(exc)), repr(exc))
        return

    # (b) conversion through the setter / copy(frame=) must give M C M^T like for a Frame argument
    for how in ("set", "copy"):
        ctx.count("strframe:convert")
        cov = Cov(case.new_sv(), case.given(), A)
        try:
            if how == "set":
                cov.frame = T
                res = cov
            else:
                res = cov.copy(frame=T)
        except Exception as exc:
            ctx.violation("C14/str-frame-convert-raises", dict(w, how=how, exc=repr(exc)), f"Cov(orb, C, {A!r}) -> {T} via {how} raised {exc!r}")
            continue
        got = np.array(np.asarray(res), dtype=float)
        sp, svs = cr.block_scales([case.C, case.exp[T]])
        d = cr.scaled_maxdiff(got, case.exp[T], sp, svs)
        ctx.resid("str-frame:value", d, TOL_VALUE, key="C14/str-frame-value", witness=dict(w, how=how, got=got.tolist()),
                  msg=f"str-constructed covariance {A} -> {T}: differs from M C M^T by {d:.3g}")

    # (c) conversion to the frame it is already in is a no-op
    cov = Cov(case.new_sv(), case.given(), A)
    try:
        cov.frame = A
        ctx.expect(np.array_equal(np.asarray(cov), case.C), "C14/str-frame-same-frame-changes-values", w, "cov.frame = <same frame> changed the values")
    except Exception as exc:
        ctx.violation("C14/str-frame-convert-raises", dict(w, target=A, exc=repr(exc)), f"Cov(orb, C, {A!r}).frame = {A!r} raised {exc!r}")

    # (d) drag: the covariance is expressed in its state's frame, so it must follow the state
    named = [t for t in NAMED if t != A]
    Tn = T if T in NAMED else rng.choice(named)
    sv = case.new_sv()
    ctx.count("strframe:drag")
    try:
        sv.cov = Cov(sv, case.given(), A)
        sv.frame = Tn
    except Exception as exc:
        ctx.violation("C14/str-frame-drag-raises", dict(w, target=Tn, exc=repr(exc)), f"orb.frame = {Tn} with a str-constructed covariance raised {exc!r}")
        return
    lab = fname(sv.cov.frame)
    if not ctx.expect(lab == Tn, "C14/str-frame-not-dragged", dict(w, target=Tn, label=lab),
                      f"state moved {A} -> {Tn} but its covariance (constructed with frame={A!r}) stayed in {lab!r}"):
        return
    got = np.array(np.asarray(sv.cov), dtype=float)
    sp, svs = cr.block_scales([case.C, case.exp[Tn]])
    d = cr.scaled_maxdiff(got, case.exp[Tn], sp, svs)
    ctx.resid("str-frame:drag-value", d, TOL_VALUE, key="C14/str-frame-drag-value", witness=dict(w, target=Tn, got=got.tolist()),
              msg=f"dragged str-constructed covariance differs from M C M^T by {d:.3g}")
